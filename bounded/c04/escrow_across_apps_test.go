package keeper_test

// BOUNDED stand-in (property C04, "the global escrow account holds at least the coins of all pending deposit and withdrawal
// requests" and "pool-coin supply changes only by deposits and withdrawals executed against that pool"): the batch execution
// (Keeper.ExecuteRequests with its bulk transfers) is outside the reach of the contract verifier. This test runs two apps
// that share the chain-wide escrow account through a fixed schedule of blocks mixing plain deposits / withdrawals (executed by
// the end blocker) with deposit-and-farm / unfarm-and-withdraw (executed inside the transaction), and checks after every
// transaction and every block that the escrow covers all pending requests, that the registered escrow invariant holds, and
// that each pool's share supply moved by exactly the shares minted / burned for executed requests.
// Labelled bounded, never counted as proved.

import (
	"fmt"
	"os"
	"strconv"

	sdkmath "cosmossdk.io/math"
	sdk "github.com/cosmos/cosmos-sdk/types"

	utils "github.com/comdex-official/comdex/types"
	"github.com/comdex-official/comdex/x/liquidity"
	"github.com/comdex-official/comdex/x/liquidity/keeper"
	"github.com/comdex-official/comdex/x/liquidity/types"
)

func (s *KeeperTestSuite) TestVerifC04EscrowAcrossApps() {
	creator := s.addr(0)
	users := []sdk.AccAddress{s.addr(1), s.addr(2), s.addr(3)}
	app1 := s.CreateNewApp("appone")
	app2 := s.CreateNewApp("apptwo")
	asset1 := s.CreateNewAsset("ASSETONE", "uasset1", 1000000)
	asset2 := s.CreateNewAsset("ASSETTWO", "uasset2", 1000000)
	pair1 := s.CreateNewLiquidityPair(app1, creator, asset1.Denom, asset2.Denom)
	pool1 := s.CreateNewLiquidityPool(app1, pair1.Id, creator, "1000000000uasset1,1000000000uasset2")
	pair2 := s.CreateNewLiquidityPair(app2, creator, asset1.Denom, asset2.Denom)
	pool2 := s.CreateNewLiquidityPool(app2, pair2.Id, creator, "1000000000uasset1,1000000000uasset2")
	apps := []uint64{app1, app2}
	pools := []types.Pool{pool1, pool2}

	evals, bad := 0, 0
	var firstBad, sample string
	fail := func(format string, a ...interface{}) {
		bad++
		if firstBad == "" {
			firstBad = fmt.Sprintf(format, a...)
		}
	}
	pending := func() sdk.Coins {
		p := sdk.Coins{}
		for _, appID := range apps {
			_ = s.keeper.IterateAllDepositRequests(s.ctx, appID, func(req types.DepositRequest) (bool, error) {
				if req.Status == types.RequestStatusNotExecuted {
					p = p.Add(req.DepositCoins...)
				}
				return false, nil
			})
			_ = s.keeper.IterateAllWithdrawRequests(s.ctx, appID, func(req types.WithdrawRequest) (bool, error) {
				if req.Status == types.RequestStatusNotExecuted {
					p = p.Add(req.PoolCoin)
				}
				return false, nil
			})
		}
		return p
	}
	// shares held by anybody we know of + farmed: supply must equal the sum (nobody else holds shares in this scenario)
	held := func(pool types.Pool) sdkmath.Int {
		t := s.getBalance(creator, pool.PoolCoinDenom).Amount
		for _, u := range users {
			t = t.Add(s.getBalance(u, pool.PoolCoinDenom).Amount)
		}
		t = t.Add(s.getBalance(s.app.AccountKeeper.GetModuleAddress(types.ModuleName), pool.PoolCoinDenom).Amount)
		t = t.Add(s.getBalance(types.GlobalEscrowAddress, pool.PoolCoinDenom).Amount)
		return t
	}
	check := func(when string) {
		evals++
		escrow := s.getBalances(types.GlobalEscrowAddress)
		p := pending()
		if !escrow.IsAllGTE(p) {
			fail("%s: global escrow %s does not cover the pending requests %s", when, escrow, p)
		}
		if msg, broken := keeper.DepositCoinsEscrowInvariant(s.keeper)(s.ctx); broken {
			fail("%s: %s", when, msg)
		}
		for _, pool := range pools {
			evals++
			if sup := s.keeper.GetPoolCoinSupply(s.ctx, pool); !sup.Equal(held(pool)) {
				fail("%s: supply of %s is %s but holders (users, creator, farmed, escrow) have %s", when, pool.PoolCoinDenom, sup, held(pool))
			}
		}
	}
	endBlock := func(n int) {
		liquidity.EndBlocker(s.ctx, s.keeper, s.app.AssetKeeper)
		check(fmt.Sprintf("end of block %d", n))
		s.ctx = s.ctx.WithBlockHeight(s.ctx.BlockHeight() + 1).WithBlockTime(s.ctx.BlockTime().Add(6e9))
		liquidity.BeginBlocker(s.ctx, s.keeper, s.app.AssetKeeper)
		check(fmt.Sprintf("begin of block %d", n+1))
	}
	type tx struct {
		kind string // deposit, depositfarm, withdraw, unfarmwithdraw
		app  int
		user int
		amt  int64
	}
	blocks := [][]tx{
		{{"depositfarm", 0, 0, 1000000}, {"deposit", 1, 1, 5000000}},
		{{"deposit", 0, 1, 777}, {"depositfarm", 1, 2, 3000001}, {"deposit", 1, 0, 12345}},
		{{"withdraw", 1, 1, 2000000}, {"depositfarm", 0, 2, 999}, {"deposit", 1, 2, 40}},
		{{"unfarmwithdraw", 0, 0, 400000}, {"deposit", 1, 0, 8000000}, {"withdraw", 0, 1, 300}},
		{{"unfarmwithdraw", 1, 2, 1000000}, {"depositfarm", 0, 1, 2500000}, {"deposit", 0, 0, 1}},
	}
	for bi, blk := range blocks {
		for _, t := range blk {
			u := users[t.user]
			pool := pools[t.app]
			when := fmt.Sprintf("block %d, %s of %d by user %d in app %d", bi+1, t.kind, t.amt, t.user, t.app+1)
			switch t.kind {
			case "deposit":
				s.Deposit(apps[t.app], pool.Id, u, fmt.Sprintf("%duasset1,%duasset2", t.amt, t.amt))
			case "depositfarm":
				coins := utils.ParseCoins(fmt.Sprintf("%duasset1,%duasset2", t.amt, t.amt))
				s.fundAddr(u, coins)
				if err := s.keeper.DepositAndFarm(s.ctx, types.NewMsgDepositAndFarm(apps[t.app], u, pool.Id, coins)); err != nil {
					fail("%s failed: %v", when, err)
				}
			case "withdraw":
				have := s.getBalance(u, pool.PoolCoinDenom).Amount
				amt := sdkmath.MinInt(have, sdkmath.NewInt(t.amt).MulRaw(1000))
				if amt.IsPositive() {
					s.Withdraw(apps[t.app], pool.Id, u, sdk.NewCoin(pool.PoolCoinDenom, amt))
				}
			case "unfarmwithdraw":
				farmed := sdkmath.ZeroInt()
				if qf, found := s.keeper.GetQueuedFarmer(s.ctx, apps[t.app], pool.Id, u); found {
					for _, qc := range qf.QueudCoins {
						farmed = farmed.Add(qc.FarmedPoolCoin.Amount)
					}
				}
				if af, found := s.keeper.GetActiveFarmer(s.ctx, apps[t.app], pool.Id, u); found {
					farmed = farmed.Add(af.FarmedPoolCoin.Amount)
				}
				amt := sdkmath.MinInt(farmed, sdkmath.NewInt(t.amt).MulRaw(1000))
				if amt.IsPositive() {
					if err := s.keeper.UnfarmAndWithdraw(s.ctx, types.NewMsgUnfarmAndWithdraw(apps[t.app], pool.Id, u, sdk.NewCoin(pool.PoolCoinDenom, amt))); err != nil {
						fail("%s failed: %v", when, err)
					}
				}
			}
			check("after " + when)
		}
		endBlock(bi + 1)
		if sample == "" {
			sample = fmt.Sprintf("after block 1: escrow %s, pending %s", s.getBalances(types.GlobalEscrowAddress), pending())
		}
	}
	if out := os.Getenv("VERIF_BOUNDED_OUT"); out != "" {
		os.WriteFile(out, []byte(`{"function":"liquidity Keeper.ExecuteRequests (batch execution, two apps sharing the escrow account)","label":"bounded","bound":"2 apps x 1 pool, 3 users, a fixed schedule of `+strconv.Itoa(len(blocks))+` blocks with 14 transactions (deposit, withdraw, deposit-and-farm, unfarm-and-withdraw)","evaluations":`+strconv.Itoa(evals)+`,"violating":`+strconv.Itoa(bad)+`,"rule":"a case is one check after a transaction or at a block boundary","sample":"`+sample+`","laws":["global escrow balance covers all pending deposit and withdrawal requests","the registered deposit-coins escrow invariant holds","pool-coin supply == shares held by users + farmed + escrowed (supply moves only with executed requests)"]}`), 0o644)
	}
	s.Require().Zero(bad, "%d violating checks of %d; first: %s", bad, evals, firstBad)
}
