package keeper_test

// BOUNDED stand-in (property C04, "the liquidity module account holds exactly the pool coins recorded as farmed (queued plus
// active) for every pool"): the promotion of queued farm entries to active ones (Keeper.ProcessQueuedFarmers, run by the end
// blocker) and Unfarm's walk over the queue are loops over slices of pointers nested three deep and are outside the reach of
// the contract verifier. This test drives the real keeper with four farmers who farm on a schedule of amounts and times
// (entries maturing at different batches, interleaved with partial unfarms), and checks after every step that (1) every
// farmer's recorded queued + active amount equals what that farmer farmed minus what it unfarmed, and (2) the module account
// holds exactly the sum of the recorded amounts. Labelled bounded, never counted as proved.

import (
	"fmt"
	"os"
	"strconv"
	"time"

	sdkmath "cosmossdk.io/math"
	sdk "github.com/cosmos/cosmos-sdk/types"
	authtypes "github.com/cosmos/cosmos-sdk/x/auth/types"

	"github.com/comdex-official/comdex/x/liquidity/types"
)

func (s *KeeperTestSuite) TestVerifC04FarmQueueBooks() {
	creator := s.addr(0)
	appID := s.CreateNewApp("appone")
	asset1 := s.CreateNewAsset("ASSETONE", "uasset1", 1000000)
	asset2 := s.CreateNewAsset("ASSETTWO", "uasset2", 1000000)
	pair := s.CreateNewLiquidityPair(appID, creator, asset1.Denom, asset2.Denom)
	pool := s.CreateNewLiquidityPool(appID, pair.Id, creator, "1000000000000uasset1,1000000000000uasset2")
	n := 4
	var farmers []sdk.AccAddress
	for i := 0; i < n; i++ {
		f := s.addr(i + 1)
		farmers = append(farmers, f)
		s.Deposit(appID, pool.Id, f, "1000000000uasset1,1000000000uasset2")
	}
	s.nextBlock()
	start := s.ctx.BlockTime()
	expect := make([]sdkmath.Int, n)
	for i := range expect {
		expect[i] = sdkmath.ZeroInt()
	}
	evals, bad := 0, 0
	var firstBad, sample string
	fail := func(format string, a ...interface{}) {
		bad++
		if firstBad == "" {
			firstBad = fmt.Sprintf(format, a...)
		}
	}
	recorded := func(f sdk.AccAddress) sdkmath.Int {
		total := sdkmath.ZeroInt()
		if af, found := s.keeper.GetActiveFarmer(s.ctx, appID, pool.Id, f); found {
			total = total.Add(af.FarmedPoolCoin.Amount)
		}
		if qf, found := s.keeper.GetQueuedFarmer(s.ctx, appID, pool.Id, f); found {
			for _, qc := range qf.QueudCoins {
				total = total.Add(qc.FarmedPoolCoin.Amount)
			}
		}
		return total
	}
	check := func(when string) {
		sum := sdkmath.ZeroInt()
		for i, f := range farmers {
			r := recorded(f)
			evals++
			if !r.Equal(expect[i]) {
				fail("%s: farmer %d farmed %s net but %s is recorded (queued + active)", when, i, expect[i], r)
			}
			sum = sum.Add(r)
		}
		held := s.getBalance(authtypes.NewModuleAddress(types.ModuleName), pool.PoolCoinDenom).Amount
		evals++
		if !held.Equal(sum) {
			fail("%s: module account holds %s but %s is recorded as farmed", when, held, sum)
		}
		if sample == "" && when == "batch at +24h00m10s" {
			sample = fmt.Sprintf("%s: recorded %s, held %s", when, sum, held)
		}
	}
	type step struct {
		at     time.Duration
		farmer int
		amt    int64 // > 0 farm, < 0 unfarm, 0 = just run a batch
	}
	h := time.Hour
	steps := []step{
		{0, 0, 10_000000}, {0, 1, 20_000000}, {0, 3, 1},
		{6 * h, 2, 7_000000}, {6 * h, 0, 500},
		{12 * h, 0, 3_000000}, {12 * h, 1, 4_000000},
		{18 * h, 3, 9_999999}, {18 * h, 1, -1_000000},
		{24*h + 10*time.Second, 0, 0},
		{25 * h, 2, 1_234567}, {25 * h, 0, -12_000000},
		{30*h + 10*time.Second, 0, 0},
		{31 * h, 3, -5}, {31 * h, 1, 2},
		{36*h + 10*time.Second, 0, 0},
		{42*h + 10*time.Second, 0, 0},
		{43 * h, 1, -23_000002}, {43 * h, 2, -8_234567},
		{49*h + 10*time.Second, 0, 0},
		{56 * h, 0, -1_000500}, {56 * h, 3, -9_999995},
	}
	if os.Getenv("VERIF_TIER") == "thorough" {
		for k := 0; k < 40; k++ {
			at := time.Duration(57+k) * h
			steps = append(steps, step{at, k % n, int64(1000 + 37*k)})
			if k%3 == 2 {
				steps = append(steps, step{at + 24*h + 10*time.Second, 0, 0})
			}
		}
	}
	last := time.Duration(-1)
	for _, st := range steps {
		if st.at != last {
			s.ctx = s.ctx.WithBlockTime(start.Add(st.at))
			last = st.at
		}
		f := farmers[st.farmer]
		switch {
		case st.amt > 0:
			if err := s.keeper.Farm(s.ctx, types.NewMsgFarm(appID, pool.Id, f, sdk.NewInt64Coin(pool.PoolCoinDenom, st.amt))); err != nil {
				fail("farm of %d by farmer %d at +%s failed: %v", st.amt, st.farmer, st.at, err)
			} else {
				expect[st.farmer] = expect[st.farmer].AddRaw(st.amt)
			}
		case st.amt < 0:
			if err := s.keeper.Unfarm(s.ctx, types.NewMsgUnfarm(appID, pool.Id, f, sdk.NewInt64Coin(pool.PoolCoinDenom, -st.amt))); err != nil {
				if sdkmath.NewInt(-st.amt).LTE(expect[st.farmer]) {
					fail("unfarm of %d by farmer %d (net farmed %s) at +%s failed: %v", -st.amt, st.farmer, expect[st.farmer], st.at, err)
				}
			} else {
				if sdkmath.NewInt(-st.amt).GT(expect[st.farmer]) {
					fail("unfarm of %d by farmer %d succeeded although only %s was farmed", -st.amt, st.farmer, expect[st.farmer])
				}
				expect[st.farmer] = expect[st.farmer].AddRaw(st.amt)
			}
		}
		s.nextBlock()
		if st.amt == 0 {
			check(fmt.Sprintf("batch at +%s", fmtDur(st.at)))
		} else {
			check(fmt.Sprintf("after step farmer %d amount %d at +%s", st.farmer, st.amt, fmtDur(st.at)))
		}
	}
	if out := os.Getenv("VERIF_BOUNDED_OUT"); out != "" {
		os.WriteFile(out, []byte(`{"function":"liquidity Keeper.ProcessQueuedFarmers / Farm / Unfarm (queue books across farmers)","label":"bounded","bound":"one pool, `+strconv.Itoa(n)+` farmers, a fixed schedule of `+strconv.Itoa(len(steps))+` farm / unfarm / batch steps over 56 hours (entries maturing in different batches, partial unfarms spanning active and queued entries)","evaluations":`+strconv.Itoa(evals)+`,"violating":`+strconv.Itoa(bad)+`,"rule":"a case is one equality checked after one step","sample":"`+sample+`","laws":["per farmer: recorded queued + active == farmed - unfarmed","module account pool-coin balance == sum of recorded amounts","an unfarm succeeds iff it is within the farmer's recorded amount"]}`), 0o644)
	}
	s.Require().Zero(bad, "%d violating checks of %d; first: %s", bad, evals, firstBad)
}

func fmtDur(d time.Duration) string {
	return fmt.Sprintf("%dh%02dm%02ds", int(d.Hours()), int(d.Minutes())%60, int(d.Seconds())%60)
}
