#!/bin/bash
# usage: run.sh <tier> <out.json> ; exit 0 = laws hold on every case within the bound
export GOFLAGS=-mod=mod GOPROXY=off GOSUMDB=off GOTOOLCHAIN=local
repo=${VERIF_REPO:-/repo}
d=$(mktemp -d)
printf '{"Replace":{"%s/x/liquidity/keeper/zz_verif_c04_bounded_test.go":"/verif/bounded/c04/farm_queue_test.go"}}' $repo > $d/ov.json
cd $repo && VERIF_TIER=$1 VERIF_BOUNDED_OUT=$2 go test -overlay $d/ov.json -vet=off -count=1 -timeout 900s -run 'TestKeeperTestSuite' ./x/liquidity/keeper/ -testify.m 'TestVerifC04FarmQueueBooks' > $d/log 2>&1
rc=$?
printf '{"Replace":{"%s/x/liquidity/keeper/zz_verif_c04b_bounded_test.go":"/verif/bounded/c04/escrow_across_apps_test.go"}}' $repo > $d/ov2.json
VERIF_TIER=$1 VERIF_BOUNDED_OUT=${2%.json}.b.json go test -overlay $d/ov2.json -vet=off -count=1 -timeout 900s -run 'TestKeeperTestSuite' ./x/liquidity/keeper/ -testify.m 'TestVerifC04EscrowAcrossApps' > $d/log2 2>&1
rc2=$?
if [ -f ${2%.json}.b.json ] && [ -f $2 ]; then python3 -c "
import json
a=json.load(open('$2')); a['second_function_group']=json.load(open('${2%.json}.b.json')); json.dump(a,open('$2','w'))"; fi
rm -f ${2%.json}.b.json
grep -v '^I\[' $d/log2 >> $d/log
[ $rc -eq 0 ] && rc=$rc2
grep -v "^I\[" $d/log | tail -25 > ${2%.json}.log
rm -rf $d
exit $rc
