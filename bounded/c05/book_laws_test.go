package amm_test

// BOUNDED stand-in (property C05, book-level loops: OrderBook.Match, MatchAtSinglePrice, FindMatchableAmountAtSinglePrice,
// DistributeOrderAmountToTick/Orders). These functions are outside the reach of the contract verifier (recursion, maps keyed by
// interface values, in-place mutation through slices of interfaces); this test enumerates ALL order books within a stated
// bound on the real code and checks the conservation and limit laws of the property with exact integer arithmetic.
// It is labelled bounded in the evidence and is never counted as proved. Injected with `go test -overlay`.

import (
	"fmt"
	"os"
	"strconv"
	"strings"
	"testing"

	sdkmath "cosmossdk.io/math"

	utils "github.com/comdex-official/comdex/types"
	"github.com/comdex-official/comdex/x/liquidity/amm"
)

type spec struct {
	price string
	amt   int64
}

type lawViolation string

// an order that carries the generation (batch id) it was placed in: a tick's orders are served generation by generation
type genOrder struct {
	amm.Order
	gen uint64
}

func (o *genOrder) GetBatchID() uint64 { return o.gen }

type gspec struct {
	price string
	amt   int64
	gen   uint64
}

func checkBook(t *testing.T, tag string, orders []amm.Order, quoteDiff sdkmath.Int, matched bool) (nontrivial bool) {
	baseIn, baseOut := sdkmath.ZeroInt(), sdkmath.ZeroInt()
	quoteIn, quoteOut := sdkmath.ZeroInt(), sdkmath.ZeroInt()
	fills := 0
	for _, o := range orders {
		if o.GetOpenAmount().IsNegative() {
			panic(lawViolation(fmt.Sprintf("%s: open amount negative: %s", tag, o)))
		}
		if o.GetPaidOfferCoinAmount().GT(o.GetOfferCoinAmount()) {
			panic(lawViolation(fmt.Sprintf("%s: paid %s more than offer coin %s: %s", tag, o.GetPaidOfferCoinAmount(), o.GetOfferCoinAmount(), o)))
		}
		filled := o.GetAmount().Sub(o.GetOpenAmount())
		if filled.IsZero() {
			if !o.GetPaidOfferCoinAmount().IsZero() || !o.GetReceivedDemandCoinAmount().IsZero() {
				panic(lawViolation(fmt.Sprintf("%s: unfilled order paid or received: %s", tag, o)))
			}
			continue
		}
		fills++
		if !o.GetReceivedDemandCoinAmount().IsPositive() {
			panic(lawViolation(fmt.Sprintf("%s: matched order received nothing: %s", tag, o)))
		}
		switch o.GetDirection() {
		case amm.Buy:
			baseOut = baseOut.Add(o.GetReceivedDemandCoinAmount())
			quoteIn = quoteIn.Add(o.GetPaidOfferCoinAmount())
			if !filled.Equal(o.GetReceivedDemandCoinAmount()) {
				panic(lawViolation(fmt.Sprintf("%s: buyer filled %s but received %s", tag, filled, o.GetReceivedDemandCoinAmount())))
			}
			// limit: paid <= price*filled + (one quote unit per fill it took part in; an order takes part in at most `fills` fills overall, checked with the book-level dust bound below)
		case amm.Sell:
			baseIn = baseIn.Add(o.GetPaidOfferCoinAmount())
			quoteOut = quoteOut.Add(o.GetReceivedDemandCoinAmount())
			if !filled.Equal(o.GetPaidOfferCoinAmount()) {
				panic(lawViolation(fmt.Sprintf("%s: seller filled %s but paid %s", tag, filled, o.GetPaidOfferCoinAmount())))
			}
		}
	}
	if !baseIn.Equal(baseOut) {
		panic(lawViolation(fmt.Sprintf("%s: base coin not conserved: sellers paid %s, buyers received %s", tag, baseIn, baseOut)))
	}
	if !matched {
		if fills != 0 {
			panic(lawViolation(fmt.Sprintf("%s: not matched but %d orders filled", tag, fills)))
		}
		return false
	}
	dust := quoteIn.Sub(quoteOut)
	if dust.IsNegative() {
		panic(lawViolation(fmt.Sprintf("%s: buyers paid %s quote, sellers received %s", tag, quoteIn, quoteOut)))
	}
	if !dust.Equal(quoteDiff) {
		panic(lawViolation(fmt.Sprintf("%s: returned quoteCoinDiff %s != paid-received %s", tag, quoteDiff, dust)))
	}
	if fills > 0 && !dust.LT(sdkmath.NewInt(int64(2*fills))) {
		panic(lawViolation(fmt.Sprintf("%s: dust %s not smaller than the number of individual fills (%d orders filled)", tag, dust, fills)))
	}
	return fills > 0
}

func TestVerifC05BookLaws(t *testing.T) {
	tier := os.Getenv("VERIF_TIER")
	prices := []string{"0.1", "0.102", "1.0", "1.5"}
	amts := []int64{1, 2, 9995, 10000}
	maxBuy, maxSell := 2, 3
	if tier == "thorough" {
		amts = []int64{1, 2, 5, 9995, 10000}
	}
	lastPrices := []string{"0.1", "0.101", "1.0", "1.2"}
	var specs []spec
	for _, p := range prices {
		for _, a := range amts {
			specs = append(specs, spec{p, a})
		}
	}
	evals, nontriv, bad, knownHits := 0, 0, 0, 0
	var sample, firstBad, knownExample string
	var allBad []string
	known := map[string]bool{}
	if kf := os.Getenv("VERIF_C05_KNOWN"); kf != "" {
		if b, err := os.ReadFile(kf); err == nil {
			for _, l := range strings.Split(string(b), "\n") {
				if l = strings.TrimSpace(l); l != "" && !strings.HasPrefix(l, "#") {
					known[l] = true
				}
			}
		}
	}
	var rec func(side int, buys, sells []spec)
	run := func(buys, sells []spec) {
		for _, lp := range lastPrices {
			for mode := 0; mode < 2; mode++ {
				ob := amm.NewOrderBook()
				var orders []amm.Order
				for _, b := range buys {
					pr := utils.ParseDec(b.price)
					o := amm.NewBaseOrder(amm.Buy, pr, sdkmath.NewInt(b.amt), amm.OfferCoinAmount(amm.Buy, pr, sdkmath.NewInt(b.amt)))
					orders = append(orders, o)
					ob.AddOrder(o)
				}
				for _, s := range sells {
					pr := utils.ParseDec(s.price)
					o := amm.NewBaseOrder(amm.Sell, pr, sdkmath.NewInt(s.amt), sdkmath.NewInt(s.amt))
					orders = append(orders, o)
					ob.AddOrder(o)
				}
				tag := fmt.Sprintf("buys=%v sells=%v last=%s mode=%d", buys, sells, lp, mode)
				var diff sdkmath.Int
				var matched bool
				if mode == 0 {
					_, diff, matched = ob.Match(utils.ParseDec(lp))
				} else {
					diff, matched = ob.MatchAtSinglePrice(utils.ParseDec(lp))
				}
				evals++
				func() {
					defer func() {
						if r := recover(); r != nil {
							lv, ok := r.(lawViolation)
							if !ok {
								panic(r)
							}
							if known[string(lv)] {
								knownHits++
								if knownExample == "" {
									knownExample = string(lv)
								}
							} else {
								bad++
								if firstBad == "" {
									firstBad = string(lv)
								}
							}
							allBad = append(allBad, string(lv))
						}
					}()
					if checkBook(t, tag, orders, diff, matched) {
						nontriv++
						if sample == "" {
							sample = tag
						}
					}
				}()
			}
		}
	}
	rec = func(side int, buys, sells []spec) {
		if side == 0 {
			for n := 1; n <= maxBuy; n++ {
				var gen func(k int, cur []spec, from int)
				gen = func(k int, cur []spec, from int) {
					if k == 0 {
						rec(1, append([]spec{}, cur...), nil)
						return
					}
					for i := from; i < len(specs); i++ { // multisets: order of placement within a side does not matter for BaseOrder
						gen(k-1, append(cur, specs[i]), i)
					}
				}
				gen(n, nil, 0)
			}
			return
		}
		for n := 1; n <= maxSell; n++ {
			var gen func(k int, cur []spec, from int)
			gen = func(k int, cur []spec, from int) {
				if k == 0 {
					run(buys, cur)
					return
				}
				for i := from; i < len(specs); i++ {
					gen(k-1, append(cur, specs[i]), i)
				}
			}
			gen(n, nil, 0)
		}
	}
	rec(0, nil, nil)
	// second family: prices below 1 whose reciprocal is not an integer (the marginal sell tick of a single-price match is
	// worth less than one quote coin exactly when its partial fill is below ceil(1/p)), amounts around 1/p and around the
	// sum of two ticks
	firstFamily := fmt.Sprintf("prices in %v, amounts in %v, last price in %v", prices, amts, lastPrices)
	prices2 := []string{"0.299", "0.3", "0.007"}
	amts2 := []int64{3, 4, 142, 1000, 1003}
	lastPrices = []string{"0.3", "0.007"}
	specs = nil
	for _, p := range prices2 {
		for _, a := range amts2 {
			specs = append(specs, spec{p, a})
		}
	}
	rec(0, nil, nil)
	secondFamily := fmt.Sprintf("prices in %v, amounts in %v, last price in %v", prices2, amts2, lastPrices)
	// third family: ticks that hold orders of two generations (batch ids) and are visited more than once in a matching run
	prices3 := []string{"1.05", "1.1", "1.2"}
	amts3 := []int64{100, 150}
	gens3 := []uint64{1, 2}
	lastPrices3 := []string{"1.0", "1.15", "1.3"}
	var gspecs []gspec
	for _, p := range prices3 {
		for _, a := range amts3 {
			for _, g := range gens3 {
				gspecs = append(gspecs, gspec{p, a, g})
			}
		}
	}
	var sides [][]gspec
	for i := range gspecs {
		sides = append(sides, []gspec{gspecs[i]})
		for j := i; j < len(gspecs); j++ {
			sides = append(sides, []gspec{gspecs[i], gspecs[j]})
		}
	}
	for _, buys := range sides {
		for _, sells := range sides {
			for _, lp := range lastPrices3 {
				for mode := 0; mode < 2; mode++ {
					ob := amm.NewOrderBook()
					var orders []amm.Order
					for _, b := range buys {
						pr := utils.ParseDec(b.price)
						o := &genOrder{amm.NewBaseOrder(amm.Buy, pr, sdkmath.NewInt(b.amt), amm.OfferCoinAmount(amm.Buy, pr, sdkmath.NewInt(b.amt))), b.gen}
						orders = append(orders, o)
						ob.AddOrder(o)
					}
					for _, sl := range sells {
						pr := utils.ParseDec(sl.price)
						o := &genOrder{amm.NewBaseOrder(amm.Sell, pr, sdkmath.NewInt(sl.amt), sdkmath.NewInt(sl.amt)), sl.gen}
						orders = append(orders, o)
						ob.AddOrder(o)
					}
					tag := fmt.Sprintf("generations: buys=%v sells=%v last=%s mode=%d", buys, sells, lp, mode)
					var diff sdkmath.Int
					var matched bool
					if mode == 0 {
						_, diff, matched = ob.Match(utils.ParseDec(lp))
					} else {
						diff, matched = ob.MatchAtSinglePrice(utils.ParseDec(lp))
					}
					evals++
					func() {
						defer func() {
							if r := recover(); r != nil {
								lv, ok := r.(lawViolation)
								if !ok {
									panic(r)
								}
								bad++
								if firstBad == "" {
									firstBad = string(lv)
								}
								allBad = append(allBad, string(lv))
							}
						}()
						if checkBook(t, tag, orders, diff, matched) {
							nontriv++
						}
					}()
				}
			}
		}
	}
	thirdFamily := fmt.Sprintf("orders of generations %v on shared ticks: prices in %v, amounts in %v, last price in %v, 1..2 orders a side", gens3, prices3, amts3, lastPrices3)
	knownJSON := ""
	if knownHits > 0 {
		knownJSON = `"known_finding":{"obligation":"bounded/c05#book-laws","instances":` + strconv.Itoa(knownHits) + `,"example":` + strconv.Quote(knownExample) + `},`
	}
	if out := os.Getenv("VERIF_BOUNDED_OUT"); out != "" {
		os.WriteFile(out, []byte(`{"function":"amm.OrderBook.Match / MatchAtSinglePrice (with FindMatchableAmountAtSinglePrice, DistributeOrderAmountToTick, DistributeOrderAmountToOrders, FulfillOrders)","label":"bounded","bound":"all books with 1..`+strconv.Itoa(maxBuy)+` buy and 1..`+strconv.Itoa(maxSell)+` sell base orders (multisets), three families: `+firstFamily+`; and `+secondFamily+`; and `+thirdFamily+`; both matching modes; exhaustive within the bound","evaluations":`+strconv.Itoa(evals)+`,"violating":`+strconv.Itoa(bad)+`,`+knownJSON+`"distinct_nontrivial":`+strconv.Itoa(nontriv)+`,"rule":"a case is one (book, last price, mode); non-trivial when at least one order is filled","sample":"`+sample+`","laws":["base coin received by buyers == base coin paid by sellers","quote paid - quote received == returned quoteCoinDiff >= 0 and < 2 x filled orders","paid <= offer coin, open amount >= 0","a matched order receives a positive amount","unfilled orders neither pay nor receive"]}`), 0o644)
	}
	if dump := os.Getenv("VERIF_C05_DUMP"); dump != "" {
		os.WriteFile(dump, []byte(strings.Join(allBad, "\n")+"\n"), 0o644)
	}
	if bad > 0 {
		t.Fatalf("%d of %d books violate a law (beyond the %d exactly listed known cases); first: %s", bad, evals, knownHits, firstBad)
	}
	t.Logf("bounded C05: %d evaluations, %d non-trivial, %d known cases", evals, nontriv, knownHits)
}
