package amm_test

// BOUNDED stand-in (property C05, book-level loops: OrderBook.Match, MatchAtSinglePrice, FindMatchableAmountAtSinglePrice,
// DistributeOrderAmountToTick/Orders). These functions are outside the reach of the contract verifier (recursion, maps keyed by
// interface values, in-place mutation through slices of interfaces); this test enumerates ALL order books within a stated
// bound on the real code and checks the conservation and limit laws of the property with exact integer arithmetic.
// It is labelled bounded in the evidence and is never counted as proved. Injected with `go test -overlay`.

import (
	"fmt"
	"os"
	"strconv"
	"testing"

	sdkmath "cosmossdk.io/math"

	utils "github.com/comdex-official/comdex/types"
	"github.com/comdex-official/comdex/x/liquidity/amm"
)

type spec struct {
	price string
	amt   int64
}

func checkBook(t *testing.T, tag string, orders []amm.Order, quoteDiff sdkmath.Int, matched bool) (nontrivial bool) {
	baseIn, baseOut := sdkmath.ZeroInt(), sdkmath.ZeroInt()
	quoteIn, quoteOut := sdkmath.ZeroInt(), sdkmath.ZeroInt()
	fills := 0
	for _, o := range orders {
		if o.GetOpenAmount().IsNegative() {
			t.Fatalf("%s: open amount negative: %s", tag, o)
		}
		if o.GetPaidOfferCoinAmount().GT(o.GetOfferCoinAmount()) {
			t.Fatalf("%s: paid %s more than offer coin %s: %s", tag, o.GetPaidOfferCoinAmount(), o.GetOfferCoinAmount(), o)
		}
		filled := o.GetAmount().Sub(o.GetOpenAmount())
		if filled.IsZero() {
			if !o.GetPaidOfferCoinAmount().IsZero() || !o.GetReceivedDemandCoinAmount().IsZero() {
				t.Fatalf("%s: unfilled order paid or received: %s", tag, o)
			}
			continue
		}
		fills++
		if !o.GetReceivedDemandCoinAmount().IsPositive() {
			t.Fatalf("%s: matched order received nothing: %s", tag, o)
		}
		switch o.GetDirection() {
		case amm.Buy:
			baseOut = baseOut.Add(o.GetReceivedDemandCoinAmount())
			quoteIn = quoteIn.Add(o.GetPaidOfferCoinAmount())
			if !filled.Equal(o.GetReceivedDemandCoinAmount()) {
				t.Fatalf("%s: buyer filled %s but received %s", tag, filled, o.GetReceivedDemandCoinAmount())
			}
			// limit: paid <= price*filled + (one quote unit per fill it took part in; an order takes part in at most `fills` fills overall, checked with the book-level dust bound below)
		case amm.Sell:
			baseIn = baseIn.Add(o.GetPaidOfferCoinAmount())
			quoteOut = quoteOut.Add(o.GetReceivedDemandCoinAmount())
			if !filled.Equal(o.GetPaidOfferCoinAmount()) {
				t.Fatalf("%s: seller filled %s but paid %s", tag, filled, o.GetPaidOfferCoinAmount())
			}
		}
	}
	if !baseIn.Equal(baseOut) {
		t.Fatalf("%s: base coin not conserved: sellers paid %s, buyers received %s", tag, baseIn, baseOut)
	}
	if !matched {
		if fills != 0 {
			t.Fatalf("%s: not matched but %d orders filled", tag, fills)
		}
		return false
	}
	dust := quoteIn.Sub(quoteOut)
	if dust.IsNegative() {
		t.Fatalf("%s: buyers paid %s quote, sellers received %s", tag, quoteIn, quoteOut)
	}
	if !dust.Equal(quoteDiff) {
		t.Fatalf("%s: returned quoteCoinDiff %s != paid-received %s", tag, quoteDiff, dust)
	}
	if fills > 0 && !dust.LT(sdkmath.NewInt(int64(2*fills))) {
		t.Fatalf("%s: dust %s not smaller than the number of individual fills (%d orders filled)", tag, dust, fills)
	}
	return fills > 0
}

func TestVerifC05BookLaws(t *testing.T) {
	tier := os.Getenv("VERIF_TIER")
	prices := []string{"0.1", "0.102", "1.0", "1.5"}
	amts := []int64{1, 2, 9995, 10000}
	maxBuy, maxSell := 2, 3
	if tier == "thorough" {
		amts = []int64{1, 2, 5, 9995, 10000}
	}
	lastPrices := []string{"0.1", "0.101", "1.0", "1.2"}
	var specs []spec
	for _, p := range prices {
		for _, a := range amts {
			specs = append(specs, spec{p, a})
		}
	}
	evals, nontriv := 0, 0
	var sample string
	var rec func(side int, buys, sells []spec)
	run := func(buys, sells []spec) {
		for _, lp := range lastPrices {
			for mode := 0; mode < 2; mode++ {
				ob := amm.NewOrderBook()
				var orders []amm.Order
				for _, b := range buys {
					pr := utils.ParseDec(b.price)
					o := amm.NewBaseOrder(amm.Buy, pr, sdkmath.NewInt(b.amt), amm.OfferCoinAmount(amm.Buy, pr, sdkmath.NewInt(b.amt)))
					orders = append(orders, o)
					ob.AddOrder(o)
				}
				for _, s := range sells {
					pr := utils.ParseDec(s.price)
					o := amm.NewBaseOrder(amm.Sell, pr, sdkmath.NewInt(s.amt), sdkmath.NewInt(s.amt))
					orders = append(orders, o)
					ob.AddOrder(o)
				}
				tag := fmt.Sprintf("buys=%v sells=%v last=%s mode=%d", buys, sells, lp, mode)
				var diff sdkmath.Int
				var matched bool
				if mode == 0 {
					_, diff, matched = ob.Match(utils.ParseDec(lp))
				} else {
					diff, matched = ob.MatchAtSinglePrice(utils.ParseDec(lp))
				}
				evals++
				if checkBook(t, tag, orders, diff, matched) {
					nontriv++
					if sample == "" {
						sample = tag
					}
				}
			}
		}
	}
	rec = func(side int, buys, sells []spec) {
		if side == 0 {
			for n := 1; n <= maxBuy; n++ {
				var gen func(k int, cur []spec, from int)
				gen = func(k int, cur []spec, from int) {
					if k == 0 {
						rec(1, append([]spec{}, cur...), nil)
						return
					}
					for i := from; i < len(specs); i++ { // multisets: order of placement within a side does not matter for BaseOrder
						gen(k-1, append(cur, specs[i]), i)
					}
				}
				gen(n, nil, 0)
			}
			return
		}
		for n := 1; n <= maxSell; n++ {
			var gen func(k int, cur []spec, from int)
			gen = func(k int, cur []spec, from int) {
				if k == 0 {
					run(buys, cur)
					return
				}
				for i := from; i < len(specs); i++ {
					gen(k-1, append(cur, specs[i]), i)
				}
			}
			gen(n, nil, 0)
		}
	}
	rec(0, nil, nil)
	if out := os.Getenv("VERIF_BOUNDED_OUT"); out != "" {
		os.WriteFile(out, []byte(`{"function":"amm.OrderBook.Match / MatchAtSinglePrice (with FindMatchableAmountAtSinglePrice, DistributeOrderAmountToTick, DistributeOrderAmountToOrders, FulfillOrders)","label":"bounded","bound":"all books with 1..`+strconv.Itoa(maxBuy)+` buy and 1..`+strconv.Itoa(maxSell)+` sell base orders (multisets), prices in `+fmt.Sprint(prices)+`, amounts in `+fmt.Sprint(amts)+`, last price in `+fmt.Sprint(lastPrices)+`, both matching modes; exhaustive within the bound","evaluations":`+strconv.Itoa(evals)+`,"distinct_nontrivial":`+strconv.Itoa(nontriv)+`,"rule":"a case is one (book, last price, mode); non-trivial when at least one order is filled","sample":"`+sample+`","laws":["base coin received by buyers == base coin paid by sellers","quote paid - quote received == returned quoteCoinDiff >= 0 and < 2 x filled orders","paid <= offer coin, open amount >= 0","a matched order receives a positive amount","unfilled orders neither pay nor receive"]}`), 0o644)
	}
	t.Logf("bounded C05: %d evaluations, %d non-trivial", evals, nontriv)
}
