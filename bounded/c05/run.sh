#!/bin/bash
# usage: run.sh <tier> <out.json> ; exit 0 = laws hold on every book within the bound (except the exactly listed known cases), 1 = a book violates a law
export GOFLAGS=-mod=mod GOPROXY=off GOSUMDB=off GOTOOLCHAIN=local
repo=${VERIF_REPO:-/repo}
d=$(mktemp -d)
printf '{"Replace":{"%s/x/liquidity/amm/zz_verif_c05_bounded_test.go":"/verif/bounded/c05/book_laws_test.go"}}' $repo > $d/ov.json
cd $repo && VERIF_C05_KNOWN=/verif/bounded/c05/known_cases.txt VERIF_TIER=$1 VERIF_BOUNDED_OUT=$2 go test -overlay $d/ov.json -vet=off -count=1 -timeout 1500s -run 'TestVerifC05BookLaws' ./x/liquidity/amm/ > $d/log 2>&1
rc=$?
tail -25 $d/log | cut -c1-2000 > ${2%.json}.log
rm -rf $d
exit $rc
