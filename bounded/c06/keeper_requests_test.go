package keeper_test

// BOUNDED stand-in (property C06, execution against real balances: Keeper.ExecuteDepositRequest / ExecuteWithdrawRequest move
// coins through a bulk-send helper built on a Go map of pointers, outside the reach of the contract verifier). This test runs
// the real keeper: a pool, a grid of fee rates and of deposit / withdrawal sizes (tiny, odd, large, all outstanding shares),
// each request executed by the end blocker, and checks with exact integer arithmetic that (1) a deposit takes at most what was
// offered and the depositor's shares are minted at a rate no better than reserves per share, (2) a withdrawal returns at most
// the pro-rata part of the reserves reduced by the fee, (3) reserves per outstanding share never decrease, (4) redeeming all
// outstanding shares returns the entire reserves. Labelled bounded, never counted as proved.

import (
	"fmt"
	"os"
	"strconv"

	sdkmath "cosmossdk.io/math"
	sdk "github.com/cosmos/cosmos-sdk/types"

	utils "github.com/comdex-official/comdex/types"
)

func (s *KeeperTestSuite) TestVerifC06KeeperRequests() {
	evals, bad := 0, 0
	var firstBad, sample string
	fail := func(format string, a ...interface{}) {
		bad++
		if firstBad == "" {
			firstBad = fmt.Sprintf(format, a...)
		}
	}
	scale := sdkmath.NewIntWithDecimal(1, 18)
	fees := []string{"0", "0.003", "0.0001", "0.5"}
	for fi, feeStr := range fees {
		s.SetupTest()
		creator, user := s.addr(1), s.addr(2)
		appID := s.CreateNewApp("appone")
		asset1 := s.CreateNewAsset("ASSETONE", "uasset1", 1000000)
		asset2 := s.CreateNewAsset("ASSETTWO", "uasset2", 2000000)
		pair := s.CreateNewLiquidityPair(appID, creator, asset1.Denom, asset2.Denom)
		pool := s.CreateNewLiquidityPool(appID, pair.Id, creator, "1000000007uasset1,999999937uasset2")
		fee := utils.ParseDec(feeStr)
		if !fee.IsZero() {
			s.Require().NoError(s.keeper.UpdateGenericParams(s.ctx, appID, []string{"WithdrawFeeRate"}, []string{feeStr}))
		}
		oneMinusFee := sdkmath.LegacyOneDec().Sub(fee).MulInt(scale).TruncateInt()
		perShareOK := func(when string, rx0, ry0, ps0, rx1, ry1, ps1 sdkmath.Int) {
			evals++
			// rx1/ps1 >= rx0/ps0  <=>  rx1*ps0 >= rx0*ps1 (up to the statement's 1e-17 relative tolerance)
			tolX := rx0.Mul(ps1).Quo(sdkmath.NewIntWithDecimal(1, 17)).AddRaw(1)
			tolY := ry0.Mul(ps1).Quo(sdkmath.NewIntWithDecimal(1, 17)).AddRaw(1)
			if ps1.IsPositive() && (rx1.Mul(ps0).Add(tolX).LT(rx0.Mul(ps1)) || ry1.Mul(ps0).Add(tolY).LT(ry0.Mul(ps1))) {
				fail("fee %s, %s: reserves per share decreased: (%s,%s)/%s -> (%s,%s)/%s", feeStr, when, rx0, ry0, ps0, rx1, ry1, ps1)
			}
		}
		// deposits
		for _, amt := range []string{"1", "7", "1000", "999983", "123456789"} {
			ps0 := s.keeper.GetPoolCoinSupply(s.ctx, pool)
			rx0, ry0 := s.keeper.GetPoolBalances(s.ctx, pool)
			offer := utils.ParseCoins(amt + "uasset1," + amt + "uasset2")
			before := s.getBalances(user)
			s.Deposit(appID, pool.Id, user, offer.String())
			s.nextBlock()
			after := s.getBalances(user)
			ps1 := s.keeper.GetPoolCoinSupply(s.ctx, pool)
			rx1, ry1 := s.keeper.GetPoolBalances(s.ctx, pool)
			evals++
			tookX := rx1.Amount.Sub(rx0.Amount)
			tookY := ry1.Amount.Sub(ry0.Amount)
			if tookX.GT(offer.AmountOf(rx0.Denom)) || tookY.GT(offer.AmountOf(ry0.Denom)) || tookX.IsNegative() || tookY.IsNegative() {
				fail("fee %s, deposit %s: pool took (%s,%s), more than offered", feeStr, amt, tookX, tookY)
			}
			minted := after.AmountOf(pool.PoolCoinDenom).Sub(before.AmountOf(pool.PoolCoinDenom))
			if !minted.Equal(ps1.Sub(ps0)) {
				fail("fee %s, deposit %s: depositor got %s shares but supply grew by %s", feeStr, amt, minted, ps1.Sub(ps0))
			}
			perShareOK("deposit "+amt, rx0.Amount, ry0.Amount, ps0, rx1.Amount, ry1.Amount, ps1)
		}
		// withdrawals: shares worth about k units of the first reserve coin, then odd amounts, then everything the user has
		for _, k := range []int64{1, 3, 100, 333, 334, 1000, 50001} {
			ps0 := s.keeper.GetPoolCoinSupply(s.ctx, pool)
			rx0, ry0 := s.keeper.GetPoolBalances(s.ctx, pool)
			pc := ps0.MulRaw(k).Quo(rx0.Amount)
			have := s.getBalances(user).AmountOf(pool.PoolCoinDenom)
			if !pc.IsPositive() || pc.GT(have) {
				continue
			}
			before := s.getBalances(user)
			s.Withdraw(appID, pool.Id, user, sdk.NewCoin(pool.PoolCoinDenom, pc))
			s.nextBlock()
			after := s.getBalances(user)
			x := after.AmountOf(rx0.Denom).Sub(before.AmountOf(rx0.Denom))
			y := after.AmountOf(ry0.Denom).Sub(before.AmountOf(ry0.Denom))
			ps1 := s.keeper.GetPoolCoinSupply(s.ctx, pool)
			rx1, ry1 := s.keeper.GetPoolBalances(s.ctx, pool)
			evals++
			if x.Mul(ps0).Mul(scale).GT(rx0.Amount.Mul(pc).Mul(oneMinusFee)) || y.Mul(ps0).Mul(scale).GT(ry0.Amount.Mul(pc).Mul(oneMinusFee)) {
				fail("fee %s: withdrawing %s of %s shares returned (%s,%s), more than the pro-rata part of (%s,%s) reduced by the fee", feeStr, pc, ps0, x, y, rx0.Amount, ry0.Amount)
			}
			if !rx0.Amount.Sub(rx1.Amount).Equal(x) || !ry0.Amount.Sub(ry1.Amount).Equal(y) {
				fail("fee %s: withdrawal of %s shares: reserves moved by (%s,%s) but the withdrawer received (%s,%s)", feeStr, pc, rx0.Amount.Sub(rx1.Amount), ry0.Amount.Sub(ry1.Amount), x, y)
			}
			if x.IsPositive() || y.IsPositive() {
				if !ps0.Sub(ps1).Equal(pc) {
					fail("fee %s: withdrawal of %s shares burned %s", feeStr, pc, ps0.Sub(ps1))
				}
				if sample == "" && k == 1000 && fi == 1 {
					sample = fmt.Sprintf("fee %s: %s of %s shares -> (%s,%s) of (%s,%s)", feeStr, pc, ps0, x, y, rx0.Amount, ry0.Amount)
				}
			}
			perShareOK(fmt.Sprintf("withdraw %s shares", pc), rx0.Amount, ry0.Amount, ps0, rx1.Amount, ry1.Amount, ps1)
		}
		// last shares: the creator and the user redeem everything
		for _, who := range []sdk.AccAddress{user, creator} {
			have := s.getBalances(who).AmountOf(pool.PoolCoinDenom)
			if have.IsPositive() {
				s.Withdraw(appID, pool.Id, who, sdk.NewCoin(pool.PoolCoinDenom, have))
				s.nextBlock()
			}
		}
		evals++
		ps := s.keeper.GetPoolCoinSupply(s.ctx, pool)
		rx, ry := s.keeper.GetPoolBalances(s.ctx, pool)
		if ps.IsZero() && (!rx.Amount.IsZero() || !ry.Amount.IsZero()) {
			fail("fee %s: all shares redeemed but (%s,%s) stays in the reserve", feeStr, rx.Amount, ry.Amount)
		}
		if !ps.IsZero() {
			fail("fee %s: %s shares outstanding after everybody redeemed", feeStr, ps)
		}
	}
	if out := os.Getenv("VERIF_BOUNDED_OUT"); out != "" {
		os.WriteFile(out, []byte(`{"function":"liquidity Keeper.ExecuteDepositRequest / ExecuteWithdrawRequest (through Deposit/Withdraw messages and the end blocker)","label":"bounded","bound":"one pool, `+strconv.Itoa(len(fees))+` withdraw fee rates (0 .. 0.5), 5 deposit sizes, 7 withdrawal sizes and the final redemption of all shares","evaluations":`+strconv.Itoa(evals)+`,"violating":`+strconv.Itoa(bad)+`,"rule":"a case is one executed request or one comparison","sample":"`+sample+`","laws":["a deposit takes at most what was offered; shares minted == supply growth","a withdrawal returns at most the pro-rata part reduced by the fee; reserves move by exactly what the withdrawer receives","reserves per outstanding share never decrease (1e-17 relative tolerance)","redeeming all shares empties the reserve"]}`), 0o644)
	}
	s.Require().Zero(bad, "%d violating cases of %d; first: %s", bad, evals, firstBad)
}
