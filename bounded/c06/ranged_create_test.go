package amm_test

// BOUNDED stand-in (property C06, creation of a ranged pool = its first deposit): amm.CreateRangedPool goes through an
// approximate square root (Newton iteration) and is outside the reach of the contract verifier. This test runs the real
// function on a grid of offers chosen around the exact matching amounts (the boundary of its "accept all x / accept all y"
// decision) and checks that the accepted amounts never exceed the offer. Labelled bounded, never counted as proved.

import (
	"fmt"
	"os"
	"strconv"
	"testing"

	sdkmath "cosmossdk.io/math"

	utils "github.com/comdex-official/comdex/types"
	"github.com/comdex-official/comdex/x/liquidity/amm"
)

func TestVerifC06RangedCreateWithinOffer(t *testing.T) {
	triples := [][3]string{{"0.5", "2", "1.9"}, {"0.5", "2", "1.0"}, {"0.5", "2", "0.51"}, {"1000", "4000", "2000"}, {"0.9", "1.1", "1.0"}, {"0.000001", "1000000", "1"}, {"1", "3", "2.999"}, {"0.5", "2", "0.5"}, {"0.5", "2", "2"}}
	xs := []string{"1", "7", "1000", "999999", "1000000", "1000000000", "123456789012", "1000000000000000000"}
	huge, _ := sdkmath.NewIntFromString("1000000000000000000000000000000000000")
	evals, nontriv, bad := 0, 0, 0
	var firstBad, sample string
	check := func(x, y sdkmath.Int, tr [3]string) {
		minP, maxP, p := utils.ParseDec(tr[0]), utils.ParseDec(tr[1]), utils.ParseDec(tr[2])
		pool, err := amm.CreateRangedPool(x, y, minP, maxP, p)
		evals++
		if err != nil {
			return
		}
		ax, ay := pool.Balances()
		if ax.IsPositive() && ay.IsPositive() {
			nontriv++
			if sample == "" {
				sample = fmt.Sprintf("x=%s y=%s prices=%v -> ax=%s ay=%s", x, y, tr, ax, ay)
			}
		}
		if ax.GT(x) || ay.GT(y) || ax.IsNegative() || ay.IsNegative() {
			bad++
			if firstBad == "" {
				firstBad = fmt.Sprintf("x=%s y=%s (min,max,initial)=%v: accepted x=%s y=%s exceeds the offer", x, y, tr, ax, ay)
			}
		}
	}
	for _, tr := range triples {
		for _, xsStr := range xs {
			x, _ := sdkmath.NewIntFromString(xsStr)
			// the y that exactly matches x (learned from the function itself with an unbounded y offer)
			if pool, err := amm.CreateRangedPool(x, huge, utils.ParseDec(tr[0]), utils.ParseDec(tr[1]), utils.ParseDec(tr[2])); err == nil {
				_, ayStar := pool.Balances()
				for d := int64(-2); d <= 2; d++ {
					y := ayStar.AddRaw(d)
					if y.IsNegative() {
						continue
					}
					check(x, y, tr)
				}
			}
			// and symmetrically the x that exactly matches y = x
			y := x
			if pool, err := amm.CreateRangedPool(huge, y, utils.ParseDec(tr[0]), utils.ParseDec(tr[1]), utils.ParseDec(tr[2])); err == nil {
				axStar, _ := pool.Balances()
				for d := int64(-2); d <= 2; d++ {
					xx := axStar.AddRaw(d)
					if xx.IsNegative() {
						continue
					}
					check(xx, y, tr)
				}
			}
			check(x, x, tr)
		}
	}
	if out := os.Getenv("VERIF_BOUNDED_OUT"); out != "" {
		os.WriteFile(out, []byte(`{"function":"amm.CreateRangedPool","label":"bounded","bound":"`+strconv.Itoa(len(triples))+` (min,max,initial) price triples x `+strconv.Itoa(len(xs))+` magnitudes, offers at the exact matching amount and +-1, +-2 around it on both sides","evaluations":`+strconv.Itoa(evals)+`,"distinct_nontrivial":`+strconv.Itoa(nontriv)+`,"violating":`+strconv.Itoa(bad)+`,"rule":"a case is one (x, y, prices) offer; non-trivial when both accepted amounts are positive","sample":"`+sample+`","laws":["0 <= accepted x <= offered x","0 <= accepted y <= offered y"]}`), 0o644)
	}
	if bad > 0 {
		t.Fatalf("%d of %d offers violate the law; first: %s", bad, evals, firstBad)
	}
	t.Logf("bounded C06: %d evaluations, %d non-trivial", evals, nontriv)
}
