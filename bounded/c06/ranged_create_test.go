package amm_test

// BOUNDED stand-in (property C06, creation of a ranged pool = its first deposit): amm.CreateRangedPool goes through an
// approximate square root (Newton iteration) and is outside the reach of the contract verifier. This test runs the real
// function on a grid of offers chosen around the exact matching amounts (the boundary of its "accept all x / accept all y"
// decision) and checks that the accepted amounts never exceed the offer. Labelled bounded, never counted as proved.

import (
	"encoding/json"
	"fmt"
	"os"
	"strconv"
	"strings"
	"testing"

	sdkmath "cosmossdk.io/math"

	utils "github.com/comdex-official/comdex/types"
	"github.com/comdex-official/comdex/x/liquidity/amm"
)

func TestVerifC06RangedCreateWithinOffer(t *testing.T) {
	triples := [][3]string{{"0.5", "2", "1.9"}, {"0.5", "2", "1.0"}, {"0.5", "2", "0.51"}, {"1000", "4000", "2000"}, {"0.9", "1.1", "1.0"}, {"0.000001", "1000000", "1"}, {"1", "3", "2.999"}, {"0.5", "2", "0.5"}, {"0.5", "2", "2"}}
	xs := []string{"1", "7", "1000", "999999", "1000000", "1000000000", "123456789012", "1000000000000000000"}
	huge, _ := sdkmath.NewIntFromString("1000000000000000000000000000000000000")
	evals, nontriv, bad := 0, 0, 0
	var firstBad, sample string
	check := func(x, y sdkmath.Int, tr [3]string) {
		minP, maxP, p := utils.ParseDec(tr[0]), utils.ParseDec(tr[1]), utils.ParseDec(tr[2])
		pool, err := amm.CreateRangedPool(x, y, minP, maxP, p)
		evals++
		if err != nil {
			return
		}
		ax, ay := pool.Balances()
		if ax.IsPositive() && ay.IsPositive() {
			nontriv++
			if sample == "" {
				sample = fmt.Sprintf("x=%s y=%s prices=%v -> ax=%s ay=%s", x, y, tr, ax, ay)
			}
		}
		if ax.GT(x) || ay.GT(y) || ax.IsNegative() || ay.IsNegative() {
			bad++
			if firstBad == "" {
				firstBad = fmt.Sprintf("x=%s y=%s (min,max,initial)=%v: accepted x=%s y=%s exceeds the offer", x, y, tr, ax, ay)
			}
		}
	}
	for _, tr := range triples {
		for _, xsStr := range xs {
			x, _ := sdkmath.NewIntFromString(xsStr)
			// the y that exactly matches x (learned from the function itself with an unbounded y offer)
			if pool, err := amm.CreateRangedPool(x, huge, utils.ParseDec(tr[0]), utils.ParseDec(tr[1]), utils.ParseDec(tr[2])); err == nil {
				_, ayStar := pool.Balances()
				for d := int64(-2); d <= 2; d++ {
					y := ayStar.AddRaw(d)
					if y.IsNegative() {
						continue
					}
					check(x, y, tr)
				}
			}
			// and symmetrically the x that exactly matches y = x
			y := x
			if pool, err := amm.CreateRangedPool(huge, y, utils.ParseDec(tr[0]), utils.ParseDec(tr[1]), utils.ParseDec(tr[2])); err == nil {
				axStar, _ := pool.Balances()
				for d := int64(-2); d <= 2; d++ {
					xx := axStar.AddRaw(d)
					if xx.IsNegative() {
						continue
					}
					check(xx, y, tr)
				}
			}
			check(x, x, tr)
		}
	}
	if out := os.Getenv("VERIF_BOUNDED_OUT"); out != "" {
		os.WriteFile(out, []byte(`{"function":"amm.CreateRangedPool","label":"bounded","bound":"`+strconv.Itoa(len(triples))+` (min,max,initial) price triples x `+strconv.Itoa(len(xs))+` magnitudes, offers at the exact matching amount and +-1, +-2 around it on both sides","evaluations":`+strconv.Itoa(evals)+`,"distinct_nontrivial":`+strconv.Itoa(nontriv)+`,"violating":`+strconv.Itoa(bad)+`,"rule":"a case is one (x, y, prices) offer; non-trivial when both accepted amounts are positive","sample":"`+sample+`","laws":["0 <= accepted x <= offered x","0 <= accepted y <= offered y"]}`), 0o644)
	}
	if bad > 0 {
		t.Fatalf("%d of %d offers violate the law; first: %s", bad, evals, firstBad)
	}
	t.Logf("bounded C06: %d evaluations, %d non-trivial", evals, nontriv)
}

// BOUNDED stand-in (property C06, "a ranged pool's price always stays within its configured price range"): the price of a
// ranged pool is derived from its reserves through approximate square roots (amm.DeriveTranslation), outside the reach of the
// contract verifier. This test evaluates the real NewRangedPool(rx, ry, ., min, max).Price() on a grid of price ranges
// (including very low- and very high-priced pairs) and reserves (all magnitude pairs, plus reserve ratios swept across the
// range) and checks min <= price <= max exactly. On the pinned tree the price leaves the range by a relative error below
// 10^-10 (or 2 units of the 18th decimal) on a fixed set of grid points (rounding of the approximate square root) - these exact (input, price) cases are
// listed in known_excursions.txt and reported as a known finding; any other out-of-range case is a violation.
func TestVerifC06RangedPriceWithinRange(t *testing.T) {
	ranges := [][2]string{{"0.5", "2"}, {"1000", "4000"}, {"0.9", "1.1"}, {"0.0000000001", "0.0000000002"}, {"0.000001", "0.000003"}, {"1000000", "5000000"}, {"0.000000000000001", "0.00000000000001"}, {"0.99", "1.01"}, {"0.001", "1000"}}
	mags := []string{"0", "1", "2", "7", "1000", "12345", "1000000", "1800000000000", "1000000000000000000", "100000000000000000000000"}
	ratios := []string{"1", "2", "5", "10", "50", "100", "500", "1000", "1500", "5000", "100000", "100000000", "10000000000"}
	bases := []string{"1800000000000", "1000000000000000000"}
	known := map[string]bool{}
	if kf := os.Getenv("VERIF_C06_KNOWN"); kf != "" {
		if b, err := os.ReadFile(kf); err == nil {
			for _, l := range strings.Split(string(b), "\n") {
				if l = strings.TrimSpace(l); l != "" && !strings.HasPrefix(l, "#") {
					known[l] = true
				}
			}
		}
	}
	evals, bad, knownHits := 0, 0, 0
	var firstBad, knownExample string
	var allOut []string
	check := func(r [2]string, rx, ry sdkmath.Int) {
		if rx.IsZero() && ry.IsZero() {
			return
		}
		minP, maxP := utils.ParseDec(r[0]), utils.ParseDec(r[1])
		p := amm.NewRangedPool(rx, ry, sdkmath.Int{}, minP, maxP).Price()
		evals++
		if p.GTE(minP) && p.LTE(maxP) {
			return
		}
		key := fmt.Sprintf("range=[%s,%s] rx=%s ry=%s price=%s", r[0], r[1], rx, ry, p)
		allOut = append(allOut, key)
		if known[key] {
			knownHits++
			if knownExample == "" {
				knownExample = key
			}
			return
		}
		bad++
		if firstBad == "" {
			firstBad = key + " is outside of the configured range"
		}
	}
	for _, r := range ranges {
		for _, xs := range mags {
			for _, ys := range mags {
				rx, _ := sdkmath.NewIntFromString(xs)
				ry, _ := sdkmath.NewIntFromString(ys)
				check(r, rx, ry)
			}
		}
		for _, bs := range bases {
			b, _ := sdkmath.NewIntFromString(bs)
			for _, ks := range ratios {
				k, _ := sdkmath.NewIntFromString(ks)
				check(r, b, b.Mul(k))
				check(r, b.Mul(k), b)
				check(r, b, k)
				check(r, k, b)
			}
		}
	}
	if dump := os.Getenv("VERIF_C06_DUMP"); dump != "" {
		os.WriteFile(dump, []byte(strings.Join(allOut, "\n")+"\n"), 0o644)
	}
	if out := os.Getenv("VERIF_BOUNDED_OUT"); out != "" {
		sum := map[string]interface{}{}
		if b, err := os.ReadFile(out); err == nil {
			json.Unmarshal(b, &sum)
		}
		second := map[string]interface{}{
			"function": "amm.NewRangedPool(...).Price() (amm.DeriveTranslation)", "label": "bounded",
			"bound":       fmt.Sprintf("%d price ranges (1e-15 .. 5e6) x (%d x %d reserve magnitudes + %d bases x %d ratios x 4 placements)", len(ranges), len(mags), len(mags), len(bases), len(ratios)),
			"evaluations": evals, "violating": bad, "known_finding_instances": knownHits,
			"laws": []string{"min price <= price derived from the reserves <= max price (exactly)"},
		}
		sum["second_function_group"] = second
		if knownHits > 0 {
			sum["known_finding"] = map[string]interface{}{"obligation": "bounded/c06#ranged-price-within-range", "instances": knownHits, "example": knownExample}
		}
		b, _ := json.Marshal(sum)
		os.WriteFile(out, b, 0o644)
	}
	if bad > 0 {
		t.Fatalf("%d of %d reserve states put the pool price outside its range (beyond the %d listed known cases); first: %s", bad, evals, knownHits, firstBad)
	}
	t.Logf("bounded C06 ranged price: %d evaluations, %d known excursions", evals, knownHits)
}
