#!/bin/bash
# usage: run.sh <tier> <out.json> ; exit 0 = law holds on every offer within the bound
export GOFLAGS=-mod=mod GOPROXY=off GOSUMDB=off GOTOOLCHAIN=local
repo=${VERIF_REPO:-/repo}
d=$(mktemp -d)
printf '{"Replace":{"%s/x/liquidity/amm/zz_verif_c06_bounded_test.go":"/verif/bounded/c06/ranged_create_test.go"}}' $repo > $d/ov.json
cd $repo && VERIF_C06_KNOWN=/verif/bounded/c06/known_excursions.txt VERIF_TIER=$1 VERIF_BOUNDED_OUT=$2 go test -overlay $d/ov.json -vet=off -count=1 -timeout 600s -run 'TestVerifC06RangedCreateWithinOffer|TestVerifC06RangedPriceWithinRange' ./x/liquidity/amm/ > $d/log 2>&1
rc=$?
# third law group: executed requests on the real keeper (its own summary file is merged by bin/check as extra_groups)
printf '{"Replace":{"%s/x/liquidity/keeper/zz_verif_c06_bounded_test.go":"/verif/bounded/c06/keeper_requests_test.go"}}' $repo > $d/ov2.json
VERIF_TIER=$1 VERIF_BOUNDED_OUT=${2%.json}.keeper.json go test -overlay $d/ov2.json -vet=off -count=1 -timeout 900s -run 'TestKeeperTestSuite' ./x/liquidity/keeper/ -testify.m 'TestVerifC06KeeperRequests' > $d/log2 2>&1
rc2=$?
if [ -f ${2%.json}.keeper.json ] && [ -f $2 ]; then python3 -c "
import json,sys
a=json.load(open('$2')); a['third_function_group']=json.load(open('${2%.json}.keeper.json')); json.dump(a,open('$2','w'))"; fi
rm -f ${2%.json}.keeper.json
( tail -25 $d/log; grep -v '^I\[' $d/log2 | tail -25 ) > ${2%.json}.log
[ $rc -eq 0 ] && rc=$rc2
rm -rf $d
exit $rc
