#!/bin/bash
# usage: run.sh <tier> <out.json> ; exit 0 = law holds on every offer within the bound
export GOFLAGS=-mod=mod GOPROXY=off GOSUMDB=off GOTOOLCHAIN=local
repo=${VERIF_REPO:-/repo}
d=$(mktemp -d)
printf '{"Replace":{"%s/x/liquidity/amm/zz_verif_c06_bounded_test.go":"/verif/bounded/c06/ranged_create_test.go"}}' $repo > $d/ov.json
cd $repo && VERIF_C06_KNOWN=/verif/bounded/c06/known_excursions.txt VERIF_TIER=$1 VERIF_BOUNDED_OUT=$2 go test -overlay $d/ov.json -vet=off -count=1 -timeout 600s -run 'TestVerifC06RangedCreateWithinOffer|TestVerifC06RangedPriceWithinRange' ./x/liquidity/amm/ > $d/log 2>&1
rc=$?
tail -25 $d/log > ${2%.json}.log
rm -rf $d
exit $rc
