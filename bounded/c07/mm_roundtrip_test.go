package keeper_test

// BOUNDED stand-in (property C07, placement of market-making orders: Keeper.MMOrder splits an order over price ticks in two
// loops and escrows the sum - loops the contracts do not cover). This test places market-making orders on the real keeper for
// a grid of amounts (including amounts whose per-tick share is below the minimum order size) and lifespans, and checks: the
// coins taken from the orderer equal the offer coins of the orders stored for it and sit in the pair escrow; after every order
// terminated without a fill (expired by the batch or cancelled by the owner) the orderer has everything back and the pair
// escrow is empty. Labelled bounded, never counted as proved.

import (
	"fmt"
	"os"
	"strconv"
	"time"

	sdkmath "cosmossdk.io/math"
	sdk "github.com/cosmos/cosmos-sdk/types"

	utils "github.com/comdex-official/comdex/types"
	"github.com/comdex-official/comdex/x/liquidity/types"
)

func (s *KeeperTestSuite) TestVerifC07MMOrderRoundTrip() {
	evals, bad := 0, 0
	var firstBad, sample string
	fail := func(format string, a ...interface{}) {
		bad++
		if firstBad == "" {
			firstBad = fmt.Sprintf(format, a...)
		}
	}
	eq := func(a, b sdk.Coins) bool { return a.IsEqual(b) || (a.IsZero() && b.IsZero()) }
	amounts := []int64{100, 999, 1000, 1001, 5555, 100000, 1000000007}
	for _, sell := range amounts {
		for _, buy := range []int64{sell, 999, 123456} {
			s.SetupTest()
			appID := s.CreateNewApp("appone")
			asset1 := s.CreateNewAsset("ASSETONE", "denom1", 1000000)
			asset2 := s.CreateNewAsset("ASSETTWO", "denom2", 2000000)
			pair := s.CreateNewLiquidityPair(appID, s.addr(0), asset1.Denom, asset2.Denom)
			pair.LastPrice = utils.ParseDecP("1.0")
			s.keeper.SetPair(s.ctx, pair)
			orderer := s.addr(1)
			s.fundAddr(orderer, utils.ParseCoins("100000000000denom1,100000000000denom2"))
			before := s.getBalances(orderer)
			msg := types.NewMsgMMOrder(appID, orderer, pair.Id,
				utils.ParseDec("1.1"), utils.ParseDec("1.03"), sdkmath.NewInt(sell),
				utils.ParseDec("0.97"), utils.ParseDec("0.9"), sdkmath.NewInt(buy), 10*time.Second)
			if msg.ValidateBasic() != nil {
				continue
			}
			tag := fmt.Sprintf("sell %d, buy %d", sell, buy)
			if _, err := s.keeper.MMOrder(s.ctx, msg); err != nil {
				evals++
				if !eq(before, s.getBalances(orderer)) {
					fail("%s: MMOrder failed (%v) but the orderer's balance changed", tag, err)
				}
				continue
			}
			taken := before.Sub(s.getBalances(orderer)...)
			offered := sdk.Coins{}
			for _, order := range s.keeper.GetOrdersByOrderer(s.ctx, appID, orderer) {
				offered = offered.Add(order.OfferCoin)
			}
			evals++
			if !eq(offered, taken) || !eq(offered, s.getBalances(pair.GetEscrowAddress())) {
				fail("%s: taken from the orderer %s, offer coins of the stored orders %s, pair escrow %s", tag, taken, offered, s.getBalances(pair.GetEscrowAddress()))
			}
			if sample == "" && sell == 5555 {
				sample = fmt.Sprintf("%s: taken %s = offered %s", tag, taken, offered)
			}
			s.nextBlock()
			if _, err := s.keeper.CancelMMOrder(s.ctx, types.NewMsgCancelMMOrder(appID, orderer, pair.Id)); err != nil {
				fail("%s: cancelling the market-making orders failed: %v", tag, err)
			}
			s.nextBlock()
			evals++
			if n := len(s.keeper.GetOrdersByOrderer(s.ctx, appID, orderer)); n != 0 {
				fail("%s: %d orders of the orderer remain after cancel", tag, n)
			}
			if !eq(before, s.getBalances(orderer)) {
				fail("%s: no fill happened, but the orderer has %s instead of %s", tag, s.getBalances(orderer), before)
			}
			if !s.getBalances(pair.GetEscrowAddress()).IsZero() {
				fail("%s: %s remains in the pair escrow after every order terminated", tag, s.getBalances(pair.GetEscrowAddress()))
			}
		}
	}
	if out := os.Getenv("VERIF_BOUNDED_OUT"); out != "" {
		os.WriteFile(out, []byte(`{"function":"liquidity Keeper.MMOrder / CancelMMOrder / order expiry (zero-fill round trip)","label":"bounded","bound":"`+strconv.Itoa(len(amounts))+` sell amounts x 3 buy amounts (100 .. 1e9, including amounts whose per-tick share is below the minimum order size), default tick count, one pair without pool","evaluations":`+strconv.Itoa(evals)+`,"violating":`+strconv.Itoa(bad)+`,"rule":"a case is one comparison after placement or after termination","sample":"`+sample+`","laws":["coins taken from the orderer == offer coins of the stored orders == pair escrow","after all orders terminated without a fill: orderer made whole, pair escrow empty, no order left"]}`), 0o644)
	}
	s.Require().Zero(bad, "%d violating checks of %d; first: %s", bad, evals, firstBad)
}
