#!/bin/bash
# usage: run.sh <tier> <out.json> ; exit 0 = laws hold on every case within the bound
export GOFLAGS=-mod=mod GOPROXY=off GOSUMDB=off GOTOOLCHAIN=local
repo=${VERIF_REPO:-/repo}
d=$(mktemp -d)
printf '{"Replace":{"%s/x/liquidity/keeper/zz_verif_c07_bounded_test.go":"/verif/bounded/c07/mm_roundtrip_test.go"}}' $repo > $d/ov.json
cd $repo && VERIF_TIER=$1 VERIF_BOUNDED_OUT=$2 go test -overlay $d/ov.json -vet=off -count=1 -timeout 900s -run 'TestKeeperTestSuite' ./x/liquidity/keeper/ -testify.m 'TestVerifC07MMOrderRoundTrip' > $d/log 2>&1
rc=$?
grep -v "^I\[" $d/log | tail -25 > ${2%.json}.log
rm -rf $d
exit $rc
