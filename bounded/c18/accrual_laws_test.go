package keeper_test

// BOUNDED stand-in (property C18, accrual kernel): rewards Keeper.CalculationOfRewards computes ((1+r)^t - 1) * principal in
// float64 (math.Pow) and through decimal string formatting, which is outside the reach of the contract verifier (the
// contracts abstract it as a deterministic function). This test runs the real function on a grid of principals, rates and
// elapsed times - dense around small elapsed times and around the grid neighbours - and checks the laws of the property:
// non-negative, zero over zero time, non-decreasing in elapsed time, principal and rate, and "two consecutive accruals never
// yield more than one accrual over the combined interval" up to float64 rounding. Labelled bounded, never counted as proved.

import (
	"fmt"
	"os"
	"strconv"
	"testing"
	"time"

	sdkmath "cosmossdk.io/math"
	tmproto "github.com/cometbft/cometbft/proto/tendermint/types"
	sdk "github.com/cosmos/cosmos-sdk/types"

	"github.com/comdex-official/comdex/x/rewards/keeper"
)

func TestVerifC18AccrualLaws(t *testing.T) {
	var k keeper.Keeper
	base := int64(1_700_000_000)
	accrue := func(p int64, r sdk.Dec, secs int64) sdk.Dec {
		ctx := sdk.NewContext(nil, tmproto.Header{Time: time.Unix(base+secs, 0)}, false, nil)
		v, err := k.CalculationOfRewards(ctx, sdkmath.NewInt(p), r, base)
		if err != nil {
			t.Fatalf("unexpected error p=%d r=%s t=%d: %v", p, r, secs, err)
		}
		return v
	}
	principals := []int64{1, 999, 1_000_000, 123_456_789, 1_000_000_000_000, 1_000_000_000_000_000, 9_000_000_000_000_000_000}
	rates := []string{"0", "0.0001", "0.01", "0.05", "0.25", "0.5", "0.99", "1", "3", "10"}
	times := []int64{0, 1, 2, 5, 6, 7, 10, 29, 30, 31, 59, 60, 61, 119, 120, 121, 599, 600, 3599, 3600, 3601, 86399, 86400, 86401, 604800, 2592000, 31535999, 31536000, 31536001, 63072000, 315360000, 946080000}
	if os.Getenv("VERIF_TIER") == "thorough" {
		for s := int64(3); s < 400; s += 7 {
			times = append(times, s)
		}
		for s := int64(1000); s < 40_000_000; s = s*3/2 + 1 {
			times = append(times, s)
		}
	}
	// tolerance: float64 keeps ~15.9 significant digits of (1+r)^t, whose magnitude is >= 1: the product with the principal is
	// off by at most a few ulp of max(1, (1+r)^t) * principal; plus one unit of the 18th decimal from formatting
	tol := func(p int64, r sdk.Dec, secs int64) sdk.Dec {
		g := accrue(p, r, secs).Add(sdk.NewDec(p))
		return g.QuoInt64(100_000_000_000_000).Add(sdk.NewDecWithPrec(1, 17)) // 1e-14 relative to principal*(1+r)^t
	}
	evals, bad := 0, 0
	var firstBad, sample string
	fail := func(law string, format string, a ...interface{}) {
		bad++
		if firstBad == "" {
			firstBad = law + ": " + fmt.Sprintf(format, a...)
		}
	}
	for _, p := range principals {
		for _, rs := range rates {
			r := sdk.MustNewDecFromStr(rs)
			for _, s := range times {
				v := accrue(p, r, s)
				evals++
				if v.IsNegative() {
					fail("non-negative", "p=%d r=%s t=%d gives %s", p, rs, s, v)
				}
				if s == 0 && !v.IsZero() {
					fail("zero over zero time", "p=%d r=%s gives %s", p, rs, v)
				}
				if r.IsZero() && !v.IsZero() {
					fail("zero at zero rate", "p=%d t=%d gives %s", p, s, v)
				}
				if sample == "" && p == 1_000_000_000_000 && rs == "0.05" && s == 86400 {
					sample = fmt.Sprintf("p=%d r=%s t=%ds -> %s", p, rs, s, v)
				}
			}
			// monotone in elapsed time (every ordered pair of the grid) and sub-additivity over consecutive intervals
			for i, s1 := range times {
				v1 := accrue(p, r, s1)
				for _, s2 := range times[i+1:] {
					if s2 < s1 {
						continue
					}
					v2 := accrue(p, r, s2)
					evals++
					if v1.GT(v2.Add(tol(p, r, s2))) {
						fail("non-decreasing in elapsed time", "p=%d r=%s: accrual(%ds)=%s > accrual(%ds)=%s", p, rs, s1, v1, s2, v2)
					}
				}
				for _, s2 := range times {
					if s1 == 0 || s2 == 0 || s1+s2 > 1_000_000_000 {
						continue
					}
					sum := v1.Add(accrue(p, r, s2))
					whole := accrue(p, r, s1+s2)
					evals++
					if sum.GT(whole.Add(tol(p, r, s1+s2).MulInt64(3))) {
						fail("two consecutive accruals never exceed one combined accrual", "p=%d r=%s: accrual(%ds)+accrual(%ds)=%s > accrual(%ds)=%s", p, rs, s1, s2, sum, s1+s2, whole)
					}
				}
			}
		}
	}
	// monotone in principal and in rate
	for _, s := range times {
		for _, rs := range rates {
			r := sdk.MustNewDecFromStr(rs)
			for i := 0; i+1 < len(principals); i++ {
				a, b := accrue(principals[i], r, s), accrue(principals[i+1], r, s)
				evals++
				if a.GT(b.Add(tol(principals[i+1], r, s))) {
					fail("non-decreasing in principal", "r=%s t=%d: accrual(p=%d)=%s > accrual(p=%d)=%s", rs, s, principals[i], a, principals[i+1], b)
				}
			}
		}
		for _, p := range principals {
			for i := 0; i+1 < len(rates); i++ {
				r1, r2 := sdk.MustNewDecFromStr(rates[i]), sdk.MustNewDecFromStr(rates[i+1])
				a, b := accrue(p, r1, s), accrue(p, r2, s)
				evals++
				if a.GT(b.Add(tol(p, r2, s))) {
					fail("non-decreasing in rate", "p=%d t=%d: accrual(r=%s)=%s > accrual(r=%s)=%s", p, s, rates[i], a, rates[i+1], b)
				}
			}
		}
	}
	if out := os.Getenv("VERIF_BOUNDED_OUT"); out != "" {
		os.WriteFile(out, []byte(`{"function":"rewards Keeper.CalculationOfRewards","label":"bounded","bound":"`+strconv.Itoa(len(principals))+` principals (1 .. 9e18) x `+strconv.Itoa(len(rates))+` rates (0 .. 10) x `+strconv.Itoa(len(times))+` elapsed times (0 s .. 30 years, dense below two minutes); all ordered pairs of times for monotonicity, all pairs of non-zero times for the two-interval law","evaluations":`+strconv.Itoa(evals)+`,"violating":`+strconv.Itoa(bad)+`,"rule":"a case is one law instance on concrete (principal, rate, time[, time]); tolerance 1e-14 relative to principal*(1+r)^t (float64 rounding) plus 1e-17","sample":"`+sample+`","laws":["accrual >= 0","accrual = 0 over zero time and at zero rate","non-decreasing in elapsed time","non-decreasing in principal","non-decreasing in rate","accrual(t1)+accrual(t2) <= accrual(t1+t2)"]}`), 0o644)
	}
	if bad > 0 {
		t.Fatalf("%d of %d law instances violated; first: %s", bad, evals, firstBad)
	}
	t.Logf("bounded C18: %d law instances", evals)
}
