package keeper_test

// BOUNDED stand-in (property C19, farmer pro-rata split): liquidity Keeper.GetFarmingRewardsData values every farmer's
// position at the oracle price, aggregates child-pool positions in a Go map and converts the share to an integer through
// float64 (math.Floor(MustFloat64())) - outside the reach of the contract verifier. This test builds, on the real keeper,
// a master pool with two child pools and five farmers with a spread of farmed amounts (including farmers missing from a
// child pool or from the master pool), and checks for a grid of epoch allocations, for the plain and for the master/child
// mechanism: the payouts sum to at most the allocation, no farmer is paid more than its pro-rata share of the allocation
// by (eligible) farmed value by more than one part in 10^12, and a farmer without eligible value is paid nothing. The
// eligible value is recomputed here from the farmer records (2 x oracle value of the priced side; master/child: the smaller
// of the master value and the sum over the child pools). Labelled bounded, never counted as proved.

import (
	"fmt"
	"os"
	"strconv"
	"time"

	sdkmath "cosmossdk.io/math"
	sdk "github.com/cosmos/cosmos-sdk/types"

	utils "github.com/comdex-official/comdex/types"
	"github.com/comdex-official/comdex/x/liquidity/types"
	rewardstypes "github.com/comdex-official/comdex/x/rewards/types"
)

func (s *KeeperTestSuite) verifC19Value(appID, poolID uint64, farmer sdk.AccAddress) sdkmath.LegacyDec {
	af, found := s.keeper.GetActiveFarmer(s.ctx, appID, poolID, farmer)
	if !found {
		return sdkmath.LegacyZeroDec()
	}
	kit, err := s.keeper.GetPoolTokenDesrializerKit(s.ctx, appID, poolID)
	s.Require().NoError(err)
	x, y, err := s.keeper.CalculateXYFromPoolCoin(s.ctx, kit, af.FarmedPoolCoin)
	if err != nil {
		return sdkmath.LegacyZeroDec() // a position too small to redeem anything is worth nothing
	}
	asset, err := s.keeper.GetAssetWhoseOraclePriceExists(s.ctx, kit.Pair.QuoteCoinDenom, kit.Pair.BaseCoinDenom)
	s.Require().NoError(err)
	amt := y
	if kit.Pair.QuoteCoinDenom == asset.Denom {
		amt = x
	}
	v, err := s.keeper.CalcAssetPrice(s.ctx, asset.Id, amt)
	s.Require().NoError(err)
	return v.MulInt64(2)
}

func (s *KeeperTestSuite) TestVerifC19FarmProRata() {
	s.ctx = s.ctx.WithBlockTime(utils.ParseTime("2024-01-01T00:00:00Z")).WithBlockHeight(10)
	creator := s.addr(0)
	appID := s.CreateNewApp("appone")
	asset1 := s.CreateNewAsset("ASSETONE", "uasset1", 1000000)
	asset2 := s.CreateNewAsset("ASSETTWO", "uasset2", 1000000)
	asset3 := s.CreateNewAsset("ASSETTHREE", "uasset3", 1000000)
	pairM := s.CreateNewLiquidityPair(appID, creator, asset1.Denom, asset2.Denom)
	master := s.CreateNewLiquidityPool(appID, pairM.Id, creator, "1000000000000uasset1,1000000000000uasset2")
	pairC1 := s.CreateNewLiquidityPair(appID, creator, asset1.Denom, asset3.Denom)
	child1 := s.CreateNewLiquidityPool(appID, pairC1.Id, creator, "1000000000000uasset1,1000000000000uasset3")
	pairC2 := s.CreateNewLiquidityPair(appID, creator, asset2.Denom, asset3.Denom)
	child2 := s.CreateNewLiquidityPool(appID, pairC2.Id, creator, "1000000000000uasset2,1000000000000uasset3")

	depositAndFarm := func(farmer sdk.AccAddress, pool types.Pool, amt int64, d1, d2 string) {
		if amt == 0 {
			return
		}
		s.Deposit(appID, pool.Id, farmer, fmt.Sprintf("%d%s,%d%s", amt, d1, amt, d2))
		s.nextBlock()
		pc := s.getBalance(farmer, pool.PoolCoinDenom)
		s.Require().True(pc.IsPositive())
		s.Require().NoError(s.keeper.Farm(s.ctx, types.NewMsgFarm(appID, pool.Id, farmer, pc)))
	}
	// farmed amounts per farmer: master, child 1, child 2 (0 = does not farm there)
	plan := [][3]int64{
		{2000000000, 1000000000, 1000000000}, // children sum to the master position
		{2000000000, 4000000000, 0},          // capped by the master position
		{7, 1000000000, 13},                  // dust in the master pool
		{123456789, 0, 0},                    // master only: not eligible under the master/child mechanism
		{0, 999999999, 5000000000},           // children only: not a farmer of the gauge's pool
		{987654321987, 31, 1000003},          // large master, small children
	}
	var farmers []sdk.AccAddress
	// a farmer whose farmed position is too small to redeem anything (worth nothing): it must be paid nothing and must not
	// shift the pairing of the farmers that follow it in address order; it gets the lowest address so that it sorts first
	dust := s.addr(5)
	s.Deposit(appID, master.Id, dust, "1000000uasset1,1000000uasset2")
	s.nextBlock()
	s.Require().NoError(s.keeper.Farm(s.ctx, types.NewMsgFarm(appID, master.Id, dust, sdk.NewCoin(master.PoolCoinDenom, sdkmath.NewInt(5)))))
	for i, p := range plan {
		f := s.addr(i + 10)
		farmers = append(farmers, f)
		depositAndFarm(f, master, p[0], "uasset1", "uasset2")
		depositAndFarm(f, child1, p[1], "uasset1", "uasset3")
		depositAndFarm(f, child2, p[2], "uasset2", "uasset3")
	}
	farmers = append(farmers, dust)
	s.ctx = s.ctx.WithBlockTime(s.ctx.BlockTime().Add(types.DefaultFarmingQueueDuration).Add(10 * time.Minute))
	s.nextBlock()
	s.Require().True(s.verifC19Value(appID, master.Id, dust).IsZero(), "the dust position must be worth nothing")

	allocations := []string{"1", "2", "7", "999", "1000000", "123456789", "1000000000000", "98765432109876"}
	if os.Getenv("VERIF_TIER") == "thorough" {
		for i := int64(3); i < 3000000000000; i = i*7 + 5 {
			allocations = append(allocations, strconv.FormatInt(i, 10))
		}
	}
	tolerance := sdkmath.LegacyOneDec().Add(sdkmath.LegacyNewDecWithPrec(1, 12))
	evals, bad, paidCases := 0, 0, 0
	var firstBad, sample string
	fail := func(format string, a ...interface{}) {
		bad++
		if firstBad == "" {
			firstBad = fmt.Sprintf(format, a...)
		}
	}
	type mech struct {
		name     string
		meta     rewardstypes.LiquidtyGaugeMetaData
		eligible func(f sdk.AccAddress) sdkmath.LegacyDec
	}
	plain := func(f sdk.AccAddress) sdkmath.LegacyDec { return s.verifC19Value(appID, master.Id, f) }
	mechs := []mech{
		{"plain", rewardstypes.LiquidtyGaugeMetaData{PoolId: master.Id}, plain},
		{"master with two child pools", rewardstypes.LiquidtyGaugeMetaData{PoolId: master.Id, IsMasterPool: true, ChildPoolIds: []uint64{child1.Id, child2.Id}}, func(f sdk.AccAddress) sdkmath.LegacyDec {
			m := plain(f)
			c := s.verifC19Value(appID, child1.Id, f).Add(s.verifC19Value(appID, child2.Id, f))
			return sdkmath.LegacyMinDec(m, c)
		}},
		{"master with one child pool", rewardstypes.LiquidtyGaugeMetaData{PoolId: master.Id, IsMasterPool: true, ChildPoolIds: []uint64{child2.Id}}, func(f sdk.AccAddress) sdkmath.LegacyDec {
			return sdkmath.LegacyMinDec(plain(f), s.verifC19Value(appID, child2.Id, f))
		}},
		{"master with all other pools as children", rewardstypes.LiquidtyGaugeMetaData{PoolId: master.Id, IsMasterPool: true}, func(f sdk.AccAddress) sdkmath.LegacyDec {
			m := plain(f)
			c := s.verifC19Value(appID, child1.Id, f).Add(s.verifC19Value(appID, child2.Id, f))
			return sdkmath.LegacyMinDec(m, c)
		}},
	}
	for _, mc := range mechs {
		total := sdkmath.LegacyZeroDec()
		elig := map[string]sdkmath.LegacyDec{}
		for _, f := range farmers {
			e := mc.eligible(f)
			elig[f.String()] = e
			total = total.Add(e)
		}
		s.Require().True(total.IsPositive(), mc.name)
		for _, as := range allocations {
			alloc, _ := sdkmath.NewIntFromString(as)
			data, err := s.keeper.GetFarmingRewardsData(s.ctx, appID, sdk.NewCoin("ucmdx", alloc), mc.meta)
			s.Require().NoError(err)
			evals++
			sum := sdkmath.ZeroInt()
			seen := map[string]bool{}
			for _, d := range data {
				key := d.RewardReceiver.String()
				if seen[key] {
					fail("%s, allocation %s: farmer %s is paid twice", mc.name, as, key)
				}
				seen[key] = true
				if d.RewardCoin.Denom != "ucmdx" || d.RewardCoin.Amount.IsNegative() {
					fail("%s, allocation %s: payout %s", mc.name, as, d.RewardCoin)
				}
				sum = sum.Add(d.RewardCoin.Amount)
				e, known := elig[key]
				if !known {
					fail("%s, allocation %s: payout to %s who does not farm the gauge's pool", mc.name, as, key)
					continue
				}
				max := sdkmath.LegacyNewDecFromInt(alloc).Mul(e).Quo(total).Mul(tolerance).Ceil().TruncateInt()
				if d.RewardCoin.Amount.GT(max) {
					fail("%s, allocation %s: farmer %s is paid %s, more than its pro-rata share %s (eligible value %s of %s)", mc.name, as, key, d.RewardCoin.Amount, max, e, total)
				}
				if d.RewardCoin.Amount.IsPositive() {
					paidCases++
					if sample == "" && as == "1000000" {
						sample = fmt.Sprintf("%s, allocation %s: %s gets %s (eligible %s of %s)", mc.name, as, key, d.RewardCoin.Amount, e, total)
					}
				}
			}
			if sum.GT(alloc) {
				fail("%s, allocation %s: payouts sum to %s", mc.name, as, sum)
			}
		}
	}
	if out := os.Getenv("VERIF_BOUNDED_OUT"); out != "" {
		os.WriteFile(out, []byte(`{"function":"liquidity Keeper.GetFarmingRewardsData (with GetAggregatedChildPoolContributions)","label":"bounded","bound":"one app, master pool + 2 child pools, `+strconv.Itoa(len(plan))+` farmers with a fixed spread of farmed amounts (7 .. 9.9e11, some pools not farmed) plus one farmer whose 5 farmed pool-coin units are worth nothing, `+strconv.Itoa(len(mechs))+` gauge mechanisms x `+strconv.Itoa(len(allocations))+` epoch allocations (1 .. 9.9e13); one oracle price","evaluations":`+strconv.Itoa(evals)+`,"distinct_nontrivial":`+strconv.Itoa(paidCases)+`,"violating":`+strconv.Itoa(bad)+`,"rule":"a case is one call of GetFarmingRewardsData; non-trivial counts positive payouts","sample":"`+sample+`","laws":["payouts sum to at most the epoch allocation","payout_i <= ceil(allocation * eligible_i / sum eligible * (1 + 1e-12))","only farmers of the gauge's pool are paid, each at most once"]}`), 0o644)
	}
	s.Require().Zero(bad, "%d violating cases of %d; first: %s", bad, evals, firstBad)
}
