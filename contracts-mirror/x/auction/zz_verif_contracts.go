//go:build verif

package auction

// Machine-checked contracts for the govc verifier (/verif). Comment-only; compiled only with -tags verif.

// Begin-block hook of the first-generation auctions (C14): the per-row steps are verified inlined, so that the obligations
// of the activators' call-site preconditions (breaker flag and emergency status are the stored ones of the row's own app)
// are generated here for every row of the auction mapping table.
//@ func BeginBlocker
//@   property C14
//@   explore steps
//@   loop 0 invariant #any: true
//@   loop 1 invariant #any: true

// Genesis import of the first-generation auctions (C20): whatever state an export produced, importing it never panics -
// in particular no exported amount is forced through a machine-integer conversion on the way back into the store.
//@ func InitGenesis
//@   property C20
//@   nopanic
