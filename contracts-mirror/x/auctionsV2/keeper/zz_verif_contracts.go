//go:build verif

package keeper

// Machine-checked contracts for the govc verifier (/verif). Comment-only; compiled only with -tags verif.

// Limit-bid deposits (C11): a depositor can take out at most their own outstanding deposit, in the deposited asset, minus the
// stated fee; the recorded total moves with the individual deposit; custody moves by exactly what is paid in or out.

//@ func (k Keeper) DepositLimitAuctionBid
//@   property C11
//@   let u0 = k.GetUserLimitBidData(ctx, DebtTokenId, CollateralTokenId, PremiumDiscount, bidder)
//@   let p0 = k.GetLimitBidProtocolDataByAssetID(ctx, DebtTokenId, CollateralTokenId)
//@   let am = modaddr("auctionsV2")
//@   requires #valid-msg: validaddr(bidder) && amount.Amount > 0 && PremiumDiscount >= 0 && PremiumDiscount < pow2(64)
//@   requires #accounts: addr(bidder) != am
//@   requires #keyed: u0.1 ==> u0.0.BidderAddress == bidder && u0.0.DebtToken.Denom == K("asset").GetAsset(ctx, DebtTokenId).0.Denom
//@   requires #total-keyed: p0.1 ==> p0.0.DebtAssetId == DebtTokenId && p0.0.CollateralAssetId == CollateralTokenId
//@   letpost u1 = k.GetUserLimitBidData(ctx, DebtTokenId, CollateralTokenId, PremiumDiscount, bidder)
//@   letpost p1 = k.GetLimitBidProtocolDataByAssetID(ctx, DebtTokenId, CollateralTokenId)
//@   ensures #c11-deposit-recorded: result == nil ==> u1.1 && u1.0.DebtToken.Denom == amount.Denom && u1.0.DebtToken.Amount == ite(u0.1, u0.0.DebtToken.Amount, 0) + amount.Amount
//@   ensures #c11-total-moves-with-deposit: result == nil ==> p1.1 && p1.0.BidValue == ite(p0.1, p0.0.BidValue, 0) + amount.Amount
//@   ensures #c11-custody: result == nil ==> bal(am, amount.Denom) == old(bal(am, amount.Denom)) + amount.Amount && bal(addr(bidder), amount.Denom) == old(bal(addr(bidder), amount.Denom)) - amount.Amount

//@ func (k Keeper) CancelLimitAuctionBid
//@   property C11
//@   let u0 = k.GetUserLimitBidData(ctx, DebtTokenId, CollateralTokenId, PremiumDiscount, bidder)
//@   let p0 = k.GetLimitBidProtocolDataByAssetID(ctx, DebtTokenId, CollateralTokenId)
//@   let fee = k.GetAuctionParams(ctx).0.ClosingFee
//@   let am = modaddr("auctionsV2")
//@   let d = u0.0.DebtToken.Denom
//@   requires #valid-msg: validaddr(bidder) && PremiumDiscount >= 0 && PremiumDiscount < pow2(64)
//@   requires #accounts: addr(bidder) != am
//@   requires #fee-range: fee >= 0 && fee <= ONE
//@   requires #deposit-nonneg: u0.1 ==> u0.0.DebtToken.Amount >= 0
//@   requires #keyed: u0.1 ==> u0.0.BidderAddress == bidder
//@   requires #total-keyed: u0.1 ==> p0.1 && p0.0.DebtAssetId == DebtTokenId && p0.0.CollateralAssetId == CollateralTokenId
//@   letpost u1 = k.GetUserLimitBidData(ctx, DebtTokenId, CollateralTokenId, PremiumDiscount, bidder)
//@   letpost p1 = k.GetLimitBidProtocolDataByAssetID(ctx, DebtTokenId, CollateralTokenId)
//@   ensures #c11-own-deposit-only: result == nil ==> u0.1
//@   ensures #c11-paid-deposit-minus-fee: result == nil ==> bal(addr(bidder), d) == old(bal(addr(bidder), d)) + u0.0.DebtToken.Amount - trunc(decMul(fee, dec(u0.0.DebtToken.Amount)))
//@   ensures #c11-custody: result == nil ==> bal(am, d) == old(bal(am, d)) - (u0.0.DebtToken.Amount - trunc(decMul(fee, dec(u0.0.DebtToken.Amount))))
//@   ensures #c11-other-denoms-untouched: result == nil ==> forall dd :: dd != d ==> bal(am, dd) == old(bal(am, dd))
//@   ensures #c11-record-removed: result == nil ==> !u1.1
//@   ensures #c11-total-moves-with-deposit: result == nil ==> p1.0.BidValue == p0.0.BidValue - u0.0.DebtToken.Amount

//@ func (k Keeper) WithdrawLimitAuctionBid
//@   property C11
//@   let u0 = k.GetUserLimitBidData(ctx, DebtTokenId, CollateralTokenId, PremiumDiscount, bidder)
//@   let p0 = k.GetLimitBidProtocolDataByAssetID(ctx, DebtTokenId, CollateralTokenId)
//@   let wfee = k.GetAuctionParams(ctx).0.WithdrawalFee
//@   let cfee = k.GetAuctionParams(ctx).0.ClosingFee
//@   let am = modaddr("auctionsV2")
//@   let d = u0.0.DebtToken.Denom
//@   requires #valid-msg: validaddr(bidder) && amount.Amount > 0 && PremiumDiscount >= 0 && PremiumDiscount < pow2(64)
//@   requires #accounts: addr(bidder) != am
//@   requires #fee-range: wfee >= 0 && wfee <= ONE && cfee >= 0 && cfee <= ONE
//@   requires #deposit-nonneg: u0.1 ==> u0.0.DebtToken.Amount >= 0
//@   requires #keyed: u0.1 ==> u0.0.BidderAddress == bidder
//@   requires #total-keyed: u0.1 ==> p0.1 && p0.0.DebtAssetId == DebtTokenId && p0.0.CollateralAssetId == CollateralTokenId
//@   letpost u1 = k.GetUserLimitBidData(ctx, DebtTokenId, CollateralTokenId, PremiumDiscount, bidder)
//@   letpost p1 = k.GetLimitBidProtocolDataByAssetID(ctx, DebtTokenId, CollateralTokenId)
//@   ensures #c11-own-deposit-only: result == nil ==> u0.1 && amount.Amount <= u0.0.DebtToken.Amount
//@   ensures #c11-deposited-asset-only: result == nil ==> forall dd :: dd != d ==> bal(am, dd) == old(bal(am, dd))
//@   ensures #c11-custody-out-at-most-amount: result == nil ==> bal(am, d) >= old(bal(am, d)) - amount.Amount && bal(am, d) <= old(bal(am, d))
//@   ensures #c11-paid-to-depositor: result == nil ==> bal(addr(bidder), d) - old(bal(addr(bidder), d)) == old(bal(am, d)) - bal(am, d)
//@   ensures #c11-record-moves-with-withdrawal: result == nil && amount.Amount < u0.0.DebtToken.Amount ==> u1.1 && u1.0.DebtToken.Amount == u0.0.DebtToken.Amount - amount.Amount
//@   ensures #c11-total-moves-with-deposit: result == nil ==> p1.0.BidValue == p0.0.BidValue - amount.Amount

// Dutch auction price (C10): the posted price is the linear function of elapsed time between the start price and zero at
// tau; it never exceeds the start price, never goes below zero while elapsed <= tau, and is non-increasing in elapsed time.

//@ pred linprice(top, tau, el): decQuo(decMul(top, dec(tau - el)), dec(tau))

//@ func (k Keeper) GetPriceFromLinearDecreaseFunction
//@   property C10
//@   requires #range: abs(timeToReachZeroPrice) < pow2(62) && abs(timeElapsed) < pow2(62) && timeToReachZeroPrice != 0
//@   ensures #c10-linear: result == linprice(CollateralTokenAuctionPrice, timeToReachZeroPrice, timeElapsed)
//@   ensures #c10-at-start: timeElapsed == 0 && CollateralTokenAuctionPrice >= 0 ==> result == CollateralTokenAuctionPrice

//@ func (k Keeper) GetCollalteralTokenInitialPrice
//@   property C10
//@   requires #range: price >= 0 && price < pow2(63)
//@   ensures #c10-start-price: result == decMul(premium, dec(price))

//@ lemma linprice_bounds(top, tau, el)
//@   property C10
//@   requires top >= 0 && tau > 0 && 0 <= el && el <= tau
//@   ensures #c10-below-start: linprice(top, tau, el) <= top
//@   ensures #c10-nonneg: linprice(top, tau, el) >= 0

//@ lemma tdiv_mono(a, b, c)
//@   property C10
//@   requires 0 <= a && a <= b && c > 0
//@   ensures #mono: a / c <= b / c

//@ lemma linprice_falls(top, tau, e1, e2)
//@   property C10
//@   requires top >= 0 && tau > 0 && 0 <= e1 && e1 <= e2 && e2 <= tau
//@   ensures #m0: decMul(top, dec(tau - e2)) == top * (tau - e2) && decMul(top, dec(tau - e1)) == top * (tau - e1)
//@   ensures #m1: 0 <= top * (tau - e2) && top * (tau - e2) <= top * (tau - e1)
//@   ensures #m2: (top * (tau - e2) * pow10(36)) / (tau * ONE) <= (top * (tau - e1) * pow10(36)) / (tau * ONE) by #m1
//@   ensures #c10-nonincreasing: linprice(top, tau, e2) <= linprice(top, tau, e1) by #m0, #m2

// Restart: the new round starts at premium x oracle price and leaves the settlement state of the auction alone.
//@ func (k Keeper) RestartDutchAuction
//@   property C10
//@   modular
//@   modifies auctionsV2
//@   requires #c10-round-over: blocktime() > dutchAuction.EndTime
//@   let twa = K("market").GetTwa(ctx, dutchAuction.CollateralAssetId).0
//@   let prem = K("liquidationsV2").GetLiquidationWhiteListing(ctx, dutchAuction.AppId).0.DutchAuctionParam.Premium
//@   requires #twa-range: twa.Twa < pow2(63)
//@   letpost a1 = k.GetAuction(ctx, dutchAuction.AuctionId).0
//@   ensures #c10-restart-at-start-price: result == nil ==> a1.CollateralTokenInitialPrice == decMul(prem, dec(twa.Twa)) && a1.CollateralTokenAuctionPrice == a1.CollateralTokenInitialPrice
//@   ensures #c10-restart-needs-active-price: result == nil ==> twa.IsPriceActive
//@   ensures #c10-restart-keeps-settlement-state: result == nil ==> a1.CollateralToken == dutchAuction.CollateralToken && a1.DebtToken == dutchAuction.DebtToken && a1.LockedVaultId == dutchAuction.LockedVaultId && a1.BonusAmount == dutchAuction.BonusAmount
//@   ensures #c10-restart-clock: result == nil ==> a1.StartTime == blocktime()

// Per-block update: the posted price is the linear function of the time since the round started, with the zero-crossing
// derived from the configured end price (discount x start price); nothing of the settlement state changes.
//@ func (k Keeper) UpdateDutchAuction
//@   property C10
//@   modular
//@   modifies auctionsV2
//@   requires #c10-within-round: blocktime() <= dutchAuction.EndTime
//@   let dur = k.GetAuctionParams(ctx).0.AuctionDurationSeconds
//@   let disc = K("liquidationsV2").GetLiquidationWhiteListing(ctx, dutchAuction.AppId).0.DutchAuctionParam.Discount
//@   let top = dutchAuction.CollateralTokenInitialPrice
//@   let tau = trunc(decQuo(decMul(top, dec(dur)), top - decMul(top, disc)))
//@   let el = uf("float.to_int", uf("float.dur_seconds", blocktime() - dutchAuction.StartTime))
//@   requires #clock: abs(blocktime() - dutchAuction.StartTime) < pow2(62) && abs(el) < pow2(62)
//@   requires #ranges: dur < pow2(40) && top > 0 && top < pow10(40) && disc >= 0 && disc < ONE && abs(tau) < pow2(62) && tau != 0
//@   letpost a1 = k.GetAuction(ctx, dutchAuction.AuctionId).0
//@   ensures #c10-update-keeps-settlement-state: result == nil ==> a1.CollateralToken == dutchAuction.CollateralToken && a1.DebtToken == dutchAuction.DebtToken && a1.CollateralTokenInitialPrice == top && a1.StartTime == dutchAuction.StartTime && a1.EndTime == dutchAuction.EndTime
//@   ensures #c10-update-posts-linear-price: result == nil ==> a1.CollateralTokenAuctionPrice == linprice(top, tau, el)
//@   ensures #c10-update-needs-active-price: result == nil ==> K("market").GetTwa(ctx, dutchAuction.CollateralAssetId).0.IsPriceActive

// Per-auction step of the begin-blocker: the price is lowered only inside the round (so it cannot fall past the end price),
// a round is restarted only after it is over; the step itself raises no panic.
//@ func (k Keeper) AuctionIterator$1
//@   property C10
//@   let dur = k.GetAuctionParams(ctx).0.AuctionDurationSeconds
//@   let disc = K("liquidationsV2").GetLiquidationWhiteListing(ctx, auction.AppId).0.DutchAuctionParam.Discount
//@   let top = auction.CollateralTokenInitialPrice
//@   let tau = trunc(decQuo(decMul(top, dec(dur)), top - decMul(top, disc)))
//@   let el = uf("float.to_int", uf("float.dur_seconds", blocktime() - auction.StartTime))
//@   requires #twa-range: K("market").GetTwa(ctx, auction.CollateralAssetId).0.Twa < pow2(63)
//@   requires #clock: abs(blocktime() - auction.StartTime) < pow2(62) && abs(el) < pow2(62)
//@   requires #ranges: dur < pow2(40) && top > 0 && top < pow10(40) && disc >= 0 && disc < ONE && abs(tau) < pow2(62) && tau != 0
//@   requires #fee-book: forall a, b :: ite(K("collector").GetNetFeeCollectedData(ctx, a, b).1, K("collector").GetNetFeeCollectedData(ctx, a, b).0.NetFeesCollected, 0) >= 0
//@   requires #bidders-are-not-module-accounts: forall id :: addr(k.GetUserBid(ctx, id).0.BidderAddress) != modaddr("auctionsV2") && addr(k.GetUserBid(ctx, id).0.BidderAddress) != modaddr("collectorV1") && addr(k.GetUserBid(ctx, id).0.BidderAddress) != modaddr("tokenmint")
//@   requires #english-lot: auction.DebtToken.Denom != auction.CollateralToken.Denom && auction.DebtToken.Amount >= 0 && auction.CollateralToken.Amount >= 0
//@   requires #external-initiator: forall a, v :: validaddr(K("liquidationsV2").GetLockedVault(ctx, a, v).0.ExternalKeeperAddress) ==> addr(K("liquidationsV2").GetLockedVault(ctx, a, v).0.ExternalKeeperAddress) != modaddr("auctionsV2") && (forall id :: addr(K("liquidationsV2").GetLockedVault(ctx, a, v).0.ExternalKeeperAddress) != addr(k.GetUserBid(ctx, id).0.BidderAddress))
//@   ensures #c10-step-runs: result == nil || result != nil

//@ pred mapColl(vk, ctx, app, ep): vk.GetAppExtendedPairVaultMappingData(ctx, app, ep).0.CollateralLockedAmount
//@ pred mapMint(vk, ctx, app, ep): vk.GetAppExtendedPairVaultMappingData(ctx, app, ep).0.TokenMintedAmount

// Dutch bid (C10, C01): what the bidder pays is clipped to the remaining target, what the bidder receives is clipped to the
// remaining collateral; a partial bid moves the auction record by exactly what moved in custody; a closing bid of a
// vault-initiated auction empties the collateral side of custody and retires the whole vault from the published totals.
//@ func (k Keeper) PlaceDutchAuctionBid
//@   property C10, C01, C11
//@   modular
//@   let lv = K("liquidationsV2").GetLockedVault(ctx, auctionData.AppId, auctionData.LockedVaultId).0
//@   let am = modaddr("auctionsV2")
//@   let dd = auctionData.DebtToken.Denom
//@   let cd = auctionData.CollateralToken.Denom
//@   let A = auctionData
//@   let hadAuction = k.GetAuction(ctx, auctionID).1 == nil
//@   requires assumed #valid: validaddr(bidder) && addr(bidder) != am && dd != cd
//@   requires #auction-keyed: A.AuctionId == auctionID
//@   requires assumed #nonneg: A.DebtToken.Amount > 0 && A.CollateralToken.Amount >= 0 && A.BonusAmount >= 0 && bid.Amount >= 0 && A.CollateralTokenAuctionPrice > 0
//@   requires assumed #owner: validaddr(lv.Owner) && addr(lv.Owner) != am
//@   requires assumed #totals-keyed: K("vault").GetAppExtendedPairVaultMappingData(ctx, A.AppId, lv.ExtendedPairId).1 && K("vault").GetAppExtendedPairVaultMappingData(ctx, A.AppId, lv.ExtendedPairId).0.AppId == A.AppId && K("vault").GetAppExtendedPairVaultMappingData(ctx, A.AppId, lv.ExtendedPairId).0.ExtendedPairId == lv.ExtendedPairId
//@   requires assumed #fee-book: ite(K("collector").GetNetFeeCollectedData(ctx, A.AppId, A.CollateralAssetId).1, K("collector").GetNetFeeCollectedData(ctx, A.AppId, A.CollateralAssetId).0.NetFeesCollected, 0) >= 0
//@   letpost a1 = k.GetAuction(ctx, auctionID)
//@   letpost paid = old(bal(addr(bidder), dd)) - bal(addr(bidder), dd)
//@   ensures [C10] #c10-partial-record-moves-with-custody: err == nil && a1.1 == nil && !isAutoBid && addr(bidder) != addr(lv.Owner) ==> \
//@       bal(am, dd) - old(bal(am, dd)) == A.DebtToken.Amount - a1.0.DebtToken.Amount && \
//@       old(bal(am, cd)) - bal(am, cd) == A.CollateralToken.Amount - a1.0.CollateralToken.Amount && \
//@       bal(addr(bidder), cd) - old(bal(addr(bidder), cd)) == A.CollateralToken.Amount - a1.0.CollateralToken.Amount && \
//@       paid == A.DebtToken.Amount - a1.0.DebtToken.Amount
//@   ensures [C10] #c10-partial-leaves-target: err == nil && a1.1 == nil ==> a1.0.DebtToken.Amount > 0 && a1.0.DebtToken.Amount < A.DebtToken.Amount && a1.0.BonusAmount >= 0 && a1.0.BonusAmount <= A.BonusAmount
//@   ensures [C10] #c10-reserve-top-up-within-remaining-debt: err == nil && lv.InitiatorType != "lend" ==> old(bal(modaddr("liquidationsV2"), dd)) - bal(modaddr("liquidationsV2"), dd) <= A.DebtToken.Amount
//@   ensures [C10] #c10-reserve-book-within-remaining-debt: err == nil ==> old(K("liquidationsV2").GetAppReserveFunds(ctx, A.AppId, A.DebtAssetId).0.TokenQuantity.Amount) - K("liquidationsV2").GetAppReserveFunds(ctx, A.AppId, A.DebtAssetId).0.TokenQuantity.Amount <= A.DebtToken.Amount
//@   ensures [C10] #c10-close-empties-collateral: err == nil && a1.1 != nil && lv.InitiatorType != "lend" && A.CollateralToken.Amount >= 0 ==> old(bal(am, cd)) - bal(am, cd) == A.CollateralToken.Amount
//@   ensures [C01] #c01-close-retires-vault-from-totals: err == nil && a1.1 != nil && lv.InitiatorType == "vault" ==> \
//@       mapColl(K("vault"), ctx, A.AppId, lv.ExtendedPairId) == old(mapColl(K("vault"), ctx, A.AppId, lv.ExtendedPairId)) - lv.CollateralToken.Amount
//@   ensures [C01] #c01-close-retires-debt-from-totals: err == nil && a1.1 != nil && lv.InitiatorType == "vault" ==> \
//@       mapMint(K("vault"), ctx, A.AppId, lv.ExtendedPairId) == old(mapMint(K("vault"), ctx, A.AppId, lv.ExtendedPairId)) - (lv.TargetDebt.Amount - lv.FeeToBeCollected)
//@   ensures [C11] #c11-limit-bid-books-untouched: (forall d, c, p, a :: k.GetUserLimitBidData(ctx, d, c, p, a) == old(k.GetUserLimitBidData(ctx, d, c, p, a))) && (forall d, c :: k.GetLimitBidProtocolDataByAssetID(ctx, d, c) == old(k.GetLimitBidProtocolDataByAssetID(ctx, d, c)))

// English auction bid, second generation (C11): an accepted bid improves on the standing one by at least the bid factor
// (surplus: higher payment; debt: smaller lot), the outbid bidder is refunded the standing payment in the same call,
// custody moves by exactly payment minus refund, and the new standing bid is recorded.
//@ func (k Keeper) PlaceEnglishAuctionBid
//@   property C11
//@   let A = auctionData
//@   let lv = K("liquidationsV2").GetLockedVault(ctx, auctionData.AppId, auctionData.LockedVaultId).0
//@   let isDebt = lv.InitiatorType == "debt"
//@   let had = auctionData.ActiveBiddingId != 0
//@   let f = k.GetAuctionParams(ctx).0.BidFactor
//@   let prev = k.GetUserBid(ctx, auctionData.ActiveBiddingId).0.BidderAddress
//@   let am = modaddr("auctionsV2")
//@   let dd = auctionData.DebtToken.Denom
//@   requires #valid: validaddr(bidder) && addr(bidder) != am && (had ==> validaddr(prev) && addr(prev) != am)
//@   requires #auction-keyed: A.AuctionId == auctionID
//@   requires #bid-list-consistent: had <==> len(A.BiddingIds) > 0
//@   requires #bid-ids-allocated: A.ActiveBiddingId <= k.GetUserBidID(ctx) && k.GetUserBidID(ctx) < pow2(64) - 1
//@   requires #nonneg: f >= 0 && A.DebtToken.Amount >= 0 && A.CollateralToken.Amount >= 0
//@   letpost a1 = k.GetAuction(ctx, auctionID).0
//@   ensures #c11-improves-by-factor: result == nil && had && !isDebt ==> bid.Amount * ONE >= A.DebtToken.Amount * ONE + f * A.DebtToken.Amount
//@   ensures #c11-lot-shrinks-by-factor: result == nil && had && isDebt ==> bid.Amount * ONE <= A.CollateralToken.Amount * ONE - f * A.CollateralToken.Amount
//@   ensures #c11-first-bid-at-least-reserve: result == nil && !had && !isDebt ==> bid.Amount >= A.DebtToken.Amount
//@   ensures #c11-first-lot-within-offer: result == nil && !had && isDebt ==> bid.Amount <= A.CollateralToken.Amount
//@   ensures #c11-bid-denom: result == nil ==> bid.Denom == ite(isDebt, A.CollateralToken.Denom, A.DebtToken.Denom)
//@   ensures #c11-standing-bid-recorded: result == nil ==> ite(isDebt, a1.CollateralToken.Amount, a1.DebtToken.Amount) == bid.Amount && a1.ActiveBiddingId != 0 && k.GetUserBid(ctx, a1.ActiveBiddingId).0.BidderAddress == bidder
//@   ensures #c11-custody: result == nil ==> bal(am, dd) == old(bal(am, dd)) + ite(isDebt, A.DebtToken.Amount, bid.Amount) - ite(had, A.DebtToken.Amount, 0)
//@   ensures #c11-outbid-refunded: result == nil && had && addr(prev) != addr(bidder) ==> bal(addr(prev), dd) == old(bal(addr(prev), dd)) + A.DebtToken.Amount
//@   ensures #c11-bidder-pays: result == nil && (!had || addr(prev) != addr(bidder)) ==> bal(addr(bidder), dd) == old(bal(addr(bidder), dd)) - ite(isDebt, A.DebtToken.Amount, bid.Amount)

// English auction close (C11): the standing bidder - and nobody else - receives the lot, the standing payment leaves
// auction custody in full, and the auction is removed.
//@ func (k Keeper) CloseEnglishAuction
//@   property C11
//@   modular
//@   modifies auctionsV2, collector, tokenmint, liquidationsV2, bank
//@   let A = englishAuction
//@   let lv = K("liquidationsV2").GetLockedVault(ctx, englishAuction.AppId, englishAuction.LockedVaultId).0
//@   let w = k.GetUserBid(ctx, englishAuction.ActiveBiddingId).0.BidderAddress
//@   let am = modaddr("auctionsV2")
//@   let dd = englishAuction.DebtToken.Denom
//@   let cd = englishAuction.CollateralToken.Denom
//@   requires #valid: addr(w) != am && addr(w) != modaddr("collectorV1") && addr(w) != modaddr("tokenmint") && dd != cd
//@   requires #external: validaddr(lv.ExternalKeeperAddress) ==> addr(lv.ExternalKeeperAddress) != am && addr(lv.ExternalKeeperAddress) != addr(w)
//@   requires #nonneg: A.DebtToken.Amount >= 0 && A.CollateralToken.Amount >= 0
//@   requires #fee-book: forall a, b :: ite(K("collector").GetNetFeeCollectedData(ctx, a, b).1, K("collector").GetNetFeeCollectedData(ctx, a, b).0.NetFeesCollected, 0) >= 0
//@   ensures #c11-winner-receives-lot: result == nil && lv.InitiatorType != "debt" ==> bal(addr(w), cd) == old(bal(addr(w), cd)) + A.CollateralToken.Amount
//@   ensures #c11-payment-leaves-custody: result == nil ==> bal(am, dd) == old(bal(am, dd)) - A.DebtToken.Amount
//@   ensures #c11-lot-not-kept-in-custody: result == nil ==> bal(am, cd) == old(bal(am, cd)) - ite(lv.InitiatorType == "surplus" || lv.InitiatorType == "debt", 0, A.CollateralToken.Amount)
//@   ensures #c11-auction-removed: result == nil ==> k.GetAuction(ctx, A.AuctionId).1 != nil


// The list of limit bids of a pair at one premium: a deterministic function of the limit-bid store.
//@ func (k Keeper) GetUserLimitBidDataByPremium
//@   property C11
//@   pure

// Automatic fill of limit bids, per-auction step (C11), for a premium band that holds exactly one limit bid: the recorded
// total of limit bids of the pair is lowered by exactly the part of that deposit the fill consumed (the whole deposit when
// the record is removed), so recorded total minus the sum of deposits is unchanged by a committed step.
//@ func (k Keeper) LimitOrderBid$1
//@   property C11
//@   let A = auction
//@   let prem = trunc(decMul(decQuo(auction.CollateralTokenOraclePrice - auction.CollateralTokenAuctionPrice, auction.CollateralTokenOraclePrice), 100 * ONE))
//@   let bids = k.GetUserLimitBidDataByPremium(ctx, auction.DebtAssetId, auction.CollateralAssetId, prem).0
//@   let T0 = k.GetLimitBidProtocolDataByAssetID(ctx, auction.DebtAssetId, auction.CollateralAssetId).0.BidValue
//@   let b0 = bids[0]
//@   requires #one-bid-in-the-band: k.GetUserLimitBidDataByPremium(ctx, auction.DebtAssetId, auction.CollateralAssetId, prem).1 ==> len(bids) == 1 && b0.PremiumDiscount == prem && k.GetUserLimitBidData(ctx, auction.DebtAssetId, auction.CollateralAssetId, prem, b0.BidderAddress).1 && k.GetUserLimitBidData(ctx, auction.DebtAssetId, auction.CollateralAssetId, prem, b0.BidderAddress).0 == b0
//@   requires #total-keyed: k.GetLimitBidProtocolDataByAssetID(ctx, auction.DebtAssetId, auction.CollateralAssetId).1 && k.GetLimitBidProtocolDataByAssetID(ctx, auction.DebtAssetId, auction.CollateralAssetId).0.DebtAssetId == auction.DebtAssetId && k.GetLimitBidProtocolDataByAssetID(ctx, auction.DebtAssetId, auction.CollateralAssetId).0.CollateralAssetId == auction.CollateralAssetId
//@   requires #amounts: auction.DebtToken.Amount > 0 && b0.DebtToken.Amount > 0 && auction.CollateralTokenOraclePrice > 0
//@   letpost T1 = k.GetLimitBidProtocolDataByAssetID(ctx, auction.DebtAssetId, auction.CollateralAssetId).0.BidValue
//@   letpost dep1 = ite(k.GetUserLimitBidData(ctx, auction.DebtAssetId, auction.CollateralAssetId, prem, b0.BidderAddress).1, k.GetUserLimitBidData(ctx, auction.DebtAssetId, auction.CollateralAssetId, prem, b0.BidderAddress).0.DebtToken.Amount, 0)
//@   loop 0 invariant #books: (idx0 == 0 && k.GetLimitBidProtocolDataByAssetID(ctx, auction.DebtAssetId, auction.CollateralAssetId) == old(k.GetLimitBidProtocolDataByAssetID(ctx, auction.DebtAssetId, auction.CollateralAssetId)) && k.GetUserLimitBidData(ctx, auction.DebtAssetId, auction.CollateralAssetId, prem, b0.BidderAddress) == old(k.GetUserLimitBidData(ctx, auction.DebtAssetId, auction.CollateralAssetId, prem, b0.BidderAddress))) || \
//@       (idx0 == 1 && k.GetLimitBidProtocolDataByAssetID(ctx, auction.DebtAssetId, auction.CollateralAssetId).0.BidValue == T0 - (b0.DebtToken.Amount - ite(k.GetUserLimitBidData(ctx, auction.DebtAssetId, auction.CollateralAssetId, prem, b0.BidderAddress).1, k.GetUserLimitBidData(ctx, auction.DebtAssetId, auction.CollateralAssetId, prem, b0.BidderAddress).0.DebtToken.Amount, 0)))
//@   ensures #c11-fill-lowers-total-by-consumed-deposit: result == nil && old(k.GetUserLimitBidDataByPremium(ctx, auction.DebtAssetId, auction.CollateralAssetId, prem).1) && auction.CollateralTokenOraclePrice > auction.CollateralTokenAuctionPrice ==> T1 == T0 - (b0.DebtToken.Amount - dep1)
