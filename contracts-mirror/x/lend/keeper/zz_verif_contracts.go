//go:build verif

package keeper

// Machine-checked contracts for the govc verifier (/verif). Comment-only; compiled only with -tags verif.

//@ pred breakerOn(k, ctx, app): k.esm.GetKillSwitchData(ctx, app).0.BreakerEnable

//@ func (k Keeper) WithdrawAsset
//@   property C12, C14, C08
//@   let l0 = k.GetLend(ctx, lendID).0
//@   let lf0 = k.GetLend(ctx, lendID).1
//@   ensures [C12] #c12-owner: err == nil ==> lf0 && addr == l0.Owner
//@   fails_if [C14] #c14-breaker: lf0 && breakerOn(k, ctx, l0.AppID)
//@   ensures [C08] #c08-never-pledged-collateral: err == nil ==> withdrawal.Amount <= l0.AvailableToBorrow

//@ func (k Keeper) DepositAsset
//@   property C12, C14
//@   let l0 = k.GetLend(ctx, lendID).0
//@   let lf0 = k.GetLend(ctx, lendID).1
//@   ensures [C12] #c12-owner: err == nil ==> lf0 && addr == l0.Owner
//@   fails_if [C14] #c14-breaker: lf0 && breakerOn(k, ctx, l0.AppID)

//@ func (k Keeper) CloseLend
//@   property C12, C14, C08
//@   let l0 = k.GetLend(ctx, lendID).0
//@   let lf0 = k.GetLend(ctx, lendID).1
//@   ensures [C12] #c12-owner: err == nil ==> lf0 && addr == l0.Owner
//@   fails_if [C14] #c14-breaker: lf0 && breakerOn(k, ctx, l0.AppID)
