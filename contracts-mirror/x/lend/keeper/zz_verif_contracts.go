//go:build verif

package keeper

// Machine-checked contracts for the govc verifier (/verif). Comment-only; compiled only with -tags verif.

//@ pred breakerOn(k, ctx, app): k.esm.GetKillSwitchData(ctx, app).0.BreakerEnable

//@ func (k Keeper) WithdrawAsset
//@   property C12, C14, C08
//@   let l0 = k.GetLend(ctx, lendID).0
//@   let lf0 = k.GetLend(ctx, lendID).1
//@   ensures [C12] #c12-owner: err == nil ==> lf0 && addr == l0.Owner
//@   fails_if [C14] #c14-breaker: lf0 && breakerOn(k, ctx, l0.AppID)
//@   let st0 = k.GetAssetStatsByPoolIDAndAssetID(ctx, l0.PoolID, l0.AssetID).0
//@   requires [C08] #lend-keyed: lf0 ==> l0.ID == lendID && l0.AvailableToBorrow >= 0 && l0.AmountIn.Amount >= 0
//@   requires [C08] #stats-keyed: lf0 ==> k.GetAssetStatsByPoolIDAndAssetID(ctx, l0.PoolID, l0.AssetID).1 && st0.PoolID == l0.PoolID && st0.AssetID == l0.AssetID
//@   letpost l1 = k.GetLend(ctx, lendID)
//@   letpost st1 = k.GetAssetStatsByPoolIDAndAssetID(ctx, l0.PoolID, l0.AssetID).0
//@   ensures [C08] #c08-books-delta: err == nil && l1.1 ==> st1.TotalLend - l1.0.AvailableToBorrow == st0.TotalLend - l0.AvailableToBorrow
//@   ensures [C08] #c08-books-delta-closed: err == nil && !l1.1 ==> st1.TotalLend == st0.TotalLend - l0.AvailableToBorrow
//@   ensures [C08] #c08-never-pledged-collateral: err == nil && l1.1 ==> l1.0.AvailableToBorrow >= 0
//@   ensures [C08] #c08-close-needs-no-borrow: err == nil && !l1.1 ==> len(k.GetUserLendBorrowMapping(ctx, l0.Owner, lendID).0.BorrowId) == 0

//@ func (k Keeper) DepositAsset
//@   property C12, C14, C08
//@   let l0 = k.GetLend(ctx, lendID).0
//@   let lf0 = k.GetLend(ctx, lendID).1
//@   let st0 = k.GetAssetStatsByPoolIDAndAssetID(ctx, l0.PoolID, l0.AssetID).0
//@   requires [C08] #lend-keyed: lf0 ==> l0.ID == lendID && l0.AvailableToBorrow >= 0 && l0.AmountIn.Amount >= 0
//@   requires [C08] #stats-keyed: lf0 ==> k.GetAssetStatsByPoolIDAndAssetID(ctx, l0.PoolID, l0.AssetID).1 && st0.PoolID == l0.PoolID && st0.AssetID == l0.AssetID
//@   letpost l1 = k.GetLend(ctx, lendID).0
//@   letpost st1 = k.GetAssetStatsByPoolIDAndAssetID(ctx, l0.PoolID, l0.AssetID).0
//@   ensures [C08] #c08-books-delta: err == nil ==> st1.TotalLend - l1.AvailableToBorrow == st0.TotalLend - l0.AvailableToBorrow
//@   ensures [C08] #c08-deposit-credited: err == nil ==> l1.AvailableToBorrow >= l0.AvailableToBorrow + deposit.Amount && l1.AmountIn.Amount == l0.AmountIn.Amount + deposit.Amount
//@   ensures [C12] #c12-owner: err == nil ==> lf0 && addr == l0.Owner
//@   fails_if [C14] #c14-breaker: lf0 && breakerOn(k, ctx, l0.AppID)

//@ func (k Keeper) CloseLend
//@   property C12, C14, C08
//@   let l0 = k.GetLend(ctx, lendID).0
//@   let lf0 = k.GetLend(ctx, lendID).1
//@   let st0 = k.GetAssetStatsByPoolIDAndAssetID(ctx, l0.PoolID, l0.AssetID).0
//@   requires [C08] #lend-keyed: lf0 ==> l0.ID == lendID && l0.AvailableToBorrow >= 0 && l0.AmountIn.Amount >= 0
//@   requires [C08] #stats-keyed: lf0 ==> k.GetAssetStatsByPoolIDAndAssetID(ctx, l0.PoolID, l0.AssetID).1 && st0.PoolID == l0.PoolID && st0.AssetID == l0.AssetID
//@   letpost st1 = k.GetAssetStatsByPoolIDAndAssetID(ctx, l0.PoolID, l0.AssetID).0
//@   ensures [C08] #c08-books-delta-closed: err == nil ==> !k.GetLend(ctx, lendID).1 && st1.TotalLend == st0.TotalLend - l0.AvailableToBorrow
//@   ensures [C08] #c08-close-needs-no-borrow: err == nil ==> len(k.GetUserLendBorrowMapping(ctx, l0.Owner, lendID).0.BorrowId) == 0
//@   ensures [C12] #c12-owner: err == nil ==> lf0 && addr == l0.Owner
//@   fails_if [C14] #c14-breaker: lf0 && breakerOn(k, ctx, l0.AppID)

// Reward accrual of one lend position (C08): whatever is credited to the position is credited to the published pool total
// too, so (pool total - this position's available amount) does not move; principal and identity of the position and every
// other position are untouched.
//@ func (k Keeper) IterateLends
//@   property C08, C18
//@   modular
//@   modifies lend, bank
//@   let l0 = k.GetLend(ctx, ID).0
//@   let lf0 = k.GetLend(ctx, ID).1
//@   let st0 = k.GetAssetStatsByPoolIDAndAssetID(ctx, l0.PoolID, l0.AssetID).0
//@   requires #lend-keyed: lf0 ==> l0.ID == ID
//@   requires #stats-keyed: lf0 ==> k.GetAssetStatsByPoolIDAndAssetID(ctx, l0.PoolID, l0.AssetID).1 && st0.PoolID == l0.PoolID && st0.AssetID == l0.AssetID
//@   letpost l1 = k.GetLend(ctx, ID).0
//@   letpost st1 = k.GetAssetStatsByPoolIDAndAssetID(ctx, l0.PoolID, l0.AssetID).0
//@   ensures #c08-accrual-books-delta: result1 == nil && lf0 ==> st1.TotalLend - l1.AvailableToBorrow == st0.TotalLend - l0.AvailableToBorrow
//@   ensures #c08-accrual-stats-keyed: result1 == nil && lf0 ==> k.GetAssetStatsByPoolIDAndAssetID(ctx, l0.PoolID, l0.AssetID).1 && st1.PoolID == st0.PoolID && st1.AssetID == st0.AssetID
//@   ensures #c08-accrual-never-lowers: result1 == nil && lf0 ==> l1.AvailableToBorrow >= l0.AvailableToBorrow
//@   ensures #c08-accrual-keeps-position: result1 == nil && lf0 ==> k.GetLend(ctx, ID).1 && l1.ID == l0.ID && l1.Owner == l0.Owner && l1.AssetID == l0.AssetID && l1.PoolID == l0.PoolID && l1.AppID == l0.AppID && l1.AmountIn == l0.AmountIn
//@   ensures #c08-accrual-frame: result1 == nil ==> forall j :: j != ID ==> k.GetLend(ctx, j) == old(k.GetLend(ctx, j))
//@   ensures #c08-accrual-mapping-frame: result1 == nil ==> forall o, j :: k.GetUserLendBorrowMapping(ctx, o, j) == old(k.GetUserLendBorrowMapping(ctx, o, j))
//@   ensures #c08-accrual-missing: !lf0 ==> true
//@   let lsecs = lendElapsed(blocktime(), l0.LastInteractionTime)
//@   let lrate = k.GetLendAPRByAssetIDAndPoolID(ctx, l0.PoolID, l0.AssetID).0
//@   let tr0 = ite(k.GetLendRewardTracker(ctx, ID).1, k.GetLendRewardTracker(ctx, ID).0.RewardsAccumulated, 0)
//@   letpost tr1 = k.GetLendRewardTracker(ctx, ID).0.RewardsAccumulated
//@   ensures [C18] slow #c18-lend-reward-accrues-on-amount-lent: result1 == nil && lf0 && l0.GlobalIndex > 0 && lsecs >= 0 && blocktime() >= 0 && blocktime() <= pow2(62) && l0.LastInteractionTime >= 0 && l0.LastInteractionTime <= pow2(62) && (k.GetLendRewardTracker(ctx, ID).1 ==> k.GetLendRewardTracker(ctx, ID).0.LendingId == ID) ==> tr1 + ONE * (l1.AvailableToBorrow - l0.AvailableToBorrow) == tr0 + indexAccrual(l0.AmountIn.Amount * ONE, lrate, l0.GlobalIndex, lsecs)

// ---- interest-rate model (C18) ----
// The borrow rate equals the two-segment spec function of the pool utilisation u (18-digit fixed point):
//   u <  UOptimal : Base + round(round(u / UOptimal) * Slope1)
//   u >= UOptimal : Base + Slope1 + round(round((u - UOptimal) / (1 - UOptimal)) * Slope2)
//@ func (k Keeper) GetBorrowAPRByAssetID
//@   property C18
//@   let p = k.GetAssetRatesParams(ctx, assetID).0
//@   let pf = k.GetAssetRatesParams(ctx, assetID).1
//@   let u = k.GetUtilisationRatioByPoolIDAndAssetID(ctx, poolID, assetID).0
//@   let uerr = k.GetUtilisationRatioByPoolIDAndAssetID(ctx, poolID, assetID).1
//@   requires #params: p.UOptimal > 0 && p.UOptimal < ONE
//@   ensures #c18-variable-below: err == nil && !IsStableBorrow && u < p.UOptimal ==> borrowAPY == p.Base + decMul(decQuo(u, p.UOptimal), p.Slope1)
//@   ensures #c18-variable-above: err == nil && !IsStableBorrow && u >= p.UOptimal ==> borrowAPY == p.Base + p.Slope1 + decMul(decQuo(u - p.UOptimal, ONE - p.UOptimal), p.Slope2)
//@   ensures #c18-stable-below: err == nil && IsStableBorrow && u < p.UOptimal ==> borrowAPY == p.StableBase + decMul(decQuo(u, p.UOptimal), p.StableSlope1)
//@   ensures #c18-stable-above: err == nil && IsStableBorrow && u >= p.UOptimal ==> borrowAPY == p.StableBase + p.StableSlope1 + decMul(decQuo(u - p.UOptimal, ONE - p.UOptimal), p.StableSlope2)
//@   ensures #c18-ok-iff: (err == nil) <==> (pf && uerr == nil)

//@ func (k Keeper) GetUtilisationRatioByPoolIDAndAssetID
//@   property C18
//@   pure
//@   let st = k.GetAssetStatsByPoolIDAndAssetID(ctx, poolID, assetID).0
//@   let cash = bal(modaddr(k.GetPool(ctx, poolID).0.ModuleName), k.Asset.GetAsset(ctx, assetID).0.Denom)
//@   let debt = st.TotalBorrowed + st.TotalStableBorrowed
//@   requires #stats-nonneg: st.TotalBorrowed >= 0 && st.TotalStableBorrowed >= 0 && cash + debt < pow2(63)
//@   ensures #c18-utilisation-is-debt-over-cash-plus-debt: result1 == nil && cash + debt > 0 ==> result0 == decQuo(debt * ONE, (cash + debt) * ONE)
//@   ensures #c18-utilisation-within-unit-interval: result1 == nil ==> result0 >= 0 && result0 <= ONE
//@   ensures #c18-zero-utilisation-of-an-empty-pool: result1 == nil && cash + debt == 0 ==> result0 == 0

//@ func (k Keeper) GetLendAPRByAssetIDAndPoolID
//@   property C18
//@   let p = k.GetAssetRatesParams(ctx, assetID).0
//@   let u = k.GetUtilisationRatioByPoolIDAndAssetID(ctx, poolID, assetID).0
//@   requires #params: p.UOptimal > 0 && p.UOptimal < ONE
//@   ensures #c18-lend-spec: err == nil ==> lendAPY == decMul(decMul(k.GetBorrowAPRByAssetID(ctx, poolID, assetID, false).0, u), ONE - p.ReserveFactor)

// Properties of the spec function (pure arithmetic over the SDK's rounding functions).
//@ lemma RateAtZeroUtilisation(uopt, s1)
//@   property C18
//@   requires uopt > 0
//@   ensures #c18-base-at-zero: decMul(decQuo(0, uopt), s1) == 0

//@ lemma RateMonotoneBelowKink(u1, u2, uopt, s1)
//@   property C18
//@   requires 0 <= u1 && u1 <= u2 && u2 < uopt && uopt > 0 && uopt < ONE && s1 >= 0 && s1 <= 100 * ONE
//@   ensures #c18-mono-ratio: decQuo(u1, uopt) <= decQuo(u2, uopt)
//@   ensures slow #c18-mono-below: decMul(decQuo(u1, uopt), s1) <= decMul(decQuo(u2, uopt), s1) by #c18-mono-ratio

//@ lemma RateMonotoneAboveKink(u1, u2, uopt, s2)
//@   property C18
//@   requires uopt <= u1 && u1 <= u2 && u2 <= ONE && uopt > 0 && uopt < ONE && s2 >= 0 && s2 <= 100 * ONE
//@   ensures #c18-mono-ratio: decQuo(u1 - uopt, ONE - uopt) <= decQuo(u2 - uopt, ONE - uopt)
//@   ensures slow #c18-mono-above: decMul(decQuo(u1 - uopt, ONE - uopt), s2) <= decMul(decQuo(u2 - uopt, ONE - uopt), s2) by #c18-mono-ratio

//@ lemma RateAcrossKink(u1, uopt, s1, s2, u2)
//@   property C18
//@   requires 0 <= u1 && u1 < uopt && uopt <= u2 && u2 <= ONE && uopt > 0 && uopt < ONE && s1 >= 0 && s2 >= 0 && s1 <= 100 * ONE && s2 <= 100 * ONE
//@   ensures #c18-below-le-kink: decMul(decQuo(u1, uopt), s1) <= s1
//@   ensures #c18-kink-le-above: 0 <= decMul(decQuo(u2 - uopt, ONE - uopt), s2)
//@   ensures #c18-continuous-at-kink: decMul(decQuo(uopt - uopt, ONE - uopt), s2) == 0

//@ lemma LendRateBelowBorrowRate(b, u, rf)
//@   property C18
//@   requires b >= 0 && b <= 100 * ONE && 0 <= u && u <= ONE && 0 <= rf && rf <= ONE
//@   ensures #c18-lend-le-borrow: decMul(decMul(b, u), ONE - rf) <= b

// GetBorrows: the stored borrow-id list — a deterministic function of the lend store.
//@ func (k Keeper) GetBorrows
//@   property C15, C09
//@   pure

// ---- loan-to-value (C08) ----
// The LTV gate: success means both oracle prices are available and value(debt) / value(collateral) <= the threshold,
// computed by the chain's own fixed-point ratio function.
//@ func (k Keeper) CalculateCollateralizationRatio
//@   property C08
//@   pure

//@ func (k Keeper) VerifyCollateralizationRatio
//@   property C08
//@   ensures #c08-ltv-gate: result == nil ==> k.CalculateCollateralizationRatio(ctx, amountIn, assetIn, amountOut, assetOut).1 == nil && k.CalculateCollateralizationRatio(ctx, amountIn, assetIn, amountOut, assetOut).0 <= liquidationThreshold
//@   ensures #c08-ltv-gate-rejects: result != nil <==> (k.CalculateCollateralizationRatio(ctx, amountIn, assetIn, amountOut, assetOut).1 != nil || k.CalculateCollateralizationRatio(ctx, amountIn, assetIn, amountOut, assetOut).0 > liquidationThreshold)

// New borrow against a lend position (same-pool pairs): the LTV gate was passed with the pledged amount and the loan, the
// lending pool held the loan, the pledged amount leaves the position's available amount, the published borrowed total of
// the borrowed asset grows by exactly the loan.
//@ func (k Keeper) BorrowAsset
//@   property C08, C12, C14
//@   let l0 = k.GetLend(ctx, lendID).0
//@   let lf0 = k.GetLend(ctx, lendID).1
//@   let pair = k.GetLendPair(ctx, pairID).0
//@   let rs = k.GetAssetRatesParams(ctx, pair.AssetIn).0
//@   let ltv = ite(pair.IsEModeEnabled, rs.ELtv, rs.Ltv)
//@   let ain = k.Asset.GetAsset(ctx, l0.AssetID).0
//@   let aout = k.Asset.GetAsset(ctx, pair.AssetOut).0
//@   let fresh = !k.HasBorrowForAddressByPair(ctx, addr, pairID) && !pair.IsInterPool
//@   let so0 = k.GetAssetStatsByPoolIDAndAssetID(ctx, pair.AssetOutPoolID, pair.AssetOut).0
//@   let outmod = addr(k.GetPool(ctx, pair.AssetOutPoolID).0.ModuleName)
//@   requires #lend-keyed: lf0 ==> l0.ID == lendID && l0.AvailableToBorrow >= 0
//@   prune
//@   requires #new-position: !k.HasBorrowForAddressByPair(ctx, addr, pairID)
//@   letpost l1 = k.GetLend(ctx, lendID).0
//@   letpost so1 = k.GetAssetStatsByPoolIDAndAssetID(ctx, pair.AssetOutPoolID, pair.AssetOut).0
//@   ensures [C12] #c12-owner: err == nil ==> lf0 && addr == l0.Owner
//@   fails_if [C14] #c14-breaker: lf0 && breakerOn(k, ctx, l0.AppID)
//@   ensures [C08] #c08-ltv: err == nil && fresh ==> k.CalculateCollateralizationRatio(ctx, AmountIn.Amount, ain, loan.Amount, aout).1 == nil && k.CalculateCollateralizationRatio(ctx, AmountIn.Amount, ain, loan.Amount, aout).0 <= ltv
//@   requires #out-stats-keyed: k.GetAssetStatsByPoolIDAndAssetID(ctx, pair.AssetOutPoolID, pair.AssetOut).1 ==> so0.PoolID == pair.AssetOutPoolID && so0.AssetID == pair.AssetOut
//@   ensures [C08] #c08-pool-holds-loan: err == nil ==> loan.Amount <= old(bal(modaddr(k.GetPool(ctx, pair.AssetOutPoolID).0.ModuleName), loan.Denom)) && loan.Denom == aout.Denom
//@   ensures [C08] #c08-borrowed-total-moves-with-loan: err == nil && k.GetAssetStatsByPoolIDAndAssetID(ctx, pair.AssetOutPoolID, pair.AssetOut).1 ==> so1.TotalBorrowed + so1.TotalStableBorrowed == so0.TotalBorrowed + so0.TotalStableBorrowed + loan.Amount
//@   ensures [C08] #c08-pledge-from-available: err == nil && fresh ==> AmountIn.Amount <= l0.AvailableToBorrow && l1.AvailableToBorrow == l0.AvailableToBorrow - AmountIn.Amount
//@   ensures [C08] #c08-pledge-from-available-bridged: err == nil && pair.IsInterPool && !k.HasBorrowForAddressByPair(ctx, addr, pairID) ==> AmountIn.Amount <= l0.AvailableToBorrow && l1.AvailableToBorrow == l0.AvailableToBorrow - AmountIn.Amount

// Read-only lookups that scan lists: deterministic functions of the lend store (abstracted as such at call sites).
//@ func (k Keeper) HasBorrowForAddressByPair
//@   property C08
//@   pure

//@ func (k Keeper) GetBorrowIDForAddressByPair
//@   property C08
//@   pure

//@ func (k Keeper) IsPoolDepreciated
//@   property C08
//@   pure

//@ func (k Keeper) CheckIsolatedModeForBorrow
//@   property C08
//@   pure

// Draw more debt on an open borrow (C08): after accrual, principal + accrued interest + the new loan passed the LTV gate
// against the pledged collateral; the pool held the coins.
//@ func (k Keeper) DrawAsset
//@   property C08, C12, C14
//@   let b0 = k.GetBorrow(ctx, borrowID).0
//@   let pair = k.GetLendPair(ctx, b0.PairID).0
//@   let l0 = k.GetLend(ctx, b0.LendingID).0
//@   let rs = k.GetAssetRatesParams(ctx, pair.AssetIn).0
//@   let ltv = ite(pair.IsEModeEnabled, rs.ELtv, rs.Ltv)
//@   let ain = k.Asset.GetAsset(ctx, l0.AssetID).0
//@   let aout = k.Asset.GetAsset(ctx, pair.AssetOut).0
//@   requires #borrow-keyed: k.GetBorrow(ctx, borrowID).1 ==> b0.ID == borrowID
//@   letpost b1 = k.GetBorrow(ctx, borrowID).0
//@   ensures #c08-ltv-after-draw: err == nil ==> k.CalculateCollateralizationRatio(ctx, b1.AmountIn.Amount, ain, b1.AmountOut.Amount + trunc(b1.InterestAccumulated), aout).1 == nil && k.CalculateCollateralizationRatio(ctx, b1.AmountIn.Amount, ain, b1.AmountOut.Amount + trunc(b1.InterestAccumulated), aout).0 <= ltv
//@   ensures #c08-draw-not-liquidated: err == nil ==> !b0.IsLiquidated
//@   ensures [C12] #c12-owner: err == nil ==> old(k.GetBorrow(ctx, borrowID).1 && k.GetLend(ctx, k.GetBorrow(ctx, borrowID).0.LendingID).1 && borrowerAddr == k.GetLend(ctx, k.GetBorrow(ctx, borrowID).0.LendingID).0.Owner)
//@   fails_if [C14] #c14-breaker: k.GetBorrow(ctx, borrowID).1 && k.GetLend(ctx, k.GetBorrow(ctx, borrowID).0.LendingID).1 && breakerOn(k, ctx, k.GetLend(ctx, k.GetBorrow(ctx, borrowID).0.LendingID).0.AppID)

// Interest accrual of one borrow position (C08): principal, pledged collateral and identity of the position, every other
// borrow, every lend position and the published pool totals are untouched - only accrued interest and its tracker move.
//@ func (k Keeper) IterateBorrow
//@   property C08, C18
//@   modular
//@   modifies lend
//@   let b0 = k.GetBorrow(ctx, ID).0
//@   let bf0 = k.GetBorrow(ctx, ID).1
//@   requires #borrow-keyed: bf0 ==> b0.ID == ID
//@   letpost b1 = k.GetBorrow(ctx, ID).0
//@   ensures #c08-accrual-keeps-principal: result2 == nil && bf0 ==> k.GetBorrow(ctx, ID).1 && b1.ID == b0.ID && b1.AmountOut == b0.AmountOut && b1.AmountIn == b0.AmountIn && b1.PairID == b0.PairID && b1.LendingID == b0.LendingID && b1.IsLiquidated == b0.IsLiquidated && b1.IsStableBorrow == b0.IsStableBorrow && b1.BridgedAssetAmount == b0.BridgedAssetAmount
//@   ensures #c08-accrual-borrow-frame: result2 == nil ==> forall j :: j != ID ==> k.GetBorrow(ctx, j) == old(k.GetBorrow(ctx, j))
//@   ensures #c08-accrual-lend-frame: result2 == nil ==> forall j :: k.GetLend(ctx, j) == old(k.GetLend(ctx, j))
//@   ensures #c08-accrual-totals-frame: result2 == nil ==> forall p, a :: k.GetAssetStatsByPoolIDAndAssetID(ctx, p, a) == old(k.GetAssetStatsByPoolIDAndAssetID(ctx, p, a))
//@   ensures #c08-accrual-config-frame: result2 == nil ==> (forall p :: k.GetLendPair(ctx, p) == old(k.GetLendPair(ctx, p))) && (forall p :: k.GetPool(ctx, p) == old(k.GetPool(ctx, p))) && (forall a :: k.GetAssetRatesParams(ctx, a) == old(k.GetAssetRatesParams(ctx, a)))
//@   let secs = lendElapsed(blocktime(), b0.LastInteractionTime)
//@   let pr0 = k.GetLendPair(ctx, b0.PairID).0
//@   let vrate = k.GetBorrowAPRByAssetID(ctx, pr0.AssetOutPoolID, pr0.AssetOut, false).0
//@   ensures [C18] #c18-stable-accrues-on-principal: result2 == nil && bf0 && b0.IsStableBorrow && blocktime() >= 0 && blocktime() <= pow2(62) && b0.LastInteractionTime >= 0 && b0.LastInteractionTime <= pow2(62) ==> b1.InterestAccumulated == b0.InterestAccumulated + decMul(decMul(b0.AmountOut.Amount * ONE, b0.StableBorrowRate), years(secs))
//@   ensures [C18] slow #c18-variable-accrues-on-principal: result2 == nil && bf0 && !b0.IsStableBorrow && b0.GlobalIndex > 0 && b0.ReserveGlobalIndex > 0 && blocktime() >= 0 && blocktime() <= pow2(62) && b0.LastInteractionTime >= 0 && b0.LastInteractionTime <= pow2(62) ==> b1.InterestAccumulated == b0.InterestAccumulated + indexAccrual(b0.AmountOut.Amount * ONE, vrate, b0.GlobalIndex, secs)

// Partial repayment (C08): the payer pays exactly the payment; whatever part of it retires principal lowers the published
// borrowed total of the borrowed asset by the same amount (pool total minus this position's principal does not move); never
// on a liquidated position. (A payment equal to the whole debt goes through CloseBorrow, not covered by this contract.)
//@ func (k Keeper) RepayAsset
//@   property C08, C12, C14
//@   prune
//@   let b0 = k.GetBorrow(ctx, borrowID).0
//@   let bf0 = k.GetBorrow(ctx, borrowID).1
//@   let pair = k.GetLendPair(ctx, b0.PairID).0
//@   let so0 = k.GetAssetStatsByPoolIDAndAssetID(ctx, pair.AssetOutPoolID, pair.AssetOut).0
//@   let pm = modaddr(k.GetPool(ctx, pair.AssetOutPoolID).0.ModuleName)
//@   requires #borrow-keyed: bf0 ==> b0.ID == borrowID && b0.AmountOut.Amount >= 0
//@   requires #not-the-closing-payment: payment.Amount != b0.AmountOut.Amount + trunc(b0.InterestAccumulated)
//@   requires #out-stats-keyed: k.GetAssetStatsByPoolIDAndAssetID(ctx, pair.AssetOutPoolID, pair.AssetOut).1 && so0.PoolID == pair.AssetOutPoolID && so0.AssetID == pair.AssetOut
//@   requires #accounts: addr(borrowerAddr) != pm && addr(borrowerAddr) != modaddr("lendV2")
//@   letpost b1 = k.GetBorrow(ctx, borrowID).0
//@   letpost so1 = k.GetAssetStatsByPoolIDAndAssetID(ctx, pair.AssetOutPoolID, pair.AssetOut).0
//@   ensures #c08-borrowed-total-moves-with-principal: err == nil ==> (so1.TotalBorrowed + so1.TotalStableBorrowed) - b1.AmountOut.Amount == (so0.TotalBorrowed + so0.TotalStableBorrowed) - b0.AmountOut.Amount
//@   ensures #c08-principal-never-grows: err == nil ==> b1.AmountOut.Amount <= b0.AmountOut.Amount && b1.AmountOut.Amount >= 0
//@   ensures #c08-payer-pays-exactly: err == nil ==> bal(addr(borrowerAddr), payment.Denom) == old(bal(addr(borrowerAddr), payment.Denom)) - payment.Amount
//@   ensures #c08-repay-not-liquidated: err == nil ==> !b0.IsLiquidated
//@   ensures [C12] #c12-owner: err == nil ==> old(k.GetBorrow(ctx, borrowID).1 && k.GetLend(ctx, k.GetBorrow(ctx, borrowID).0.LendingID).1 && borrowerAddr == k.GetLend(ctx, k.GetBorrow(ctx, borrowID).0.LendingID).0.Owner)
//@   fails_if [C14] #c14-breaker: k.GetBorrow(ctx, borrowID).1 && k.GetLend(ctx, k.GetBorrow(ctx, borrowID).0.LendingID).1 && breakerOn(k, ctx, k.GetLend(ctx, k.GetBorrow(ctx, borrowID).0.LendingID).0.AppID)

// Closing a borrow (C08): the whole principal leaves the published borrowed total, the pledged collateral goes back into
// the lend position's available amount, the borrower pays principal plus accrued interest (truncated) and receives the
// pledged cTokens back, and the borrow position is removed.
//@ func (k Keeper) CloseBorrow
//@   property C08, C12, C14
//@   let b0 = k.GetBorrow(ctx, borrowID).0
//@   let bf0 = k.GetBorrow(ctx, borrowID).1
//@   let pair = k.GetLendPair(ctx, b0.PairID).0
//@   let l0 = k.GetLend(ctx, b0.LendingID).0
//@   let so0 = k.GetAssetStatsByPoolIDAndAssetID(ctx, pair.AssetOutPoolID, pair.AssetOut).0
//@   requires #borrow-keyed: bf0 ==> b0.ID == borrowID && b0.AmountOut.Amount >= 0
//@   requires #lend-keyed: k.GetLend(ctx, b0.LendingID).1 ==> l0.ID == b0.LendingID
//@   requires #out-stats-keyed: k.GetAssetStatsByPoolIDAndAssetID(ctx, pair.AssetOutPoolID, pair.AssetOut).1 && so0.PoolID == pair.AssetOutPoolID && so0.AssetID == pair.AssetOut
//@   letpost so1 = k.GetAssetStatsByPoolIDAndAssetID(ctx, pair.AssetOutPoolID, pair.AssetOut).0
//@   letpost l1 = k.GetLend(ctx, b0.LendingID).0
//@   ensures #c08-close-retires-principal-from-total: err == nil ==> so1.TotalBorrowed + so1.TotalStableBorrowed == so0.TotalBorrowed + so0.TotalStableBorrowed - b0.AmountOut.Amount
//@   ensures #c08-close-returns-pledge-to-position: err == nil ==> l1.AvailableToBorrow == l0.AvailableToBorrow + b0.AmountIn.Amount
//@   ensures #c08-close-removes-borrow: err == nil ==> !k.GetBorrow(ctx, borrowID).1
//@   ensures #c08-close-not-liquidated: err == nil ==> !b0.IsLiquidated
//@   ensures [C12] #c12-owner: err == nil ==> old(k.GetBorrow(ctx, borrowID).1 && k.GetLend(ctx, k.GetBorrow(ctx, borrowID).0.LendingID).1 && borrowerAddr == k.GetLend(ctx, k.GetBorrow(ctx, borrowID).0.LendingID).0.Owner)
//@   fails_if [C14] #c14-breaker: k.GetBorrow(ctx, borrowID).1 && k.GetLend(ctx, k.GetBorrow(ctx, borrowID).0.LendingID).1 && breakerOn(k, ctx, k.GetLend(ctx, k.GetBorrow(ctx, borrowID).0.LendingID).0.AppID)

// ---- lend / borrow accrual kernels (C18): exact decimal arithmetic, proved equal to their spec functions ----
// elapsed seconds: zero for a position that has never been touched (zero time stamp)
//@ pred lendElapsed(now, last): ite(div(last, pow10(9)) == 0, 0, div(now, pow10(9)) - div(last, pow10(9)))
//@ pred years(secs): (secs * ONE) / 31557600
// index growth: amount * ((index * (1 + rate*years)) / index) - amount, with the SDK's rounding at every step
//@ pred indexAccrual(amt, rate, idx, secs): decMul(amt, decQuo(decMul(idx, ONE + decMul(rate, years(secs))), idx)) - amt

// Stable-rate borrow interest: amount x rate x years, nothing for a negative interval (rejected).
//@ func (k Keeper) CalculateStableInterest
//@   property C18
//@   let secs = lendElapsed(blocktime(), borrow.LastInteractionTime)
//@   let amt = decstr(amount)
//@   requires #sane-times: blocktime() >= 0 && blocktime() <= pow2(62) && borrow.LastInteractionTime >= 0 && borrow.LastInteractionTime <= pow2(62)
//@   ensures #c18-negative-time-rejected: secs < 0 ==> result1 != nil
//@   ensures #c18-stable-spec: secs >= 0 ==> result1 == nil && result0 == decMul(decMul(amt, borrow.StableBorrowRate), years(secs))

// Lend reward: index growth of the lent amount; the new index is index x (1 + rate x years).
//@ func (k Keeper) CalculateLendReward
//@   property C18
//@   let secs = lendElapsed(blocktime(), lend.LastInteractionTime)
//@   let amt = decstr(amount)
//@   requires #sane-times: blocktime() >= 0 && blocktime() <= pow2(62) && lend.LastInteractionTime >= 0 && lend.LastInteractionTime <= pow2(62)
//@   requires #index: lend.GlobalIndex > 0
//@   ensures #c18-negative-time-rejected: secs < 0 ==> result2 != nil
//@   ensures #c18-lend-spec: secs >= 0 ==> result2 == nil && result0 == indexAccrual(amt, rate, lend.GlobalIndex, secs) && result1 == decMul(lend.GlobalIndex, ONE + decMul(rate, years(secs)))

// Variable-rate borrow interest and the reserve's cut: both are index growths of the borrowed amount.
//@ func (k Keeper) CalculateBorrowInterest
//@   property C18
//@   let secs = lendElapsed(blocktime(), borrow.LastInteractionTime)
//@   let amt = decstr(amount)
//@   requires #sane-times: blocktime() >= 0 && blocktime() <= pow2(62) && borrow.LastInteractionTime >= 0 && borrow.LastInteractionTime <= pow2(62)
//@   requires #index: borrow.GlobalIndex > 0 && borrow.ReserveGlobalIndex > 0
//@   ensures #c18-negative-time-rejected: secs < 0 ==> result4 != nil
//@   ensures #c18-borrow-spec: secs >= 0 ==> result4 == nil && result0 == indexAccrual(amt, rate, borrow.GlobalIndex, secs) && result1 == decMul(borrow.GlobalIndex, ONE + decMul(rate, years(secs)))
//@   ensures #c18-reserve-spec: secs >= 0 ==> result4 == nil && result2 == indexAccrual(amt, reserveRate, borrow.ReserveGlobalIndex, secs) && result3 == decMul(borrow.ReserveGlobalIndex, ONE + decMul(reserveRate, years(secs)))

// Fixed-point multiplication by a non-negative factor is monotone (used by the laws below through `apply`).
//@ lemma DecMulMonotone(a, x, y)
//@   property C18
//@   requires 0 <= a && a <= pow2(63) * ONE && 0 <= x && x <= y && y <= pow2(120)
//@   ensures slow #mono: decMul(a, x) <= decMul(a, y)

// Fixed-point division by a positive divisor is monotone in the dividend.
//@ lemma DecQuoMonotone(x, y, d)
//@   property C18
//@   requires 0 <= x && x <= y && y <= pow2(200) && 0 < d && d <= pow2(100)
//@   ensures slow #mono: decQuo(x, d) <= decQuo(y, d)

// Laws of the two accrual spec functions (C18), for all amounts, rates, indexes and times in the stated ranges.
//@ lemma StableAccrualLaws(amt, rate, s1, s2)
//@   property C18
//@   requires 0 <= amt && amt <= pow2(63) * ONE && 0 <= rate && rate <= 100 * ONE && 0 <= s1 && s1 <= s2 && s2 <= pow2(40)
//@   ensures #c18-zero-time: decMul(decMul(amt, rate), years(0)) == 0
//@   ensures #c18-nonneg: decMul(decMul(amt, rate), years(s1)) >= 0
//@   ensures #y: years(s1) <= years(s2)
//@   ensures #c18-mono-time: decMul(decMul(amt, rate), years(s1)) <= decMul(decMul(amt, rate), years(s2)) by #y

//@ lemma StableAccrualMonotoneInPrincipalAndRate(a1, a2, r1, r2, s)
//@   property C18
//@   requires 0 <= a1 && a1 <= a2 && a2 <= pow2(63) * ONE && 0 <= r1 && r1 <= r2 && r2 <= 100 * ONE && 0 <= s && s <= pow2(40)
//@   ensures #p: decMul(a1, r1) <= decMul(a2, r2)
//@   ensures #c18-mono-principal-rate: decMul(decMul(a1, r1), years(s)) <= decMul(decMul(a2, r2), years(s)) by #p

//@ lemma StableAccrualTwoIntervals(amt, rate, s1, s2)
//@   property C18
//@   requires 0 <= amt && amt <= pow2(63) * ONE && 0 <= rate && rate <= 100 * ONE && 0 <= s1 && 0 <= s2 && s1 + s2 <= pow2(40)
//@   ensures #y: years(s1) + years(s2) <= years(s1 + s2)
//@   ensures #c18-two-intervals: decMul(decMul(amt, rate), years(s1)) + decMul(decMul(amt, rate), years(s2)) <= decMul(decMul(amt, rate), years(s1 + s2)) + 1 by #y

//@ lemma IndexAccrualZeroAndNonneg(amt, rate, idx, s)
//@   property C18
//@   requires 0 <= amt && amt <= pow2(63) * ONE && 0 <= rate && rate <= 100 * ONE && 0 < idx && idx <= pow2(100) && 0 <= s && s <= pow2(40)
//@   ensures #c18-zero-time: indexAccrual(amt, rate, idx, 0) == 0
//@   ensures #e: decMul(rate, years(s)) >= 0
//@   ensures #m: decMul(idx, ONE + decMul(rate, years(s))) >= idx by #e
//@   ensures #q: decQuo(decMul(idx, ONE + decMul(rate, years(s))), idx) >= ONE by #m
//@   ensures #c18-nonneg: indexAccrual(amt, rate, idx, s) >= 0 by #q

//@ lemma IndexAccrualMonotoneInTime(amt, rate, idx, s1, s2)
//@   property C18
//@   requires 0 <= amt && amt <= pow2(63) * ONE && 0 <= rate && rate <= 100 * ONE && 0 < idx && idx <= pow2(100) && 0 <= s1 && s1 <= s2 && s2 <= pow2(40)
//@   ensures #y: 0 <= years(s1) && years(s1) <= years(s2) && years(s2) <= pow2(100)
//@   apply DecMulMonotone(rate, years(s1), years(s2))
//@   ensures #e: 0 <= decMul(rate, years(s1)) && decMul(rate, years(s1)) <= decMul(rate, years(s2)) && decMul(rate, years(s2)) <= pow2(110) by #y
//@   apply DecMulMonotone(idx, ONE + decMul(rate, years(s1)), ONE + decMul(rate, years(s2)))
//@   ensures #m: 0 <= decMul(idx, ONE + decMul(rate, years(s1))) && decMul(idx, ONE + decMul(rate, years(s1))) <= decMul(idx, ONE + decMul(rate, years(s2))) && decMul(idx, ONE + decMul(rate, years(s2))) <= pow2(200) by #e
//@   apply DecQuoMonotone(decMul(idx, ONE + decMul(rate, years(s1))), decMul(idx, ONE + decMul(rate, years(s2))), idx)
//@   ensures #q: 0 <= growth(rate, idx, s1) && growth(rate, idx, s1) <= growth(rate, idx, s2) && growth(rate, idx, s2) <= pow2(120) by #m
//@   apply DecMulMonotone(amt, growth(rate, idx, s1), growth(rate, idx, s2))
//@   ensures #c18-mono-time: indexAccrual(amt, rate, idx, s1) <= indexAccrual(amt, rate, idx, s2) by #q

//@ pred growth(rate, idx, secs): decQuo(decMul(idx, ONE + decMul(rate, years(secs))), idx)

//@ lemma IndexAccrualMonotoneInRate(amt, r1, r2, idx, s)
//@   property C18
//@   requires 0 <= amt && amt <= pow2(63) * ONE && 0 <= r1 && r1 <= r2 && r2 <= 100 * ONE && 0 < idx && idx <= pow2(100) && 0 <= s && s <= pow2(40)
//@   ensures #e: 0 <= decMul(r1, years(s)) && decMul(r1, years(s)) <= decMul(r2, years(s)) && decMul(r2, years(s)) <= pow2(110)
//@   apply DecMulMonotone(idx, ONE + decMul(r1, years(s)), ONE + decMul(r2, years(s)))
//@   ensures #m: 0 <= decMul(idx, ONE + decMul(r1, years(s))) && decMul(idx, ONE + decMul(r1, years(s))) <= decMul(idx, ONE + decMul(r2, years(s))) && decMul(idx, ONE + decMul(r2, years(s))) <= pow2(200) by #e
//@   apply DecQuoMonotone(decMul(idx, ONE + decMul(r1, years(s))), decMul(idx, ONE + decMul(r2, years(s))), idx)
//@   ensures #q: 0 <= growth(r1, idx, s) && growth(r1, idx, s) <= growth(r2, idx, s) && growth(r2, idx, s) <= pow2(120) by #m
//@   apply DecMulMonotone(amt, growth(r1, idx, s), growth(r2, idx, s))
//@   ensures #c18-mono-rate: indexAccrual(amt, r1, idx, s) <= indexAccrual(amt, r2, idx, s) by #q

//@ lemma IndexAccrualMonotoneInPrincipal(a1, a2, f)
//@   property C18
//@   requires 0 <= a1 && a1 <= a2 && a2 <= pow2(63) * ONE && ONE <= f && f <= pow2(100)
//@   ensures slow #c18-mono-principal: decMul(a1, f) - a1 <= decMul(a2, f) - a2

// Two consecutive accruals on the same principal and index never yield more than one accrual over the combined interval,
// beyond the rounding of the five fixed-point operations (at most 6 units of the 18th decimal per whole unit of principal, plus 8).
//@ lemma IndexAccrualTwoIntervals(amt, rate, idx, s1, s2)
//@   property C18
//@   requires 0 <= amt && amt <= pow2(63) * ONE && 0 <= rate && rate <= 100 * ONE && ONE <= idx && idx <= pow2(100) && 0 <= s1 && 0 <= s2 && s1 + s2 <= pow2(40)
//@   ensures #y: years(s1) + years(s2) <= years(s1 + s2)
//@   ensures #e: decMul(rate, years(s1)) + decMul(rate, years(s2)) <= decMul(rate, years(s1 + s2)) + 1 by #y
//@   ensures #m: decMul(idx, ONE + decMul(rate, years(s1))) + decMul(idx, ONE + decMul(rate, years(s2))) <= decMul(idx, ONE + decMul(rate, years(s1 + s2))) + idx + idx / ONE + 3 by #e
//@   ensures #qa: 2 * idx * growth(rate, idx, s1) <= 2 * ONE * decMul(idx, ONE + decMul(rate, years(s1))) + idx
//@   ensures #qb: 2 * idx * growth(rate, idx, s2) <= 2 * ONE * decMul(idx, ONE + decMul(rate, years(s2))) + idx
//@   ensures #qc: 2 * idx * growth(rate, idx, s1 + s2) >= 2 * ONE * decMul(idx, ONE + decMul(rate, years(s1 + s2))) - idx - 2 * (idx / ONE) - 2
//@   ensures slow #q: growth(rate, idx, s1) + growth(rate, idx, s2) <= growth(rate, idx, s1 + s2) + ONE + 6 by #m, #qa, #qb, #qc
//@   ensures #f1: decMul(amt, growth(rate, idx, s1)) + decMul(amt, growth(rate, idx, s2)) <= decMul(amt, growth(rate, idx, s1) + growth(rate, idx, s2)) + 1
//@   apply DecMulMonotone(amt, growth(rate, idx, s1) + growth(rate, idx, s2), growth(rate, idx, s1 + s2) + ONE + 6)
//@   ensures slow #g: 0 <= growth(rate, idx, s1) + growth(rate, idx, s2) && growth(rate, idx, s1 + s2) + ONE + 6 <= pow2(120)
//@   ensures #f2: decMul(amt, growth(rate, idx, s1) + growth(rate, idx, s2)) <= decMul(amt, growth(rate, idx, s1 + s2) + ONE + 6) by #q, #g
//@   ensures #f3: decMul(amt, growth(rate, idx, s1 + s2) + ONE + 6) <= decMul(amt, growth(rate, idx, s1 + s2)) + amt + 6 * (amt / ONE) + 7
//@   ensures #c18-two-intervals: indexAccrual(amt, rate, idx, s1) + indexAccrual(amt, rate, idx, s2) <= indexAccrual(amt, rate, idx, s1 + s2) + 6 * (amt / ONE) + 8 by #f1, #f2, #f3

// Adding collateral to a borrow position (C12, C14): only the owner of the lend position behind the borrow may do it,
// never on a liquidated position, and not while the circuit breaker of the position's app is on.
//@ func (k Keeper) DepositBorrowAsset
//@   property C12, C14
//@   prune
//@   let b0 = k.GetBorrow(ctx, borrowID).0
//@   let bf0 = k.GetBorrow(ctx, borrowID).1
//@   let l0 = k.GetLend(ctx, b0.LendingID).0
//@   let lf0 = k.GetLend(ctx, b0.LendingID).1
//@   requires #borrow-keyed: bf0 ==> b0.ID == borrowID
//@   ensures [C12] #c12-owner: result == nil ==> bf0 && lf0 && addr == l0.Owner && !b0.IsLiquidated
//@   fails_if [C14] #c14-breaker: bf0 && lf0 && breakerOn(k, ctx, l0.AppID)
