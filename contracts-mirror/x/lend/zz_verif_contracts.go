//go:build verif

package lend

// Machine-checked contracts for the govc verifier (/verif). Comment-only; compiled only with -tags verif.

// Block hook (C15): it never panics, and all of its state changes happen inside wrapped all-or-nothing steps.
//@ func BeginBlocker
//@   property C15
//@   modifies nothing
//@   nopanic

// Genesis import (C20): whatever state an export produced, importing it never panics.
//@ func InitGenesis
//@   property C20
//@   nopanic
