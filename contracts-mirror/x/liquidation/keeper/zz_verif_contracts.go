//go:build verif

package keeper

// Machine-checked contracts for the govc verifier (/verif). Comment-only; compiled only with -tags verif.

// First-generation vault sweep, per-vault step (C14, C09): the step runs inside the iteration of one whitelisted app whose
// circuit breaker and emergency shutdown were checked by the enclosing loop (stated as precondition). It seizes (removes)
// the vault only if the vault belongs to THAT app - so a vault of an app with the breaker on is never seized during another
// app's iteration - and only if its ratio (principal + interest + closing fee) is below the product's minimum ratio.
//@ func (k Keeper) LiquidateVaults$1
//@   property C14, C09
//@   let app = appIds[i]
//@   let v0 = vault
//@   let ep = K("asset").GetPairsVault(ctx, vault.ExtendedPairVaultID).0
//@   requires #index: 0 <= i && i < len(appIds)
//@   requires #outer-loop-guard: !K("esm").GetKillSwitchData(ctx, appIds[i]).0.BreakerEnable && !(K("esm").GetESMStatus(ctx, appIds[i]).1 && K("esm").GetESMStatus(ctx, appIds[i]).0.Status)
//@   requires #vault-stored: K("vault").GetVault(ctx, vault.Id).1 && K("vault").GetVault(ctx, vault.Id).0 == vault
//@   letpost gone = !K("vault").GetVault(ctx, v0.Id).1
//@   ensures [C14] #c14-seized-only-in-own-app-iteration: result == nil && gone ==> v0.AppId == app
//@   ensures [C14] #c14-breaker-of-vault-app: result == nil && gone ==> !old(K("esm").GetKillSwitchData(ctx, v0.AppId).0.BreakerEnable) && !old(K("esm").GetESMStatus(ctx, v0.AppId).1 && K("esm").GetESMStatus(ctx, v0.AppId).0.Status)
//@   ensures [C09] #c09-only-unsafe: result == nil && gone ==> old(K("vault").CalculateCollateralizationRatio(ctx, v0.ExtendedPairVaultID, v0.AmountIn, v0.AmountOut + v0.InterestAccumulated + v0.ClosingFeeAccumulated).1 == nil && K("vault").CalculateCollateralizationRatio(ctx, v0.ExtendedPairVaultID, v0.AmountIn, v0.AmountOut + v0.InterestAccumulated + v0.ClosingFeeAccumulated).0 < ep.MinCr)
//@   cover #seizure-reachable: result == nil && gone

// First-generation vault sweep (C15): outside its wrapped per-vault steps the sweep itself never panics. In particular the
// batch window it cuts out of the vault list stays inside the list read in the same pass: the window is computed from the
// vault counter, and the counter never exceeds the number of vault records (a data invariant of x/vault, assumed here).
//@ func (k Keeper) LiquidateVaults
//@   property C15
//@   requires #count-matches-list: k.vault.GetLengthOfVault(ctx) <= len(k.vault.GetVaults(ctx))
//@   requires #batch-bound: k.GetParams(ctx).LiquidationBatchSize <= pow2(62) && len(k.vault.GetVaults(ctx)) <= pow2(62)
//@   loop 0 invariant assumed #count-matches-list: k.vault.GetLengthOfVault(ctx) <= len(k.vault.GetVaults(ctx))
//@   loop 0 invariant assumed #list-bound: len(k.vault.GetVaults(ctx)) <= pow2(62)
//@   nopanic

// Manual liquidation message of the first-generation module (C14, C09): refused while the circuit breaker or the emergency
// shutdown of the VAULT's own app is on (whatever app id the message names), and a vault is only ever seized when its
// ratio, at the oracle price in force, is below the product's minimum.
//@ func (k msgServer) MsgLiquidateVault
//@   property C14, C09
//@   prune
//@   let v0 = k.vault.GetVault(ctx, msg.VaultId).0
//@   let vf0 = k.vault.GetVault(ctx, msg.VaultId).1
//@   requires #vault-keyed: vf0 ==> v0.Id == msg.VaultId
//@   requires #app-keyed: k.GetAppIDByAppForLiquidation(ctx, msg.AppId).1 ==> k.GetAppIDByAppForLiquidation(ctx, msg.AppId).0 == msg.AppId
//@   fails_if [C14] #c14-breaker-of-the-vaults-app: vf0 && k.esm.GetKillSwitchData(ctx, v0.AppId).0.BreakerEnable
//@   fails_if [C14] #c14-esm-of-the-vaults-app: vf0 && k.esm.GetESMStatus(ctx, v0.AppId).1 && k.esm.GetESMStatus(ctx, v0.AppId).0.Status
//@   ensures [C09] #c09-only-unsafe-vaults-are-seized: ok && vf0 && !k.vault.GetVault(ctx, msg.VaultId).1 ==> old(k.vault.CalculateCollateralizationRatio(ctx, v0.ExtendedPairVaultID, v0.AmountIn, v0.AmountOut + v0.InterestAccumulated + v0.ClosingFeeAccumulated).1 == nil && k.vault.CalculateCollateralizationRatio(ctx, v0.ExtendedPairVaultID, v0.AmountIn, v0.AmountOut + v0.InterestAccumulated + v0.ClosingFeeAccumulated).0 < k.asset.GetPairsVault(ctx, v0.ExtendedPairVaultID).0.MinCr)
//@   requires #count-covers-this-vault: vf0 ==> k.vault.GetLengthOfVault(ctx) >= 1
//@   ensures [C09] #c09-vault-list-length-follows-the-seizure: ok && vf0 ==> k.vault.GetLengthOfVault(ctx) == old(k.vault.GetLengthOfVault(ctx)) - ite(k.vault.GetVault(ctx, msg.VaultId).1, 0, 1)
