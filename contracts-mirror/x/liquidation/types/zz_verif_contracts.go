//go:build verif

package types

// Machine-checked contracts for the govc verifier (/verif). Comment-only; compiled only with -tags verif.

// Sweep window arithmetic (C09): the window is inside the list, starts at the offset and makes progress.
// Bound: list lengths and batch sizes up to 2^62 (int overflow of offset+batchSize beyond that is not excluded by the code).
//@ func GetSliceStartEndForLiquidations
//@   property C09, C15
//@   requires sliceLen >= 0 && sliceLen <= pow2(62) && batchSize <= pow2(62)
//@   nopanic
//@   ensures #c09-bounds: 0 <= result0 && result0 <= result1 && result1 <= sliceLen
//@   ensures #c09-window: offset >= 0 && offset < sliceLen && batchSize > 0 ==> result0 == offset && result1 == min(offset + batchSize, sliceLen) && result1 > result0
//@   ensures #c09-wrap: (offset >= sliceLen || offset < 0 || batchSize < 0) ==> result0 == sliceLen && result1 == sliceLen
//@   ensures #c09-empty-batch: offset >= 0 && offset < sliceLen && batchSize == 0 ==> result0 == offset && result1 == offset
