//go:build verif

package liquidation

// Machine-checked contracts for the govc verifier (/verif). Comment-only; compiled only with -tags verif.

// Genesis import (C20): whatever state an export produced, importing it never panics.
//@ func InitGenesis
//@   property C20
//@   nopanic
