//go:build verif

package keeper

// Machine-checked contracts for the govc verifier (/verif). Comment-only; compiled only with -tags verif.

// The vault sweep of the begin-blocker never panics (C15): the window is cut from the real list, so the published vault
// counter must not exceed the number of stored vaults (this is C01's count invariant; a counter that runs ahead would panic here).
//@ func (k Keeper) LiquidateVaults
//@   property C15, C09
//@   requires #count-matches-list: k.vault.GetLengthOfVault(ctx) <= len(k.vault.GetVaults(ctx))
//@   requires #batch-bound: k.GetParams(ctx).LiquidationBatchSize <= pow2(62) && len(k.vault.GetVaults(ctx)) <= pow2(62)
//@   nopanic
//@   ensures [C09] #c09-sweep-isolates-item-failures: result == nil


//@ pred debtOf(v): v.AmountOut + v.InterestAccumulated + v.ClosingFeeAccumulated

// Seizure of a vault (C09): only a vault whose ratio (collateral value / principal + interest + closing fee, at the oracle
// price in force) is below the product's liquidation ratio is ever removed; emergency controls and a missing price stop it (C14);
// exactly the recorded collateral moves from vault custody to auction custody and the vault counter follows (C01).
//@ func (k Keeper) LiquidateIndividualVault
//@   property C09, C14, C01
//@   let v0 = k.vault.GetVault(ctx, vaultID).0
//@   let vf0 = k.vault.GetVault(ctx, vaultID).1
//@   let ep = k.asset.GetPairsVault(ctx, v0.ExtendedPairVaultID).0
//@   let pair = k.asset.GetPair(ctx, ep.PairId).0
//@   let din = k.asset.GetAsset(ctx, pair.AssetIn).0.Denom
//@   let cr0 = k.vault.CalculateCollateralizationRatio(ctx, v0.ExtendedPairVaultID, v0.AmountIn, debtOf(v0))
//@   requires #vault-keyed: vf0 ==> v0.Id == vaultID
//@   requires #distinct-modules: modaddr("vaultV1") != modaddr("auctionsV2")
//@   requires #count-covers-this-vault: vf0 ==> k.vault.GetLengthOfVault(ctx) >= 1
//@   letpost gone = !k.vault.GetVault(ctx, vaultID).1
//@   ensures [C09] #c09-only-unsafe: result == nil && vf0 && gone ==> cr0.1 == nil && cr0.0 < ep.MinCr
//@   ensures [C09] #c09-unsafe-is-seized: result == nil && vf0 && cr0.1 == nil && cr0.0 < ep.MinCr ==> gone
//@   ensures [C09] #c09-error-keeps-vault-record: vf0 && !gone ==> k.vault.GetVault(ctx, vaultID).0.AmountIn == v0.AmountIn && k.vault.GetVault(ctx, vaultID).0.AmountOut == v0.AmountOut && k.vault.GetVault(ctx, vaultID).0.Owner == v0.Owner
//@   fails_if [C14] #c14-breaker: vf0 && k.esm.GetKillSwitchData(ctx, v0.AppId).0.BreakerEnable
//@   fails_if [C14] #c14-esm: vf0 && k.esm.GetESMStatus(ctx, v0.AppId).1 && k.esm.GetESMStatus(ctx, v0.AppId).0.Status
//@   fails_if [C14] #c14-not-whitelisted: vf0 && !k.GetLiquidationWhiteListing(ctx, v0.AppId).1
//@   fails_if [C14] #c14-price-unavailable: vf0 && cr0.1 != nil
//@   ensures [C01] #c01-collateral-handed-over: result == nil && vf0 && gone ==> bal(modaddr("vaultV1"), din) == old(bal(modaddr("vaultV1"), din)) - v0.AmountIn && bal(modaddr("auctionsV2"), din) == old(bal(modaddr("auctionsV2"), din)) + v0.AmountIn
//@   ensures [C01] #c01-count: result == nil && vf0 ==> k.vault.GetLengthOfVault(ctx) == old(k.vault.GetLengthOfVault(ctx)) - ite(gone, 1, 0)
//@   ensures [C09] slow #c09-one-locked-vault: result == nil && vf0 && gone ==> k.GetLockedVaultID(ctx) == old(k.GetLockedVaultID(ctx)) + 1
//@   ensures [C01] #c01-frame-vaults: forall j :: j != vaultID ==> k.vault.GetVault(ctx, j) == old(k.vault.GetVault(ctx, j))

// The borrow sweep of the begin-blocker (C15, C09): it never panics, its only unprotected write is its own offset record
// (every per-borrow step is wrapped), and it keeps its offset under its own counter id without touching other sweeps' offsets.
//@ func (k Keeper) LiquidateBorrows
//@   property C15, C09
//@   modifies liquidationsV2
//@   requires #batch-bound: k.GetParams(ctx).LiquidationBatchSize <= pow2(62) && len(k.lend.GetBorrows(ctx).0) <= pow2(62)
//@   nopanic
//@   ensures [C09] #c09-sweep-isolates-item-failures: result == nil
//@   ensures [C09] #c09-own-offset: result == nil && k.lend.GetBorrows(ctx).1 ==> k.GetLiquidationOffsetHolder(ctx, "vault-liquidations", offsetCounterId).1 && k.GetLiquidationOffsetHolder(ctx, "vault-liquidations", offsetCounterId).0.AppId == offsetCounterId

// Note (C09): Keeper.Liquidate runs the vault sweep, the borrow sweep and the surplus/debt pass in sequence and stops at the
// first error; because each sweep is proved never to return an error (#c09-sweep-isolates-item-failures), the vault sweep
// cannot starve the borrow sweep.

// Per-vault step of the vault sweep (C01, C15): a step whose result is nil is committed by ApplyFuncIfNoError, so a step
// may report success only if the liquidation of its vault either did not start (vault and vault custody untouched) or
// completed (vault removed and exactly its collateral moved out of vault custody). A liquidation that failed part-way
// must make the step fail, otherwise the half-done transfer would be committed.
//@ func (k Keeper) LiquidateVaults$1
//@   property C01, C15
//@   let v0 = K("vault").GetVault(ctx, vault.Id).0
//@   let vf0 = K("vault").GetVault(ctx, vault.Id).1
//@   let ep = K("asset").GetPairsVault(ctx, v0.ExtendedPairVaultID).0
//@   let pair = K("asset").GetPair(ctx, ep.PairId).0
//@   let din = K("asset").GetAsset(ctx, pair.AssetIn).0.Denom
//@   let vm = modaddr("vaultV1")
//@   requires #vault-keyed: vf0 ==> v0.Id == vault.Id
//@   requires #count-covers-this-vault: vf0 ==> K("vault").GetLengthOfVault(ctx) >= 1
//@   letpost gone = !K("vault").GetVault(ctx, vault.Id).1
//@   ensures #c01-committed-step-is-complete: result == nil && vf0 ==> (gone && bal(vm, din) == old(bal(vm, din)) - v0.AmountIn) || (!gone && bal(vm, din) == old(bal(vm, din)))

// The surplus/debt pass (C09 support): whatever it does, it never touches the sweep offset records.
//@ func (k Keeper) LiquidateForSurplusAndDebt
//@   property C09
//@   modular
//@   modifies *
//@   loop 0 invariant #offsets-untouched: forall i :: k.GetLiquidationOffsetHolder(ctx, "vault-liquidations", i) == old(k.GetLiquidationOffsetHolder(ctx, "vault-liquidations", i))
//@   ensures #c09-offsets-untouched: forall i :: k.GetLiquidationOffsetHolder(ctx, "vault-liquidations", i) == old(k.GetLiquidationOffsetHolder(ctx, "vault-liquidations", i))

// Seizure of a borrow position (C09, C14), same-pool borrows: the position is marked liquidated only if, after interest
// accrual, value(principal + accrued interest) / value(pledged collateral) exceeds the (E-mode) liquidation threshold of the
// collateral asset at the oracle prices in force; a circuit breaker of the lender's app stops it.
//@ func (k Keeper) LiquidateIndividualBorrow
//@   property C09, C14
//@   prune
//@   let b0 = k.lend.GetBorrow(ctx, borrowID).0
//@   let bf0 = k.lend.GetBorrow(ctx, borrowID).1
//@   let pair = k.lend.GetLendPair(ctx, b0.PairID).0
//@   let l0 = k.lend.GetLend(ctx, b0.LendingID).0
//@   let ain = k.asset.GetAsset(ctx, pair.AssetIn).0
//@   let aout = k.asset.GetAsset(ctx, pair.AssetOut).0
//@   let rs = k.lend.GetAssetRatesParams(ctx, pair.AssetIn).0
//@   let thr = ite(pair.IsEModeEnabled, rs.ELiquidationThreshold, rs.LiquidationThreshold)
//@   requires #borrow-keyed: bf0 ==> b0.ID == borrowID
//@   letpost b1 = k.lend.GetBorrow(ctx, borrowID).0
//@   ensures [C09] #c09-borrow-only-unsafe: result == nil && bf0 && !b0.IsLiquidated && b1.IsLiquidated && b0.BridgedAssetAmount.Amount == 0 ==> K("lend").CalculateCollateralizationRatio(ctx, b1.AmountIn.Amount, ain, b1.AmountOut.Amount + trunc(b1.InterestAccumulated), aout).1 == nil && K("lend").CalculateCollateralizationRatio(ctx, b1.AmountIn.Amount, ain, b1.AmountOut.Amount + trunc(b1.InterestAccumulated), aout).0 > thr
//@   ensures [C09] #c09-bridged-borrow-priced: result == nil && bf0 && !b0.IsLiquidated && b1.IsLiquidated && b0.BridgedAssetAmount.Amount != 0 ==> K("lend").CalculateCollateralizationRatio(ctx, b1.AmountIn.Amount, ain, b1.AmountOut.Amount + trunc(b1.InterestAccumulated), aout).1 == nil
//@   fails_if [C14] #c14-breaker: bf0 && !b0.IsLiquidated && k.lend.GetLend(ctx, b0.LendingID).1 && k.esm.GetKillSwitchData(ctx, l0.AppID).0.BreakerEnable

// Handing a seized borrow to the auction (C08): the borrowed principal leaves the published total it was counted in - the
// stable total for a stable-rate borrow, the variable total otherwise - and the pledged collateral leaves the published
// lend total of its asset; the other total of the borrowed asset is untouched.
//@ func (k Keeper) UpdateLockedBorrows
//@   property C08
//@   let B = borrow
//@   let so0 = k.lend.GetAssetStatsByPoolIDAndAssetID(ctx, lendPair.AssetOutPoolID, lendPair.AssetOut).0
//@   let l0 = k.lend.GetLend(ctx, borrow.LendingID).0
//@   let sof0 = k.lend.GetAssetStatsByPoolIDAndAssetID(ctx, lendPair.AssetOutPoolID, lendPair.AssetOut).1
//@   let sif0 = k.lend.GetAssetStatsByPoolIDAndAssetID(ctx, k.lend.GetLend(ctx, borrow.LendingID).0.PoolID, k.lend.GetLend(ctx, borrow.LendingID).0.AssetID).1
//@   let si0 = k.lend.GetAssetStatsByPoolIDAndAssetID(ctx, l0.PoolID, l0.AssetID).0
//@   requires #out-stats-keyed: k.lend.GetAssetStatsByPoolIDAndAssetID(ctx, lendPair.AssetOutPoolID, lendPair.AssetOut).1 ==> so0.PoolID == lendPair.AssetOutPoolID && so0.AssetID == lendPair.AssetOut
//@   requires #in-stats-keyed: k.lend.GetAssetStatsByPoolIDAndAssetID(ctx, l0.PoolID, l0.AssetID).1 ==> si0.PoolID == l0.PoolID && si0.AssetID == l0.AssetID
//@   requires #totals-exist: sof0 && sif0
//@   requires #distinct-assets: !(l0.PoolID == lendPair.AssetOutPoolID && l0.AssetID == lendPair.AssetOut)
//@   letpost so1 = k.lend.GetAssetStatsByPoolIDAndAssetID(ctx, lendPair.AssetOutPoolID, lendPair.AssetOut).0
//@   letpost si1 = k.lend.GetAssetStatsByPoolIDAndAssetID(ctx, l0.PoolID, l0.AssetID).0
//@   ensures #c08-seized-principal-leaves-its-own-total: result == nil && sof0 ==> so1.TotalBorrowed == so0.TotalBorrowed - ite(B.IsStableBorrow, 0, B.AmountOut.Amount) && so1.TotalStableBorrowed == so0.TotalStableBorrowed - ite(B.IsStableBorrow, B.AmountOut.Amount, 0)
//@   ensures #c08-seized-collateral-leaves-lend-total: result == nil && sif0 ==> si1.TotalLend == si0.TotalLend - B.AmountIn.Amount

// Top-up of an under-collateralised auction out of the app reserve (C10): whenever the recorded reserve covers the amount
// (boundary included), exactly that amount of coins moves from the liquidation module account into auction custody and the
// recorded reserve is lowered by the same amount - coins and book move together.
//@ func (k Keeper) WithdrawAppReserveFundsFn
//@   property C10
//@   let r0 = k.GetAppReserveFunds(ctx, appId, assetId).0
//@   let lm = modaddr("liquidationsV2")
//@   let am = modaddr("auctionsV2")
//@   let d = tokenQuantity.Denom
//@   requires #reserve-keyed: k.GetAppReserveFunds(ctx, appId, assetId).1 ==> r0.AppId == appId && r0.AssetId == assetId
//@   letpost r1 = k.GetAppReserveFunds(ctx, appId, assetId).0
//@   ensures #c10-reserve-top-up-moves-coins-with-book: result == nil && r0.TokenQuantity.Amount >= tokenQuantity.Amount && tokenQuantity.Amount > 0 ==> bal(lm, d) == old(bal(lm, d)) - tokenQuantity.Amount && bal(am, d) == old(bal(am, d)) + tokenQuantity.Amount && r1.TokenQuantity.Amount == r0.TokenQuantity.Amount - tokenQuantity.Amount
//@   ensures #c10-reserve-book-lowered-by-the-request: result == nil ==> r1.TokenQuantity.Amount == r0.TokenQuantity.Amount - tokenQuantity.Amount
