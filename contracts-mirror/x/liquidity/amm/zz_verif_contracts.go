//go:build verif

package amm

// Machine-checked contracts for the govc verifier (/verif). Comment-only; compiled only with -tags verif.

// Deposit (C06): never takes more than offered; shares are minted at a rate no better than reserves per share,
// up to the half-ulp of the 18-digit mint proportion.
//@ func Deposit
//@   property C06
//@   requires rx >= 0 && ry >= 0 && rx + ry > 0 && ps > 0 && x >= 0 && y >= 0
//@   requires rx <= pow10(40) && ry <= pow10(40) && ps <= pow10(40) && x <= pow10(40) && y <= pow10(40)
//@   ensures #c06-nonneg: ax >= 0 && ay >= 0 && pc >= 0
//@   ensures #lem-pc-x: rx > 0 ==> pc * rx <= ps * x
//@   ensures #lem-pc-y: ry > 0 ==> pc * ry <= ps * y
//@   ensures slow #c06-ax-le-x: ax <= x by #lem-pc-x
//@   ensures slow #c06-ay-le-y: ay <= y by #lem-pc-y
//@   ensures #c06-rate-x: pc * rx * pow10(17) <= ax * ps * pow10(17) + rx * ps
//@   ensures #c06-rate-y: pc * ry * pow10(17) <= ay * ps * pow10(17) + ry * ps

// Withdraw (C06): at most the pro-rata part of the reserves reduced by the fee; the last shares take everything.
//@ func Withdraw
//@   property C06
//@   requires rx >= 0 && ry >= 0 && ps > 0 && pc > 0 && pc <= ps && feeRate >= 0 && feeRate <= ONE
//@   requires rx <= pow10(40) && ry <= pow10(40) && ps <= pow10(40)
//@   ensures #c06-last-shares: pc == ps ==> x == rx && y == ry
//@   ensures #c06-nonneg: x >= 0 && y >= 0
//@   ensures #c06-prorata-x: pc < ps ==> x * ps * ONE <= rx * pc * (ONE - feeRate)
//@   ensures #c06-prorata-y: pc < ps ==> y * ps * ONE <= ry * pc * (ONE - feeRate)
//@   ensures #c06-le-reserve: x <= rx && y <= ry

// Fill layer of batch matching (C05).
// MatchableAmount: never more than the open amount; a positive matchable amount is always worth at least one quote unit
// at the price (so a matched order receives a strictly positive amount on both sides of the book and both sides stay in
// step); for a buy order the quote needed for it (rounded up) fits into the unspent offer coin.
//@ func MatchableAmount
//@   property C05
//@   requires #order-shape: order.GetOpenAmount() >= 0 && order.GetOfferCoinAmount() >= order.GetPaidOfferCoinAmount() && order.GetPaidOfferCoinAmount() >= 0 && price > 0 && (order.GetDirection() == Buy || order.GetDirection() == Sell)
//@   ensures #c05-within-open: 0 <= result && result <= order.GetOpenAmount()
//@   ensures #c05-worth-a-quote-unit: result > 0 ==> trunc(price * result) >= 1
//@   ensures #c05-buy-fits-offer: order.GetDirection() == Buy ==> trunc(decCeil(price * result)) <= order.GetOfferCoinAmount() - order.GetPaidOfferCoinAmount()

// FillOrder: fills by amt at price, rounding against the order (buyers pay the ceiling, sellers receive the floor):
// it refuses (panics) to fill beyond the matchable amount; the open amount goes down by exactly amt; a buyer receives amt of
// base coin and pays ceil(price*amt) quote, never more than its unspent offer coin and less than one quote unit above its
// limit value; a seller pays amt and receives floor(price*amt); the returned quote difference is +paid / -received.
//@ func FillOrder
//@   property C05
//@   let open0 = order.GetOpenAmount()
//@   let paid0 = order.GetPaidOfferCoinAmount()
//@   let recv0 = order.GetReceivedDemandCoinAmount()
//@   let buy = order.GetDirection() == Buy
//@   requires #order-shape: open0 >= 0 && order.GetOfferCoinAmount() >= paid0 && paid0 >= 0 && recv0 >= 0 && price > 0 && amt >= 0 && (order.GetDirection() == Buy || order.GetDirection() == Sell)
//@   requires #sell-offer-is-amount: !buy ==> order.GetOfferCoinAmount() - paid0 >= open0
//@   ensures #c05-open-down-by-amt: order.GetOpenAmount() == open0 - amt && order.GetOpenAmount() >= 0
//@   ensures #c05-buy-fill: buy ==> order.GetReceivedDemandCoinAmount() == recv0 + amt && order.GetPaidOfferCoinAmount() == paid0 + trunc(decCeil(price * amt)) && result == trunc(decCeil(price * amt))
//@   ensures #c05-sell-fill: !buy ==> order.GetPaidOfferCoinAmount() == paid0 + amt && order.GetReceivedDemandCoinAmount() == recv0 + trunc(price * amt) && result == 0 - trunc(price * amt)
//@   ensures #c05-within-offer: order.GetPaidOfferCoinAmount() <= order.GetOfferCoinAmount()
//@   ensures #c05-buy-price-within-one-unit: buy ==> (order.GetPaidOfferCoinAmount() - paid0) * ONE < price * amt + ONE
//@   ensures #c05-sell-price-within-one-unit: !buy ==> (order.GetReceivedDemandCoinAmount() - recv0) * ONE > price * amt - ONE

// One buyer fill and one seller fill of the same amount at the same price: the quote paid is never less than the quote
// received, and the dust is less than one unit per pair of fills.
//@ lemma fill_pair_dust(price, amt)
//@   property C05
//@   requires price > 0 && amt >= 0
//@   ensures #c05-dust-nonneg: trunc(decCeil(price * amt)) - trunc(price * amt) >= 0
//@   ensures #c05-dust-below-one: trunc(decCeil(price * amt)) - trunc(price * amt) <= 1

// Accessors of the base order are plain field reads/writes (this justifies modelling amm.Order values as records of the
// type every implementer embeds).
//@ func (order *BaseOrder) GetOpenAmount
//@   property C05
//@   ensures #c05-accessor: result == order.OpenAmount
//@ func (order *BaseOrder) GetPaidOfferCoinAmount
//@   property C05
//@   ensures #c05-accessor: result == order.PaidOfferCoinAmount
//@ func (order *BaseOrder) GetReceivedDemandCoinAmount
//@   property C05
//@   ensures #c05-accessor: result == order.ReceivedDemandCoinAmount
//@ func (order *BaseOrder) GetOfferCoinAmount
//@   property C05
//@   ensures #c05-accessor: result == order.OfferCoinAmount
//@ func (order *BaseOrder) GetDirection
//@   property C05
//@   ensures #c05-accessor: result == order.Direction
//@ func (order *BaseOrder) SetOpenAmount
//@   property C05
//@   let o0 = order
//@   ensures #c05-setter: order.OpenAmount == amt && order.PaidOfferCoinAmount == old(order.PaidOfferCoinAmount) && order.ReceivedDemandCoinAmount == old(order.ReceivedDemandCoinAmount) && order.OfferCoinAmount == old(order.OfferCoinAmount) && order.Direction == old(order.Direction) && order.Amount == old(order.Amount)
//@ func (order *BaseOrder) SetPaidOfferCoinAmount
//@   property C05
//@   ensures #c05-setter: order.PaidOfferCoinAmount == amt && order.OpenAmount == old(order.OpenAmount) && order.ReceivedDemandCoinAmount == old(order.ReceivedDemandCoinAmount) && order.OfferCoinAmount == old(order.OfferCoinAmount) && order.Direction == old(order.Direction)
//@ func (order *BaseOrder) SetReceivedDemandCoinAmount
//@   property C05
//@   ensures #c05-setter: order.ReceivedDemandCoinAmount == amt && order.OpenAmount == old(order.OpenAmount) && order.PaidOfferCoinAmount == old(order.PaidOfferCoinAmount) && order.OfferCoinAmount == old(order.OfferCoinAmount) && order.Direction == old(order.Direction)

// Depletion test (C06): the request handlers disable a pool - and refuse every further deposit and withdrawal - when it
// reports itself depleted. A pool is depleted exactly when nothing can be redeemed from it: no shares are outstanding, or
// (ranged pool) both reserves are empty, (basic pool) one side is empty. A pool that still holds reserves of any size for
// its outstanding shares is never shut, so the last shares can always be redeemed for the entire remaining reserves.
//@ func (pool *RangedPool) IsDepleted
//@   property C06
//@   requires pool.rx >= 0 && pool.ry >= 0 && pool.ps >= 0
//@   ensures #c06-depleted-iff-nothing-to-redeem: result == (pool.ps == 0 || (pool.rx == 0 && pool.ry == 0))
//@ func (pool *BasicPool) IsDepleted
//@   property C06
//@   requires pool.rx >= 0 && pool.ry >= 0 && pool.ps >= 0
//@   ensures #c06-depleted-iff-a-side-is-empty: result == (pool.ps == 0 || pool.rx == 0 || pool.ry == 0)
