//go:build verif

package amm

// Machine-checked contracts for the govc verifier (/verif). Comment-only; compiled only with -tags verif.

// Deposit (C06): never takes more than offered; shares are minted at a rate no better than reserves per share,
// up to the half-ulp of the 18-digit mint proportion.
//@ func Deposit
//@   property C06
//@   requires rx >= 0 && ry >= 0 && rx + ry > 0 && ps > 0 && x >= 0 && y >= 0
//@   requires rx <= pow10(40) && ry <= pow10(40) && ps <= pow10(40) && x <= pow10(40) && y <= pow10(40)
//@   ensures #c06-nonneg: ax >= 0 && ay >= 0 && pc >= 0
//@   ensures #lem-pc-x: rx > 0 ==> pc * rx <= ps * x
//@   ensures #lem-pc-y: ry > 0 ==> pc * ry <= ps * y
//@   ensures slow #c06-ax-le-x: ax <= x by #lem-pc-x
//@   ensures slow #c06-ay-le-y: ay <= y by #lem-pc-y
//@   ensures #c06-rate-x: pc * rx * pow10(17) <= ax * ps * pow10(17) + rx * ps
//@   ensures #c06-rate-y: pc * ry * pow10(17) <= ay * ps * pow10(17) + ry * ps

// Withdraw (C06): at most the pro-rata part of the reserves reduced by the fee; the last shares take everything.
//@ func Withdraw
//@   property C06
//@   requires rx >= 0 && ry >= 0 && ps > 0 && pc > 0 && pc <= ps && feeRate >= 0 && feeRate <= ONE
//@   requires rx <= pow10(40) && ry <= pow10(40) && ps <= pow10(40)
//@   ensures #c06-last-shares: pc == ps ==> x == rx && y == ry
//@   ensures #c06-nonneg: x >= 0 && y >= 0
//@   ensures #c06-prorata-x: pc < ps ==> x * ps * ONE <= rx * pc * (ONE - feeRate)
//@   ensures #c06-prorata-y: pc < ps ==> y * ps * ONE <= ry * pc * (ONE - feeRate)
//@   ensures #c06-le-reserve: x <= rx && y <= ry
