//go:build verif

package keeper

// Machine-checked contracts for the govc verifier (/verif). Comment-only; compiled only with -tags verif.

// okTwa: representation invariant of a stored TimeWeightedAverage for a fixed window size n.
//@ pred okTwa(t, n): len(t.PriceValue) <= n && \
//@      (len(t.PriceValue) < n ==> t.CurrentIndex == len(t.PriceValue) && !t.IsPriceActive) && \
//@      (len(t.PriceValue) == n ==> t.CurrentIndex < n) && \
//@      (t.IsPriceActive ==> len(t.PriceValue) == n) && \
//@      (t.DiscardedHeightDiff == -1 || t.DiscardedHeightDiff >= 1) && \
//@      (t.DiscardedHeightDiff >= 1 ==> !t.IsPriceActive)

//@ func (k Keeper) CalculateTwa
//@   property C17
//@   modular
//@   modifies nothing
//@   requires twaBatch >= 1 && twaBatch <= len(twa.PriceValue)
//@   nopanic
//@   loop 0 invariant #range: 0 <= i && i <= twaBatch
//@   requires forall j :: 0 <= j && j < len(twa.PriceValue) ==> 0 <= twa.PriceValue[j] && twa.PriceValue[j] < pow2(64)
//@   loop 0 invariant #sum: sum == sum(twa.PriceValue, 0, i)
//@   loop 0 invariant #bound: 0 <= sum && sum <= i * (pow2(64) - 1)
//@   ensures #c17-mean: result == sum(twa.PriceValue, 0, twaBatch) / twaBatch

//@ func (k Keeper) UpdatePriceList
//@   property C17
//@   modular
//@   modifies market
//@   ensures #c17-frame: forall j :: j != id ==> k.GetTwa(ctx, j) == old(k.GetTwa(ctx, j))
//@   let t0 = k.GetTwa(ctx, id).0
//@   let f0 = k.GetTwa(ctx, id).1
//@   requires twaBatch >= 1 && twaBatch < pow2(31) && height() >= 1
//@   requires f0 ==> okTwa(t0, twaBatch) && t0.AssetID == id
//@   nopanic
//@   ensures #c17-inv: k.GetTwa(ctx, id).1 ==> okTwa(k.GetTwa(ctx, id).0, twaBatch) && k.GetTwa(ctx, id).0.AssetID == id
//@   ensures #c17-zero-deactivates: rate == 0 && f0 ==> !k.GetTwa(ctx, id).0.IsPriceActive
//@   ensures #c17-created-only-by-positive: !f0 && rate == 0 ==> !k.GetTwa(ctx, id).1
//@   ensures #c17-outage-start-kept: f0 && rate == 0 && t0.DiscardedHeightDiff >= 1 ==> k.GetTwa(ctx, id).0 == t0
//@   ensures #c17-outage-start-set: f0 && rate == 0 && t0.DiscardedHeightDiff == -1 ==> k.GetTwa(ctx, id).0.DiscardedHeightDiff == height() && \
//@        k.GetTwa(ctx, id).0.PriceValue == t0.PriceValue && k.GetTwa(ctx, id).0.CurrentIndex == t0.CurrentIndex
//@   ensures #c17-stale-window-discarded: f0 && rate > 0 && t0.DiscardedHeightDiff >= 1 && height() - t0.DiscardedHeightDiff >= acceptedBlockDiff ==> \
//@        len(k.GetTwa(ctx, id).0.PriceValue) == 1 && k.GetTwa(ctx, id).0.PriceValue[0] == rate && (twaBatch > 1 ==> !k.GetTwa(ctx, id).0.IsPriceActive)
//@   ensures #c17-short-outage-keeps-window: f0 && rate > 0 && t0.DiscardedHeightDiff >= 1 && height() - t0.DiscardedHeightDiff < acceptedBlockDiff && len(t0.PriceValue) == twaBatch ==> \
//@        k.GetTwa(ctx, id).0.IsPriceActive && k.GetTwa(ctx, id).0.PriceValue[t0.CurrentIndex] == rate
//@   ensures #c17-tracking-reset: rate > 0 && k.GetTwa(ctx, id).1 ==> k.GetTwa(ctx, id).0.DiscardedHeightDiff == -1
//@   ensures #c17-ring-step: f0 && rate > 0 && t0.IsPriceActive ==> k.GetTwa(ctx, id).0.IsPriceActive && \
//@        k.GetTwa(ctx, id).0.PriceValue[t0.CurrentIndex] == rate && \
//@        (forall j :: 0 <= j && j < twaBatch && j != t0.CurrentIndex ==> k.GetTwa(ctx, id).0.PriceValue[j] == t0.PriceValue[j]) && \
//@        k.GetTwa(ctx, id).0.CurrentIndex == ite(t0.CurrentIndex + 1 == twaBatch, 0, t0.CurrentIndex + 1)
//@   ensures #c17-fill-step: f0 && rate > 0 && t0.DiscardedHeightDiff == -1 && len(t0.PriceValue) < twaBatch ==> \
//@        len(k.GetTwa(ctx, id).0.PriceValue) == len(t0.PriceValue) + 1 && k.GetTwa(ctx, id).0.PriceValue[len(t0.PriceValue)] == rate && \
//@        (forall j :: 0 <= j && j < len(t0.PriceValue) ==> k.GetTwa(ctx, id).0.PriceValue[j] == t0.PriceValue[j]) && \
//@        (k.GetTwa(ctx, id).0.IsPriceActive <==> len(t0.PriceValue) + 1 == twaBatch)
//@   ensures #c17-first-sample: !f0 && rate > 0 ==> k.GetTwa(ctx, id).1 && len(k.GetTwa(ctx, id).0.PriceValue) == 1 && k.GetTwa(ctx, id).0.PriceValue[0] == rate && \
//@        (k.GetTwa(ctx, id).0.IsPriceActive <==> twaBatch == 1)
//@   ensures #c17-mean: k.GetTwa(ctx, id).1 && k.GetTwa(ctx, id).0.IsPriceActive && rate > 0 ==> \
//@        k.GetTwa(ctx, id).0.Twa == sum(k.GetTwa(ctx, id).0.PriceValue, 0, twaBatch) / twaBatch
//@   ensures #c17-zero-no-growth: rate == 0 ==> (k.GetTwa(ctx, id).1 <==> f0) && (f0 ==> len(k.GetTwa(ctx, id).0.PriceValue) == len(t0.PriceValue))

//@ func (k Keeper) GetLatestPrice
//@   property C17
//@   let t0 = k.GetTwa(ctx, id).0
//@   let f0 = k.GetTwa(ctx, id).1
//@   requires f0 && t0.IsPriceActive ==> t0.CurrentIndex < len(t0.PriceValue)
//@   nopanic
//@   ensures #c17-inactive-error: !(f0 && t0.IsPriceActive) ==> err != nil
//@   ensures #c17-active-ok: f0 && t0.IsPriceActive ==> err == nil

//@ func (k Keeper) CalcAssetPrice
//@   property C17, C03, C14
//@   pure
//@   let t0 = k.GetTwa(ctx, id).0
//@   let f0 = k.GetTwa(ctx, id).1
//@   let a0 = k.assetKeeper.GetAsset(ctx, id).0
//@   let af = k.assetKeeper.GetAsset(ctx, id).1
//@   ensures #inactive-error: !(f0 && t0.IsPriceActive) ==> err != nil
//@   ensures #no-asset-error: !af ==> err != nil
//@   ensures #value: err == nil ==> price == decQuo(decMul(amt * ONE, t0.Twa * ONE), a0.Decimals * ONE)
//@   ensures #ok-iff: af && f0 && t0.IsPriceActive && a0.Decimals != 0 ==> err == nil

// discOK: the outage marker of a record is either "not in an outage" (-1) or the height (>= 1) of the first zero sample.
//@ pred discOK(t): t.DiscardedHeightDiff == -1 || t.DiscardedHeightDiff >= 1

//@ func (k Keeper) GetAllTwa
//@   property C17
//@   modular
//@   modifies nothing
//@   requires forall i :: k.GetTwa(ctx, i).1 ==> discOK(k.GetTwa(ctx, i).0)
//@   nopanic
//@   loop 0 invariant #elems: forall j :: 0 <= j && j < len(twa) ==> discOK(twa[j])
//@   ensures #elems: forall j :: 0 <= j && j < len(twa) ==> discOK(twa[j])
