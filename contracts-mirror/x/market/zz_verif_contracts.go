//go:build verif

package market

// Machine-checked contracts for the govc verifier (/verif). Comment-only; compiled only with -tags verif.

// twaInv: every stored price record satisfies the ring-buffer invariant for the configured window size.
//@ pred twaInv(k, ctx, n): forall i :: k.GetTwa(ctx, i).1 ==> okTwaRec(k.GetTwa(ctx, i).0, n) && k.GetTwa(ctx, i).0.AssetID == i
//@ pred okTwaRec(t, n): len(t.PriceValue) <= n && \
//@      (len(t.PriceValue) < n ==> t.CurrentIndex == len(t.PriceValue) && !t.IsPriceActive) && \
//@      (len(t.PriceValue) == n ==> t.CurrentIndex < n) && \
//@      (t.IsPriceActive ==> len(t.PriceValue) == n) && \
//@      (t.DiscardedHeightDiff == -1 || t.DiscardedHeightDiff >= 1) && \
//@      (t.DiscardedHeightDiff >= 1 ==> !t.IsPriceActive)

//@ func BeginBlocker
//@   property C17, C15
//@   let n = bandKeeper.GetFetchPriceMsg(ctx).TwaBatchSize
//@   requires n >= 1 && n < pow2(31) && height() >= 1
//@   requires twaInv(k, ctx, n)
//@   nopanic
//@   loop 0 invariant #inv: twaInv(k, ctx, n)
//@   loop 1 invariant #index: index >= -1 && index < idx1
//@   loop 1 invariant #inv: twaInv(k, ctx, n)
//@   loop 1 invariant #batch: twaBatch == n

// Genesis import (C20): whatever state an export produced, importing it never panics.
//@ func InitGenesis
//@   property C20
//@   nopanic
