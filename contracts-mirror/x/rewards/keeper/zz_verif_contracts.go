//go:build verif

package keeper

// Machine-checked contracts for the govc verifier (/verif). Comment-only; compiled only with -tags verif.

// Per-epoch allocations of a gauge (C19): they sum exactly to the deposit and differ by at most one unit.
//@ func SplitTotalAmountPerEpoch
//@   property C19
//@   requires totalEpochs >= 1
//@   nopanic
//@   loop 0 invariant #len: i <= totalEpochs && len(splits) == i
//@   loop 0 invariant #sum: sum(splits, 0, i) == i * (totalAmount / totalEpochs)
//@   loop 0 invariant #each: forall j :: 0 <= j && j < i ==> splits[j] == totalAmount / totalEpochs
//@   loop 1 invariant #len: i <= totalEpochs && len(splits) == i
//@   loop 1 invariant #aux-epochs: totalEpochs >= 2 && zp >= 1 && zp < totalEpochs
//@   loop 1 invariant #aux-quot: pp * totalEpochs <= totalAmount && pp == totalAmount / totalEpochs && zp == totalEpochs - totalAmount % totalEpochs
//@   loop 1 invariant #sum: sum(splits, 0, i) == i * pp + max(0, i - zp)
//@   loop 1 invariant #each: forall j :: 0 <= j && j < i ==> splits[j] == pp || splits[j] == pp + 1
//@   ensures #c19-len: totalAmount >= totalEpochs ==> len(result) == totalEpochs
//@   ensures #c19-sum: totalAmount >= totalEpochs ==> sum(result, 0, totalEpochs) == totalAmount
//@   ensures #c19-even: forall j :: 0 <= j && j < len(result) ==> result[j] == totalAmount / totalEpochs || result[j] == totalAmount / totalEpochs + 1
//@   ensures #c19-underfunded: totalAmount < totalEpochs ==> len(result) == 0
