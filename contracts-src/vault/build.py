#!/usr/bin/env python3
# Builds /repo/x/vault/keeper/zz_verif_contracts.go from full.txt (hand-written clauses) and gen_guards.py (uniform guard clauses).
import re, subprocess, sys, os
here=os.path.dirname(os.path.abspath(__file__))
gen=subprocess.run([sys.executable, os.path.join(here,'gen_guards.py')],capture_output=True,text=True,check=True).stdout
full=open(os.path.join(here,'full.txt')).read()
gd={}
for b in re.split(r'\n(?=//@ func )', gen):
    m=re.match(r'//@ func \(k msgServer\) (\w+)', b)
    if m: gd[m.group(1)]=b
def merge(name, hand):
    g=gd.pop(name)
    glines=[l for l in g.strip().split('\n')[1:] if l.strip()]
    hlines=hand.rstrip().split('\n')
    props=set(); rest=[]; seen=set()
    for l in hlines[1:]+glines:
        s=l.strip()
        if not s.startswith('//@'): continue
        if s.startswith('//@   property'):
            props|=set(p.strip() for p in s[len('//@   property'):].split(',')); continue
        if s.startswith('//@   let ') or s.startswith('//@   requires #'):
            key=s.split(':')[0] if s.startswith('//@   requires') else s.split('=')[0]
            if key in seen: continue
            seen.add(key)
        rest.append(l)
    head=[l for l in rest if l.strip().startswith('//@   let ')]
    req=[l for l in rest if l.strip().startswith('//@   requires')]
    other=[l for l in rest if l not in head and l not in req]
    return '\n'.join([hlines[0],'//@   property '+', '.join(sorted(props))]+head+req+other)+'\n'
hb=re.split(r'\n(?=//@ func )', full)
out=[hb[0]]
for b in hb[1:]:
    m=re.match(r'//@ func \(k msgServer\) (\w+)', b)
    lines=b.rstrip('\n').split('\n')
    tail=[]
    while lines and not lines[-1].startswith('//@   '):
        tail.insert(0,lines.pop())
    body='\n'.join(lines)
    if m and m.group(1) in gd: out.append(merge(m.group(1), body))
    else: out.append(body+'\n')
    if tail: out.append('\n'.join(tail)+'\n')
for n,b in gd.items(): out.append(b.strip()+'\n')
hdr='''//go:build verif

package keeper

// Machine-checked contracts for the govc verifier (/verif). Comment-only; compiled only with -tags verif.
// Built by /verif/contracts-src/vault/build.py from full.txt and gen_guards.py.

'''
open('/repo/x/vault/keeper/zz_verif_contracts.go','w').write(hdr+'\n'.join(out))
