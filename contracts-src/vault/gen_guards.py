#!/usr/bin/env python3
# Generates the C12/C14 guard clauses that are uniform across the vault handlers (written into the contract file of x/vault/keeper).
handlers = {
 # name: (position getter, id field, esm_fails, cooloff)
 "MsgDeposit":  ("GetVault", "UserVaultId", True, False),
 "MsgWithdraw": ("GetVault", "UserVaultId", False, True),
 "MsgDraw":     ("GetVault", "UserVaultId", True, False),
 "MsgRepay":    ("GetVault", "UserVaultId", True, False),
 "MsgClose":    ("GetVault", "UserVaultId", True, False),
 "MsgDepositAndDraw": ("GetVault", "UserVaultId", True, False),
}
out=[]
for h,(getter,idf,esm,cool) in handlers.items():
    out.append(f"//@ func (k msgServer) {h}")
    out.append("//@   property C12, C14")
    out.append(f"//@   let v0 = k.{getter}(ctx, msg.{idf}).0")
    out.append(f"//@   let vf0 = k.{getter}(ctx, msg.{idf}).1")
    out.append("//@   requires #app-keyed: k.asset.GetApp(ctx, msg.AppId).1 ==> k.asset.GetApp(ctx, msg.AppId).0.Id == msg.AppId")
    out.append("//@   requires #pairsvault-keyed: k.asset.GetPairsVault(ctx, msg.ExtendedPairVaultId).1 ==> k.asset.GetPairsVault(ctx, msg.ExtendedPairVaultId).0.Id == msg.ExtendedPairVaultId")
    if h == "MsgDepositAndDraw":
        out.append("//@   requires #nonneg-book: forall a, b :: K(\"collector\").GetNetFeeCollectedData(ctx, a, b).1 ==> K(\"collector\").GetNetFeeCollectedData(ctx, a, b).0.NetFeesCollected >= 0")
    out.append("//@   ensures [C12] #c12-owner: ok ==> vf0 && msg.From == v0.Owner")
    out.append("//@   ensures [C12] #c12-own-app: ok ==> v0.AppId == msg.AppId && v0.ExtendedPairVaultID == msg.ExtendedPairVaultId")
    out.append("//@   fails_if [C14] #c14-breaker: k.esm.GetKillSwitchData(ctx, msg.AppId).0.BreakerEnable")
    out.append("//@   fails_if [C14] #c14-breaker-of-position: vf0 && k.esm.GetKillSwitchData(ctx, v0.AppId).0.BreakerEnable")
    if esm:
        out.append("//@   fails_if [C14] #c14-esm: k.esm.GetESMStatus(ctx, msg.AppId).1 && k.esm.GetESMStatus(ctx, msg.AppId).0.Status")
        out.append("//@   fails_if [C14] #c14-esm-of-position: vf0 && k.esm.GetESMStatus(ctx, v0.AppId).1 && k.esm.GetESMStatus(ctx, v0.AppId).0.Status")
    if cool:
        out.append("//@   fails_if [C14] #c14-cooloff: k.esm.GetESMStatus(ctx, msg.AppId).1 && k.esm.GetESMStatus(ctx, msg.AppId).0.Status && blocktime() > k.esm.GetESMStatus(ctx, msg.AppId).0.EndTime")
    out.append("")
print("\n".join(out))
