package keeper_test

import (
	sdk "github.com/cosmos/cosmos-sdk/types"

	"github.com/comdex-official/comdex/x/vault/types"
)

// Demonstration for property C02 (a successful create mints exactly the new principal and delivers principal minus
// the draw-down fee to the user). Zero draw-down fee, collateral with 6 decimals, debt asset with 12 decimals:
// 1000000000 collateral units are worth 1000000000000000 debt units; all of them are minted, the user must receive all of them.
// Fails on the unrepaired tree (the user receives msg.Amount = 1000000000 units, the rest of the mint stays in the
// vault module account), passes after the fix.
func (s *KeeperTestSuite) TestVerifC02CreateStableMintDeliversTheMint() {
	addr1 := s.addr(1)
	appID := s.CreateNewApp("appone")
	a1 := s.CreateNewAsset("ASSETONE", "uasset1", 1000000)
	a2 := s.CreateNewAsset("ASSETTWO", "uasset2", 1000000)
	asset2, _ := s.app.AssetKeeper.GetAsset(s.ctx, a2)
	asset2.Decimals = sdk.NewInt(1000000000000)
	s.app.AssetKeeper.SetAsset(s.ctx, asset2)
	pairID := s.CreateNewPair(addr1, a1, a2)
	epID := s.CreateNewExtendedVaultPair("CMDX-C", appID, pairID, true, true)
	ep, _ := s.app.AssetKeeper.GetPairsVault(s.ctx, epID)
	ep.DrawDownFee = sdk.ZeroDec()
	s.app.AssetKeeper.SetPairsVault(s.ctx, ep)

	amt := newInt(1000000000)
	s.fundAddr(addr1, sdk.NewCoins(sdk.NewCoin("uasset1", amt)))
	supplyBefore := s.app.BankKeeper.GetSupply(s.ctx, "uasset2").Amount
	_, err := s.msgServer.MsgCreateStableMint(sdk.WrapSDKContext(s.ctx), types.NewMsgCreateStableMintRequest(addr1, appID, epID, amt))
	s.Require().NoError(err)
	minted := s.app.BankKeeper.GetSupply(s.ctx, "uasset2").Amount.Sub(supplyBefore)
	got := s.app.BankKeeper.GetBalance(s.ctx, addr1, "uasset2").Amount
	vaults := s.querier.GetStableMintVaults(s.ctx)
	s.Require().Equal(minted, vaults[len(vaults)-1].AmountOut, "recorded principal is the minted amount")
	s.Require().Equal(minted.String(), got.String(), "minted %s, user received %s (zero draw-down fee)", minted, got)
	left := s.app.BankKeeper.GetBalance(s.ctx, s.app.AccountKeeper.GetModuleAddress(types.ModuleName), "uasset2").Amount
	s.Require().True(left.IsZero(), "%s of the mint stays in the vault module account", left)
}
