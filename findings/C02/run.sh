#!/bin/bash
# Runs the C02 stable-mint demonstration against /repo's working tree without writing to it (go test -overlay).
export GOFLAGS=-mod=mod GOPROXY=off GOSUMDB=off GOTOOLCHAIN=local
d=$(mktemp -d)
printf '{"Replace":{"/repo/x/vault/keeper/zz_verif_c02_demo_test.go":"/verif/findings/C02/create_stable_mint_demo_test.go"}}' > $d/ov.json
cd /repo && go test -overlay $d/ov.json -vet=off -count=1 -timeout 600s -run 'TestKeeperTestSuite/TestVerifC02' ./x/vault/keeper/ 2>&1 | tail -30
rc=${PIPESTATUS[0]}
rm -rf $d
exit $rc
