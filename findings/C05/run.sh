#!/bin/bash
# Demonstrates the C05 base-coin conservation defect on the real code.
export GOFLAGS=-mod=mod GOPROXY=off GOSUMDB=off GOTOOLCHAIN=local
repo=${VERIF_REPO:-/repo}
d=$(mktemp -d)
printf '{"Replace":{"%s/x/liquidity/amm/zz_verif_c05_demo_test.go":"/verif/findings/C05/zz_c05_demo_test.go"}}' $repo > $d/ov.json
cd $repo && go test -overlay $d/ov.json -vet=off -count=1 -timeout 600s -v -run 'TestVerifC05BaseCoinConservedAtSubUnitPrice' ./x/liquidity/amm/ 2>&1 | tail -15
rc=${PIPESTATUS[0]}
rm -rf $d
exit $rc
