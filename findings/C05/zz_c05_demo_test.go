package amm_test

import (
	"testing"

	sdkmath "cosmossdk.io/math"

	utils "github.com/comdex-official/comdex/types"
	"github.com/comdex-official/comdex/x/liquidity/amm"
)

// Demonstration (property C05, "the base coin received by buyers equals the base coin paid by sellers"): one buy order of
// 1003 and two sell orders of 4 and 1000, all at price 0.299, matched with last price 0.3.
func TestVerifC05BaseCoinConservedAtSubUnitPrice(t *testing.T) {
	p := utils.ParseDec("0.299")
	buy := amm.NewBaseOrder(amm.Buy, p, sdkmath.NewInt(1003), amm.OfferCoinAmount(amm.Buy, p, sdkmath.NewInt(1003)))
	s1 := amm.NewBaseOrder(amm.Sell, p, sdkmath.NewInt(4), sdkmath.NewInt(4))
	s2 := amm.NewBaseOrder(amm.Sell, p, sdkmath.NewInt(1000), sdkmath.NewInt(1000))
	ob := amm.NewOrderBook()
	ob.AddOrder(buy, s1, s2)
	matchPrice, diff, matched := ob.Match(utils.ParseDec("0.3"))
	t.Logf("matched=%v matchPrice=%s quoteCoinDiff=%s", matched, matchPrice, diff)
	for _, o := range []*amm.BaseOrder{buy, s1, s2} {
		t.Logf("%s amount=%s open=%s paid=%s received=%s", o.GetDirection(), o.GetAmount(), o.GetOpenAmount(), o.GetPaidOfferCoinAmount(), o.GetReceivedDemandCoinAmount())
	}
	sellersPaid := s1.GetPaidOfferCoinAmount().Add(s2.GetPaidOfferCoinAmount())
	buyersGot := buy.GetReceivedDemandCoinAmount()
	if !sellersPaid.Equal(buyersGot) {
		t.Fatalf("base coin not conserved: sellers paid %s, buyers received %s", sellersPaid, buyersGot)
	}
}
