package keeper_test

import (
	"time"

	sdkmath "cosmossdk.io/math"

	utils "github.com/comdex-official/comdex/types"
	"github.com/comdex-official/comdex/x/liquidity/types"
)

// Demonstration for property C07 ("cancelling or replacing market-making orders cancels and refunds every previously
// placed market-making order of that owner in that pair ... for every combination of app id and pair id").
// The existing tests use app 1 / pair 1 only. Here the pair id (2) differs from the app id (1).
// Fails on the unrepaired tree (previous orders stay live, index removed), passes after the fix.
func (s *KeeperTestSuite) TestVerifC07CancelMMOrderWithPairIdDifferentFromAppId() {
	appID := s.CreateNewApp("appone")
	asset1 := s.CreateNewAsset("ASSETONE", "denom1", 1000000)
	asset2 := s.CreateNewAsset("ASSETTWO", "denom2", 2000000)
	asset3 := s.CreateNewAsset("ASSETTHREE", "denom3", 2000000)
	_ = s.CreateNewLiquidityPair(appID, s.addr(0), asset1.Denom, asset3.Denom) // pair 1
	pair := s.CreateNewLiquidityPair(appID, s.addr(0), asset1.Denom, asset2.Denom) // pair 2
	s.Require().NotEqual(appID, pair.Id)
	pair.LastPrice = utils.ParseDecP("1.0")
	s.keeper.SetPair(s.ctx, pair)

	s.MarketMakingOrder(
		s.addr(1), appID, pair.Id,
		utils.ParseDec("1.1"), utils.ParseDec("1.03"), sdkmath.NewInt(1000_000000),
		utils.ParseDec("0.97"), utils.ParseDec("0.9"), sdkmath.NewInt(1000_000000),
		10*time.Second, true)
	s.nextBlock()

	before := s.getBalances(s.addr(1))
	ids, err := s.keeper.CancelMMOrder(s.ctx, types.NewMsgCancelMMOrder(appID, s.addr(1), pair.Id))
	s.Require().NoError(err)
	s.Require().NotEmpty(ids, "no previously placed market-making order was cancelled")
	live := 0
	for _, o := range s.keeper.GetAllOrders(s.ctx, appID) {
		if o.Type == types.OrderTypeMM && o.Status.CanBeCanceled() {
			live++
		}
	}
	s.Require().Zero(live, "market-making orders still live after CancelMMOrder succeeded")
	after := s.getBalances(s.addr(1))
	s.Require().True(after.IsAllGTE(before) && !after.IsEqual(before), "nothing was refunded: %s -> %s", before, after)
}
