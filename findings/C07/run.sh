#!/bin/bash
# Runs the C07 market-making cancel demonstration against /repo's working tree without writing to it (go test -overlay).
export GOFLAGS=-mod=mod GOPROXY=off GOSUMDB=off GOTOOLCHAIN=local
d=$(mktemp -d)
printf '{"Replace":{"/repo/x/liquidity/keeper/zz_verif_c07_demo_test.go":"/verif/findings/C07/cancel_mm_order_demo_test.go"}}' > $d/ov.json
cd /repo && go test -overlay $d/ov.json -vet=off -count=1 -timeout 600s -run 'TestKeeperTestSuite/TestVerifC07' ./x/liquidity/keeper/ 2>&1 | tail -30
rc=${PIPESTATUS[0]}
rm -rf $d
exit $rc
