#!/bin/bash
# Runs the C11 limit-bid demonstration against /repo's working tree without writing to it (go test -overlay).
export GOFLAGS=-mod=mod GOPROXY=off GOSUMDB=off GOTOOLCHAIN=local
d=$(mktemp -d)
printf '{"Replace":{"/repo/x/auctionsV2/keeper/zz_verif_c11_demo_test.go":"/verif/findings/C11/withdraw_limit_bid_demo_test.go"}}' > $d/ov.json
cd /repo && go test -overlay $d/ov.json -vet=off -count=1 -timeout 300s -run 'TestKeeperTestSuite/TestVerifC11' ./x/auctionsV2/keeper/ 2>&1 | tail -30
rc=${PIPESTATUS[0]}
rm -rf $d
exit $rc
