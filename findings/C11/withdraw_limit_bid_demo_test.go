package keeper_test

import (
	sdk "github.com/cosmos/cosmos-sdk/types"

	auctionsV2types "github.com/comdex-official/comdex/x/auctionsV2/types"
)

// Demonstration for property C11 (limit-bid depositor can withdraw at most their own deposit, in the deposited asset).
// Run with: go test -overlay (see run.sh). Fails on the unrepaired tree, passes after the fix.
func (s *KeeperTestSuite) TestVerifC11WithdrawLimitBidOwnDepositOnly() {
	s.TestDepositLimitBid() // bidder deposits 1000000uasset2 for (collateral 1, debt 2, premium 2)
	bidder := "cosmos1hm7w7dnvdnra78pz9qxysy7u4tuhc3fnpjmyj7"
	bidderAddr, _ := sdk.AccAddressFromBech32(bidder)
	modAddr := s.app.AccountKeeper.GetModuleAddress(auctionsV2types.ModuleName)

	// someone else's coins of a different asset sit in the same module account
	s.fundAddr(bidderAddr, sdk.NewCoins(sdk.NewCoin("uasset1", sdk.NewInt(7000000))))
	s.Require().NoError(s.app.BankKeeper.SendCoinsFromAccountToModule(s.ctx, bidderAddr, auctionsV2types.ModuleName, sdk.NewCoins(sdk.NewCoin("uasset1", sdk.NewInt(7000000)))))
	before1 := s.app.BankKeeper.GetBalance(s.ctx, modAddr, "uasset1").Amount
	before2 := s.app.BankKeeper.GetBalance(s.ctx, modAddr, "uasset2").Amount

	// (a) wrong denomination
	msg := auctionsV2types.NewMsgWithdrawLimitBid(bidder, 1, 2, sdk.NewInt(2), sdk.NewCoin("uasset1", sdk.NewInt(500000)))
	s.Require().NoError(msg.ValidateBasic())
	_, errA := s.auctionMsgServer.MsgWithdrawLimitBid(sdk.WrapSDKContext(s.ctx), msg)
	after1 := s.app.BankKeeper.GetBalance(s.ctx, modAddr, "uasset1").Amount
	s.Require().True(errA != nil || after1.Equal(before1), "withdrew %s uasset1 against a uasset2 deposit", before1.Sub(after1))

	// (b) more than the deposit
	msg = auctionsV2types.NewMsgWithdrawLimitBid(bidder, 1, 2, sdk.NewInt(2), sdk.NewCoin("uasset2", before2))
	ub, _ := s.keeper.GetUserLimitBidData(s.ctx, 2, 1, sdk.NewInt(2), bidder)
	if before2.GT(ub.DebtToken.Amount) {
		_, errB := s.auctionMsgServer.MsgWithdrawLimitBid(sdk.WrapSDKContext(s.ctx), msg)
		s.Require().Error(errB, "withdrew %s against a deposit of %s", before2, ub.DebtToken.Amount)
	}
	ub, _ = s.keeper.GetUserLimitBidData(s.ctx, 2, 1, sdk.NewInt(2), bidder)
	s.Require().False(ub.DebtToken.Amount.IsNegative(), "recorded deposit went negative: %s", ub.DebtToken.Amount)
}
