#!/bin/bash
# Demonstrates the C11 limit-bid bookkeeping defect on the real code (fails before the fix, passes after it).
export GOFLAGS=-mod=mod GOPROXY=off GOSUMDB=off GOTOOLCHAIN=local
repo=${VERIF_REPO:-/repo}
d=$(mktemp -d)
printf '{"Replace":{"%s/x/auctionsV2/keeper/zz_verif_c11b_demo_test.go":"/verif/findings/C11b/zz_c11_limit_fill_demo_test.go"}}' $repo > $d/ov.json
cd $repo && go test -overlay $d/ov.json -vet=off -count=1 -timeout 600s -run 'TestKeeperTestSuite' ./x/auctionsV2/keeper/ -testify.m 'TestVerifC11LimitBidEqualToAuctionDebtAutoFill' 2>&1 | grep -v "^I\[" | tail -25
rc=${PIPESTATUS[0]}
rm -rf $d
exit $rc
