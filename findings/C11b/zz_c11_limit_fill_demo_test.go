package keeper_test

import (
	utils "github.com/comdex-official/comdex/types"
	"github.com/comdex-official/comdex/x/auctionsV2"
	sdk "github.com/cosmos/cosmos-sdk/types"
)

// Demonstration (property C11, "the recorded total of limit bids equals the sum of individual deposits"): a limit bid whose
// deposit EXACTLY equals the outstanding debt of the dutch auction it is matched with is consumed by the automatic fill
// (begin blocker), the depositor's record is removed - and the recorded total of the pair must drop by that deposit.
func (s *KeeperTestSuite) TestVerifC11LimitBidEqualToAuctionDebtAutoFill() {
	s.ctx = s.ctx.WithBlockTime(utils.ParseTime("2023-06-01T12:00:00Z"))
	s.TestLiquidateVaults()
	auctions := s.keeper.GetAuctions(s.ctx)
	s.Require().Len(auctions, 2)
	debtID, collID := auctions[0].DebtAssetId, auctions[0].CollateralAssetId
	debtDenom := auctions[0].DebtToken.Denom

	bidderA := "cosmos1hm7w7dnvdnra78pz9qxysy7u4tuhc3fnpjmyj7"
	bidderB := "cosmos1yq8lgssgxlx9smjhes6ryjasmqmd3ts2559g0t"
	// the app reserve is funded so that a closing bid can be settled (as in the existing TestLimitBid)
	s.Require().NoError(s.liquidationKeeper.MsgAppReserveFundsFn(s.ctx, bidderA, 2, 3, sdk.NewCoin("uasset3", sdk.NewInt(5990000))))
	exact := sdk.NewCoin(debtDenom, auctions[0].DebtToken.Amount)
	other := sdk.NewCoin(debtDenom, sdk.NewInt(300000))
	s.Require().NoError(s.keeper.DepositLimitAuctionBid(s.ctx, bidderA, collID, debtID, sdk.NewInt(9), exact))
	s.Require().NoError(s.keeper.DepositLimitAuctionBid(s.ctx, bidderB, collID, debtID, sdk.NewInt(25), other))
	pd, found := s.keeper.GetLimitBidProtocolDataByAssetID(s.ctx, debtID, collID)
	s.Require().True(found)
	s.Require().Equal(exact.Amount.Add(other.Amount).String(), pd.BidValue.String())

	s.ctx = s.ctx.WithBlockTime(utils.ParseTime("2023-06-01T12:49:00Z"))
	auctionsV2.BeginBlocker(s.ctx, s.keeper)

	_, found = s.keeper.GetUserLimitBidData(s.ctx, debtID, collID, sdk.NewInt(9), bidderA)
	s.Require().False(found, "the bid of A must have been consumed by the automatic fill")
	sum := sdk.ZeroInt()
	for _, b := range []string{bidderA, bidderB} {
		amt, _ := s.keeper.GetUserLimitBidsByAssetID(s.ctx, b, debtID, collID)
		sum = sum.Add(amt)
	}
	pd, _ = s.keeper.GetLimitBidProtocolDataByAssetID(s.ctx, debtID, collID)
	s.Require().Equal(sum.String(), pd.BidValue.String(), "recorded total of limit bids must equal the sum of the individual deposits")
}
