package app_test

// C20 demonstration: ExportGenesis -> InitGenesis (fresh app) round trip of the DeFi modules.
//
// Every module-level sub-test
//   1. builds state on app A through the keeper's real setters or a real handler,
//   2. calls the module's ExportGenesis on A,
//   3. calls the module's InitGenesis on a FRESH app B (app.Setup again) with the exported state,
//   4. compares keeper getters (or gRPC queries) on A and B, one inner sub-test per store family.
//
// A failing inner sub-test == state of that family is lost/changed by the round trip (confirmed genuine).
// Inner sub-tests named "...(control)" are families triaged as derived-ok and are expected to PASS.

import (
	"fmt"
	"testing"
	"time"

	tmproto "github.com/cometbft/cometbft/proto/tendermint/types"
	"github.com/cosmos/cosmos-sdk/crypto/keys/secp256k1"
	sdk "github.com/cosmos/cosmos-sdk/types"

	"github.com/comdex-official/comdex/app"
	"github.com/comdex-official/comdex/x/asset"
	assettypes "github.com/comdex-official/comdex/x/asset/types"
	"github.com/comdex-official/comdex/x/auction"
	auctiontypes "github.com/comdex-official/comdex/x/auction/types"
	"github.com/comdex-official/comdex/x/auctionsV2"
	auctionsV2keeper "github.com/comdex-official/comdex/x/auctionsV2/keeper"
	auctionsV2types "github.com/comdex-official/comdex/x/auctionsV2/types"
	"github.com/comdex-official/comdex/x/bandoracle"
	bandoracletypes "github.com/comdex-official/comdex/x/bandoracle/types"
	"github.com/comdex-official/comdex/x/collector"
	"github.com/comdex-official/comdex/x/esm"
	esmtypes "github.com/comdex-official/comdex/x/esm/types"
	"github.com/comdex-official/comdex/x/lend"
	lendtypes "github.com/comdex-official/comdex/x/lend/types"
	"github.com/comdex-official/comdex/x/liquidation"
	liquidationtypes "github.com/comdex-official/comdex/x/liquidation/types"
	"github.com/comdex-official/comdex/x/liquidationsV2"
	liquidationsV2types "github.com/comdex-official/comdex/x/liquidationsV2/types"
	"github.com/comdex-official/comdex/x/locker"
	lockertypes "github.com/comdex-official/comdex/x/locker/types"
	"github.com/comdex-official/comdex/x/rewards"
	rewardstypes "github.com/comdex-official/comdex/x/rewards/types"
	"github.com/comdex-official/comdex/x/vault"
	vaulttypes "github.com/comdex-official/comdex/x/vault/types"
)

func c20Fresh(t *testing.T) (*app.App, sdk.Context) {
	t.Helper()
	a := app.Setup(t, false)
	ctx := a.BaseApp.NewContext(false, tmproto.Header{Height: 10, Time: time.Unix(1700000000, 0).UTC()})
	return a, ctx
}

func c20Addr() sdk.AccAddress {
	return sdk.AccAddress(secp256k1.GenPrivKey().PubKey().Address())
}

// c20Module runs a module-level scenario and converts panics into test failures so that one module
// cannot hide the others.
func c20Module(t *testing.T, name string, f func(t *testing.T)) {
	t.Run(name, func(t *testing.T) {
		defer func() {
			if r := recover(); r != nil {
				t.Errorf("PANIC in %s round trip: %v", name, r)
			}
		}()
		f(t)
	})
}

func c20EqU64(t *testing.T, what string, before, after uint64) {
	t.Helper()
	if before != after {
		t.Errorf("LOST BY EXPORT/IMPORT: %s: original chain = %d, re-imported chain = %d", what, before, after)
	}
}

func c20EqStr(t *testing.T, what string, before, after string) {
	t.Helper()
	if before != after {
		t.Errorf("LOST BY EXPORT/IMPORT: %s:\n  original chain    = %s\n  re-imported chain = %s", what, before, after)
	}
}

func TestZZC20(t *testing.T) {
	now := time.Unix(1700000000, 0).UTC()
	user := c20Addr().String()

	// ------------------------------------------------------------------ vault
	c20Module(t, "vault", func(t *testing.T) {
		a, ca := c20Fresh(t)
		k := a.VaultKeeper
		mk := func(id uint64) vaulttypes.Vault {
			return vaulttypes.Vault{Id: id, AppId: 1, ExtendedPairVaultID: 1, Owner: user,
				AmountIn: sdk.NewInt(1000), AmountOut: sdk.NewInt(500), CreatedAt: now,
				InterestAccumulated: sdk.ZeroInt(), ClosingFeeAccumulated: sdk.ZeroInt(), BlockHeight: 5, BlockTime: now}
		}
		// two vaults opened (ids 1,2), counter = 2 (what MsgCreate does), then the newest is closed
		// (MsgClose / liquidation / ESM all end in DeleteVault).
		k.SetVault(ca, mk(1))
		k.SetVault(ca, mk(2))
		k.SetIDForVault(ca, 2)
		k.SetLengthOfVault(ca, 2)
		k.DeleteVault(ca, 2)
		k.SetLengthOfVault(ca, 1)
		// stable-mint vaults are never deleted: counter should survive (control)
		k.SetStableMintVault(ca, vaulttypes.StableMintVault{Id: 1, AmountIn: sdk.NewInt(1), AmountOut: sdk.NewInt(1), AppId: 1, ExtendedPairVaultID: 2, CreatedAt: now})
		k.SetStableMintVault(ca, vaulttypes.StableMintVault{Id: 2, AmountIn: sdk.NewInt(1), AmountOut: sdk.NewInt(1), AppId: 1, ExtendedPairVaultID: 3, CreatedAt: now})
		k.SetIDForStableVault(ca, 2)
		// stable-mint reward tracking entry (written by MsgCreateStableMint/MsgDepositStableMint)
		k.SetStableMintVaultRewards(ca, vaulttypes.StableMintVaultRewards{AppId: 1, StableExtendedPairId: 2, User: user, BlockHeight: 7, Amount: sdk.NewInt(777)})

		gs := vault.ExportGenesis(ca, k)
		b, cb := c20Fresh(t)
		vault.InitGenesis(cb, b.VaultKeeper, gs)

		t.Run("VaultIDPrefix", func(t *testing.T) {
			c20EqU64(t, "vault id counter after closing the newest vault (next vault id = counter+1)", k.GetIDForVault(ca), b.VaultKeeper.GetIDForVault(cb))
		})
		t.Run("StableVaultRewardsKeyPrefix", func(t *testing.T) {
			ra, _ := k.GetStableMintVaultUserRewards(ca, 1, user)
			rb, _ := b.VaultKeeper.GetStableMintVaultUserRewards(cb, 1, user)
			c20EqStr(t, "stable-mint vault reward entries of user", fmt.Sprint(ra), fmt.Sprint(rb))
		})
		t.Run("StableVaultIDPrefix(control)", func(t *testing.T) {
			c20EqU64(t, "stable vault id counter", k.GetIDForStableVault(ca), b.VaultKeeper.GetIDForStableVault(cb))
		})
	})

	// ------------------------------------------------------------------ locker
	c20Module(t, "locker", func(t *testing.T) {
		a, ca := c20Fresh(t)
		k := a.LockerKeeper
		k.SetLocker(ca, lockertypes.Locker{LockerId: 1, Depositor: user, ReturnsAccumulated: sdk.ZeroInt(), NetBalance: sdk.NewInt(100), CreatedAt: now, AssetDepositId: 1, IsLocked: false, AppId: 1, BlockHeight: 5, BlockTime: now})
		k.SetIDForLocker(ca, 1) // exactly what MsgCreateLocker does (id+1)

		gs := locker.ExportGenesis(ca, k)
		b, cb := c20Fresh(t)
		locker.InitGenesis(cb, b.LockerKeeper, gs)

		t.Run("LockerIDPrefix", func(t *testing.T) {
			_, found := b.LockerKeeper.GetLocker(cb, 1)
			if !found {
				t.Errorf("locker 1 itself not restored")
			}
			c20EqU64(t, "locker id counter (locker 1 exists; the next MsgCreateLocker on the re-imported chain re-uses id 1 and overwrites it)", k.GetIDForLocker(ca), b.LockerKeeper.GetIDForLocker(cb))
		})
	})

	// ------------------------------------------------------------------ lend
	c20Module(t, "lend", func(t *testing.T) {
		a, ca := c20Fresh(t)
		k := a.LendKeeper
		mkLend := func(id uint64) lendtypes.LendAsset {
			return lendtypes.LendAsset{ID: id, AssetID: 1, PoolID: 1, Owner: user, AmountIn: sdk.NewInt64Coin("uasset", 100), LendingTime: now,
				AvailableToBorrow: sdk.NewInt(100), AppID: 3, GlobalIndex: sdk.OneDec(), LastInteractionTime: now, CPoolName: "cp", TotalRewards: sdk.ZeroInt()}
		}
		mkBorrow := func(id uint64) lendtypes.BorrowAsset {
			return lendtypes.BorrowAsset{ID: id, LendingID: 1, PairID: 1, AmountIn: sdk.NewInt64Coin("ucasset", 100), AmountOut: sdk.NewInt64Coin("uasset2", 10),
				BridgedAssetAmount: sdk.NewInt64Coin("uasset3", 0), BorrowingTime: now, StableBorrowRate: sdk.ZeroDec(), InterestAccumulated: sdk.ZeroDec(),
				GlobalIndex: sdk.OneDec(), ReserveGlobalIndex: sdk.OneDec(), LastInteractionTime: now, CPoolName: "cp"}
		}
		// lends 1,2 opened, newest closed (MsgCloseLend -> DeleteLend)
		k.SetLend(ca, mkLend(1))
		k.SetLend(ca, mkLend(2))
		k.SetUserLendIDCounter(ca, 2)
		k.DeleteLend(ca, 2)
		// borrows 1,2 opened, newest closed (MsgCloseBorrow / liquidation -> DeleteBorrow)
		k.SetBorrow(ca, mkBorrow(1))
		k.SetBorrow(ca, mkBorrow(2))
		k.SetUserBorrowIDCounter(ca, 2)
		k.DeleteBorrow(ca, 2)
		// pools 1,2 added, newest depreciated and deleted (DeletePoolAndTransferInterest -> DeletePool)
		k.SetPool(ca, lendtypes.Pool{PoolID: 1, ModuleName: "cmdx", CPoolName: "CMDX-ATOM-CMST"})
		k.SetPool(ca, lendtypes.Pool{PoolID: 2, ModuleName: "osmo", CPoolName: "OSMO-ATOM-CMST"})
		k.SetPoolID(ca, 2)
		k.DeletePool(ca, 2)
		// lend pairs are never deleted (control)
		k.SetLendPair(ca, lendtypes.Extended_Pair{Id: 1, AssetIn: 1, AssetOut: 2})
		k.SetLendPair(ca, lendtypes.Extended_Pair{Id: 2, AssetIn: 2, AssetOut: 1})
		k.SetLendPairID(ca, 2)
		// per asset/pool funded module balance (written by FundModAcc, read by QueryFundModBalByAssetPool)
		k.SetFundModBalByAssetPool(ca, 1, 1, sdk.NewInt64Coin("uasset", 12345))

		gs := lend.ExportGenesis(ca, k)
		b, cb := c20Fresh(t)
		lend.InitGenesis(cb, b.LendKeeper, gs)

		t.Run("LendCounterIDPrefix", func(t *testing.T) {
			c20EqU64(t, "lend position id counter after closing the newest lend", k.GetUserLendIDCounter(ca), b.LendKeeper.GetUserLendIDCounter(cb))
		})
		t.Run("BorrowCounterIDPrefix", func(t *testing.T) {
			c20EqU64(t, "borrow position id counter after closing the newest borrow", k.GetUserBorrowIDCounter(ca), b.LendKeeper.GetUserBorrowIDCounter(cb))
		})
		t.Run("PoolIDPrefix", func(t *testing.T) {
			c20EqU64(t, "lend pool id counter after deleting the newest (depreciated) pool", k.GetPoolID(ca), b.LendKeeper.GetPoolID(cb))
		})
		t.Run("AssetAndPoolWiseModBalKeyPrefix", func(t *testing.T) {
			va, fa := k.GetFundModBalByAssetPool(ca, 1, 1)
			vb, fb := b.LendKeeper.GetFundModBalByAssetPool(cb, 1, 1)
			c20EqStr(t, "funded module balance of asset 1 / pool 1", fmt.Sprint(va, fa), fmt.Sprint(vb, fb))
		})
		t.Run("LendPairIDKey(control)", func(t *testing.T) {
			c20EqU64(t, "lend pair id counter", k.GetLendPairID(ca), b.LendKeeper.GetLendPairID(cb))
		})
	})

	// ------------------------------------------------------------------ collector
	c20Module(t, "collector", func(t *testing.T) {
		a, ca := c20Fresh(t)
		k := a.CollectorKeeper
		k.SetRefundCounterStatus(ca, 1) // what Deposit() does once the one-shot refund has been paid

		gs := collector.ExportGenesis(ca, k)
		b, cb := c20Fresh(t)
		collector.InitGenesis(cb, b.CollectorKeeper, gs)

		t.Run("RefundCounterStatusPrefix", func(t *testing.T) {
			c20EqU64(t, "refund-completed flag (0 == MsgDeposit may pay the refund a second time)", k.GetRefundCounterStatus(ca), b.CollectorKeeper.GetRefundCounterStatus(cb))
		})
	})

	// ------------------------------------------------------------------ liquidation (v1)
	c20Module(t, "liquidation", func(t *testing.T) {
		a, ca := c20Fresh(t)
		k := a.LiquidationKeeper
		mk := func(id uint64) liquidationtypes.LockedVault {
			return liquidationtypes.LockedVault{LockedVaultId: id, AppId: 2, OriginalVaultId: id, ExtendedPairId: 1, Owner: user,
				AmountIn: sdk.NewInt(10), AmountOut: sdk.NewInt(5), UpdatedAmountOut: sdk.ZeroInt(), Initiator: "liquidationV1",
				CrAtLiquidation: sdk.OneDec(), CurrentCollaterlisationRatio: sdk.OneDec(), CollateralToBeAuctioned: sdk.OneDec(),
				LiquidationTimestamp: now, InterestAccumulated: sdk.ZeroInt()}
		}
		// three vaults liquidated (ids 1..3); the auctions of 1 and 2 completed -> DeleteLockedVault
		k.SetLockedVault(ca, mk(1))
		k.SetLockedVault(ca, mk(2))
		k.SetLockedVault(ca, mk(3))
		k.SetLockedVaultID(ca, 3)
		k.DeleteLockedVault(ca, 2, 1)
		k.DeleteLockedVault(ca, 2, 2)
		// begin-blocker sweep cursor
		k.SetLiquidationOffsetHolder(ca, liquidationtypes.VaultLiquidationsOffsetPrefix, liquidationtypes.NewLiquidationOffsetHolder(2, 40))

		gs := liquidation.ExportGenesis(ca, k)
		b, cb := c20Fresh(t)
		liquidation.InitGenesis(cb, b.LiquidationKeeper, gs)

		t.Run("LockedVaultIDKey", func(t *testing.T) {
			_, found := b.LiquidationKeeper.GetLockedVault(cb, 2, 3)
			if !found {
				t.Errorf("locked vault 3 itself not restored")
			}
			c20EqU64(t, "locked-vault id counter (locked vault 3 is live; the re-imported counter makes the next liquidation re-use a live id)", k.GetLockedVaultID(ca), b.LiquidationKeeper.GetLockedVaultID(cb))
		})
		t.Run("LiquidationOffsetHolderKeyPrefix", func(t *testing.T) {
			ha, fa := k.GetLiquidationOffsetHolder(ca, 2, liquidationtypes.VaultLiquidationsOffsetPrefix)
			hb, fb := b.LiquidationKeeper.GetLiquidationOffsetHolder(cb, 2, liquidationtypes.VaultLiquidationsOffsetPrefix)
			c20EqStr(t, "vault sweep offset of app 2 (decides which vaults the next BeginBlock examines)", fmt.Sprint(ha, fa), fmt.Sprint(hb, fb))
		})
	})

	// ------------------------------------------------------------------ liquidationsV2
	c20Module(t, "liquidationsV2", func(t *testing.T) {
		a, ca := c20Fresh(t)
		k := a.NewliqKeeper
		k.SetLockedVault(ca, liquidationsV2types.LockedVault{LockedVaultId: 1, AppId: 2, OriginalVaultId: 9, ExtendedPairId: 1, Owner: user,
			CollateralToken: sdk.NewInt64Coin("ucmdx", 10), DebtToken: sdk.NewInt64Coin("ucmst", 5), CurrentCollaterlisationRatio: sdk.OneDec(),
			CollateralToBeAuctioned: sdk.NewInt64Coin("ucmdx", 10), TargetDebt: sdk.NewInt64Coin("ucmst", 6), LiquidationTimestamp: now,
			FeeToBeCollected: sdk.NewInt(1), BonusToBeGiven: sdk.ZeroInt(), InitiatorType: "vault", AuctionType: true, CollateralAssetId: 1, DebtAssetId: 2})
		k.SetLockedVaultID(ca, 1) // what CreateLockedVault does
		h := liquidationsV2types.NewLiquidationOffsetHolder(30)
		h.AppId = 0
		k.SetLiquidationOffsetHolder(ca, liquidationsV2types.VaultLiquidationsOffsetPrefix, h)

		gs := liquidationsV2.ExportGenesis(ca, k)
		b, cb := c20Fresh(t)
		liquidationsV2.InitGenesis(cb, b.NewliqKeeper, *gs)

		t.Run("LockedVaultIDKey", func(t *testing.T) {
			_, found := b.NewliqKeeper.GetLockedVault(cb, 2, 1)
			if !found {
				t.Errorf("locked vault 1 itself not restored")
			}
			c20EqU64(t, "locked-vault id counter (locked vault 1 is live; InitGenesis computes a value and never stores it)", k.GetLockedVaultID(ca), b.NewliqKeeper.GetLockedVaultID(cb))
		})
		t.Run("LiquidationOffsetHolderKeyPrefix", func(t *testing.T) {
			ha, fa := k.GetLiquidationOffsetHolder(ca, liquidationsV2types.VaultLiquidationsOffsetPrefix, 0)
			hb, fb := b.NewliqKeeper.GetLiquidationOffsetHolder(cb, liquidationsV2types.VaultLiquidationsOffsetPrefix, 0)
			c20EqStr(t, "vault sweep offset (decides which vaults the next BeginBlock examines)", fmt.Sprint(ha, fa), fmt.Sprint(hb, fb))
		})
	})

	// ------------------------------------------------------------------ auction (v1)
	c20Module(t, "auction", func(t *testing.T) {
		a, ca := c20Fresh(t)
		k := a.AuctionKeeper
		bidder := c20Addr()
		mkDutch := func(id uint64) auctiontypes.DutchAuction {
			return auctiontypes.DutchAuction{AuctionId: id, OutflowTokenInitAmount: sdk.NewInt64Coin("ucmdx", 10), OutflowTokenCurrentAmount: sdk.NewInt64Coin("ucmdx", 10),
				InflowTokenTargetAmount: sdk.NewInt64Coin("ucmst", 5), InflowTokenCurrentAmount: sdk.NewInt64Coin("ucmst", 0),
				OutflowTokenInitialPrice: sdk.OneDec(), OutflowTokenCurrentPrice: sdk.OneDec(), OutflowTokenEndPrice: sdk.OneDec(), InflowTokenCurrentPrice: sdk.OneDec(),
				EndTime: now, StartTime: now, AuctionMappingId: 3, AppId: 2, AssetInId: 2, AssetOutId: 1, LockedVaultId: 1, VaultOwner: bidder, LiquidationPenalty: sdk.ZeroDec()}
		}
		// apps 1..3 registered in the asset module (auction.ExportGenesis walks the registered apps); same on both chains
		regApps := func(ap *app.App, c sdk.Context) {
			for _, n := range [][2]string{{"harbor", "hbr"}, {"cswap", "cswp"}, {"commodo", "cmdo"}} {
				if err := ap.AssetKeeper.AddAppRecords(c, assettypes.AppData{Name: n[0], ShortName: n[1], MinGovDeposit: sdk.ZeroInt(), GovTimeInSeconds: 0}); err != nil {
					t.Fatal(err)
				}
			}
		}
		regApps(a, ca)
		// auction mapping ids (gov-set params): app 2 surplus=1 debt=2 dutch=3 ; lend app 3 dutch=3
		k.SetAuctionParams(ca, auctiontypes.AuctionParams{AppId: 2, AuctionDurationSeconds: 300, Buffer: sdk.OneDec(), Cusp: sdk.OneDec(), Step: sdk.NewInt(1), PriceFunctionType: 1, SurplusId: 1, DebtId: 2, DutchId: 3, BidDurationSeconds: 300})
		lendAucParams := lendtypes.AuctionParams{AppId: 3, AuctionDurationSeconds: 300, Buffer: sdk.OneDec(), Cusp: sdk.OneDec(), Step: sdk.NewInt(1), PriceFunctionType: 1, DutchId: 3, BidDurationSeconds: 300}
		_ = a.LendKeeper.AddAuctionParamsData(ca, lendAucParams)
		// dutch auctions 1,2 started; 2 already closed (moved to history + DeleteDutchAuction)
		if err := k.SetDutchAuction(ca, mkDutch(1)); err != nil {
			t.Fatal(err)
		}
		if err := k.SetDutchAuction(ca, mkDutch(2)); err != nil {
			t.Fatal(err)
		}
		k.SetAuctionID(ca, 2)
		if err := k.DeleteDutchAuction(ca, mkDutch(2)); err != nil {
			t.Fatal(err)
		}
		// lend dutch auctions 1..4 started, 1..3 closed: counter 4, lend auction 4 still open
		lendAuc := mkDutch(4)
		lendAuc.AppId = 3
		if err := k.SetDutchLendAuction(ca, lendAuc); err != nil {
			t.Fatal(err)
		}
		k.SetLendAuctionID(ca, 4)
		// an open bid on a running debt auction (needed by closeDebtAuction / by the next PlaceDebtBid)
		if err := k.SetDebtUserBidding(ca, auctiontypes.DebtBiddings{BiddingId: 7, AuctionId: 1, AuctionStatus: "active", OutflowTokens: sdk.NewInt64Coin("uharbor", 5),
			Bidder: bidder.String(), Bid: sdk.NewInt64Coin("ucmst", 5), BiddingTimestamp: now, BiddingStatus: "placed", AuctionMappingId: 2, AppId: 2}); err != nil {
			t.Fatal(err)
		}
		k.SetUserBiddingID(ca, 8)
		// a bid on a running lend dutch auction (read by CloseDutchLendAuction)
		if err := k.SetDutchUserLendBidding(ca, auctiontypes.DutchBiddings{BiddingId: 8, AuctionId: 4, AuctionStatus: "active", OutflowTokenAmount: sdk.NewInt64Coin("ucmdx", 5),
			InflowTokenAmount: sdk.NewInt64Coin("ucmst", 5), Bidder: bidder.String(), BiddingTimestamp: now, BiddingStatus: "placed", AuctionMappingId: 3, AppId: 3}); err != nil {
			t.Fatal(err)
		}

		gs := auction.ExportGenesis(ca, k)
		b, cb := c20Fresh(t)
		regApps(b, cb)
		auction.InitGenesis(cb, b.AuctionKeeper, gs)
		_ = b.LendKeeper.AddAuctionParamsData(cb, lendAucParams) // auxiliary state of another module, made equal on both chains

		t.Run("AuctionIDKey", func(t *testing.T) {
			c20EqU64(t, "auction id counter after the newest auction closed", k.GetAuctionID(ca), b.AuctionKeeper.GetAuctionID(cb))
		})
		t.Run("LendAuctionIDKey", func(t *testing.T) {
			c20EqU64(t, "lend auction id counter", k.GetLendAuctionID(ca), b.AuctionKeeper.GetLendAuctionID(cb))
		})
		t.Run("UserKeyPrefix", func(t *testing.T) {
			ba, ea := k.GetDebtUserBidding(ca, bidder.String(), 2, 7)
			bb, eb := b.AuctionKeeper.GetDebtUserBidding(cb, bidder.String(), 2, 7)
			c20EqStr(t, "open debt-auction bid 7 of bidder", fmt.Sprint(ba.BiddingId, ba.Bid, ea), fmt.Sprint(bb.BiddingId, bb.Bid, eb))
		})
		t.Run("LendUserKeyPrefix", func(t *testing.T) {
			ba, ea := k.GetDutchLendUserBidding(ca, bidder.String(), 3, 8)
			bb, eb := b.AuctionKeeper.GetDutchLendUserBidding(cb, bidder.String(), 3, 8)
			c20EqStr(t, "lend dutch-auction bid 8 of bidder", fmt.Sprint(ba.BiddingId, ba.InflowTokenAmount, ea), fmt.Sprint(bb.BiddingId, bb.InflowTokenAmount, eb))
		})
		t.Run("EXTRA-not-in-list/LendAuctionKeyPrefix", func(t *testing.T) {
			// exported as GenesisState.DutchLendAuction, but InitGenesis iterates state.DutchAuction for the lend store
			va, ea := k.GetDutchLendAuction(ca, 3, 3, 4)
			vb, eb := b.AuctionKeeper.GetDutchLendAuction(cb, 3, 3, 4)
			c20EqStr(t, "open lend dutch auction 4 (exported: "+fmt.Sprint(len(gs.DutchLendAuction))+" lend auctions)", fmt.Sprint(va.AuctionId, va.AppId, ea), fmt.Sprint(vb.AuctionId, vb.AppId, eb))
			wa := k.GetDutchLendAuctions(ca, 2)
			wb := b.AuctionKeeper.GetDutchLendAuctions(cb, 2)
			c20EqU64(t, "number of entries in the LEND auction store under app 2 (vault dutch auctions copied there by InitGenesis)", uint64(len(wa)), uint64(len(wb)))
		})
		t.Run("UserBiddingsIDKey(control)", func(t *testing.T) {
			c20EqU64(t, "user bidding id counter", k.GetUserBiddingID(ca), b.AuctionKeeper.GetUserBiddingID(cb))
		})
	})

	// ------------------------------------------------------------------ auctionsV2 (real limit-bid deposit handler)
	c20Module(t, "auctionsV2", func(t *testing.T) {
		a, ca := c20Fresh(t)
		k := a.NewaucKeeper
		bidder := c20Addr()
		if err := a.AssetKeeper.AddAssetRecords(ca, assettypes.Asset{Name: "CMDX", Denom: "ucmdx", Decimals: sdk.NewInt(1000000), IsOnChain: true}); err != nil {
			t.Fatal(err)
		}
		if err := a.AssetKeeper.AddAssetRecords(ca, assettypes.Asset{Name: "CMST", Denom: "ucmst", Decimals: sdk.NewInt(1000000), IsOnChain: true, IsCdpMintable: true}); err != nil {
			t.Fatal(err)
		}
		funds := sdk.NewCoins(sdk.NewInt64Coin("ucmst", 1000000))
		if err := a.BankKeeper.MintCoins(ca, auctionsV2types.ModuleName, funds); err != nil {
			t.Fatal(err)
		}
		if err := a.BankKeeper.SendCoinsFromModuleToAccount(ca, auctionsV2types.ModuleName, bidder, funds); err != nil {
			t.Fatal(err)
		}
		// REAL handler: the user escrows 400000ucmst in the auctionsV2 module account as a limit bid (collateral asset 1, debt asset 2, 5% premium)
		if err := k.DepositLimitAuctionBid(ca, bidder.String(), 1, 2, sdk.NewInt(5), sdk.NewInt64Coin("ucmst", 400000)); err != nil {
			t.Fatal(err)
		}
		// an open bid on a running english auction (written by PlaceEnglishAuctionBid -> CreateUserBid)
		bid := auctionsV2types.Bid{BiddingId: 3, AuctionId: 2, CollateralTokenAmount: sdk.NewInt64Coin("ucmdx", 10), DebtTokenAmount: sdk.NewInt64Coin("ucmst", 7),
			BidderAddress: bidder.String(), BiddingTimestamp: now, AppId: 2, BidType: "english"}
		_ = k.SetUserBid(ca, bid)
		_ = k.SetIndividualUserBid(ca, bid)
		k.SetUserBidID(ca, 3)
		k.SetAuctionID(ca, 2)
		// protocol fee accounting for externally initiated auctions
		_ = k.SetAuctionLimitBidFeeDataExternal(ca, auctionsV2types.AuctionFeesCollectionFromLimitBidTx{AssetId: 2, Amount: sdk.NewInt(55)})

		gs := auctionsV2.ExportGenesis(ca, k)
		b, cb := c20Fresh(t)
		auctionsV2.InitGenesis(cb, b.NewaucKeeper, *gs)
		kb := b.NewaucKeeper

		t.Run("UserLimitBidMappingKeyPrefix", func(t *testing.T) {
			va, fa := k.GetUserLimitBidData(ca, 2, 1, sdk.NewInt(5), bidder.String())
			vb, fb := kb.GetUserLimitBidData(cb, 2, 1, sdk.NewInt(5), bidder.String())
			c20EqStr(t, "limit-bid deposit of the user (400000ucmst escrowed in the module account; without the record MsgCancel/MsgWithdrawLimitBid return ErrBidNotFound)",
				fmt.Sprint(va.LimitOrderBiddingId, va.DebtToken, fa), fmt.Sprint(vb.LimitOrderBiddingId, vb.DebtToken, fb))
		})
		t.Run("UserLimitBidMappingKeyForAddressPrefix", func(t *testing.T) {
			va, fa := k.GetUserLimitBidDataByAddress(ca, bidder.String())
			vb, fb := kb.GetUserLimitBidDataByAddress(cb, bidder.String())
			c20EqStr(t, "per-address limit-bid index", fmt.Sprint(va, fa), fmt.Sprint(vb, fb))
		})
		t.Run("LimitAuctionBidIDKey", func(t *testing.T) {
			c20EqU64(t, "limit bid id counter", k.GetLimitAuctionBidID(ca), kb.GetLimitAuctionBidID(cb))
		})
		t.Run("MarketBidProtocolKeyPrefix", func(t *testing.T) {
			va, fa := k.GetLimitBidProtocolDataByAssetID(ca, 2, 1)
			vb, fb := kb.GetLimitBidProtocolDataByAssetID(cb, 2, 1)
			c20EqStr(t, "limit-bid protocol totals for debt 2 / collateral 1", fmt.Sprint(va, fa), fmt.Sprint(vb, fb))
		})
		t.Run("UserBidKeyPrefix", func(t *testing.T) {
			va, ea := k.GetUserBid(ca, 3)
			vb, eb := kb.GetUserBid(cb, 3)
			c20EqStr(t, "open english-auction bid 3 (CloseEnglishAuction and the next bid's refund need it)", fmt.Sprint(va.BiddingId, va.DebtTokenAmount, ea), fmt.Sprint(vb.BiddingId, vb.DebtTokenAmount, eb))
		})
		t.Run("UserBidHistoricalKeyPrefix", func(t *testing.T) {
			// despite its name this prefix holds the user's OPEN bids: gRPC Bids{History:false} reads it
			qa, ea := auctionsV2keeper.QueryServer{Keeper: k}.Bids(sdk.WrapSDKContext(ca), &auctionsV2types.QueryBidsRequest{Bidder: bidder.String(), BidType: 2, History: false})
			qb, eb := auctionsV2keeper.QueryServer{Keeper: kb}.Bids(sdk.WrapSDKContext(cb), &auctionsV2types.QueryBidsRequest{Bidder: bidder.String(), BidType: 2, History: false})
			if ea != nil || eb != nil {
				t.Fatalf("query error: %v / %v", ea, eb)
			}
			c20EqU64(t, "number of open bids returned by query Bids(history=false)", uint64(len(qa.Bids)), uint64(len(qb.Bids)))
		})
		t.Run("ExternalAuctionLimitBidFeeKeyPrefix", func(t *testing.T) {
			va, fa := k.GetAuctionLimitBidFeeDataExternal(ca, 2)
			vb, fb := kb.GetAuctionLimitBidFeeDataExternal(cb, 2)
			c20EqStr(t, "external-auction fee accounting of asset 2", fmt.Sprint(va, fa), fmt.Sprint(vb, fb))
		})
		t.Run("EXTRA-not-in-list/AuctionIDKey+UserBidIDKey", func(t *testing.T) {
			// exported in GenesisState.AuctionId / UserBiddingID, but InitGenesis stores two never-assigned locals (0)
			c20EqU64(t, "auction id counter (exported value "+fmt.Sprint(gs.AuctionId)+")", k.GetAuctionID(ca), kb.GetAuctionID(cb))
			c20EqU64(t, "user bid id counter (exported value "+fmt.Sprint(gs.UserBiddingID)+")", k.GetUserBidID(ca), kb.GetUserBidID(cb))
		})
	})

	// ------------------------------------------------------------------ rewards
	c20Module(t, "rewards", func(t *testing.T) {
		a, ca := c20Fresh(t)
		k := a.Rewardskeeper
		coin := sdk.NewInt64Coin("ucmdx", 1000)
		// what ActExternalRewardsLockers / ActExternalRewardsVaults / ActExternalRewardsStableVaults write
		k.SetExternalRewardsLockers(ca, rewardstypes.LockerExternalRewards{Id: 1, AppMappingId: 1, AssetId: 1, TotalRewards: coin, DurationDays: 10, IsActive: true, AvailableRewards: coin, Depositor: user, StartTimestamp: now, EndTimestamp: now, EpochId: 1})
		k.SetExternalRewardsLockersID(ca, 1)
		k.SetEpochTime(ca, rewardstypes.EpochTime{Id: 1, AppMappingId: 1, StartingTime: now.Unix() + 86400, Count: 3})
		k.SetExternalRewardVault(ca, rewardstypes.VaultExternalRewards{Id: 1, AppMappingId: 1, ExtendedPairId: 1, TotalRewards: coin, DurationDays: 10, IsActive: true, AvailableRewards: coin, Depositor: user, StartTimestamp: now, EndTimestamp: now, EpochId: 2})
		k.SetExternalRewardsVaultID(ca, 1)
		k.SetEpochTime(ca, rewardstypes.EpochTime{Id: 2, AppMappingId: 1, StartingTime: now.Unix() + 86400})
		k.SetExternalRewardStableVault(ca, rewardstypes.StableVaultExternalRewards{Id: 1, AppId: 1, TotalRewards: coin, DurationDays: 10, IsActive: true, AvailableRewards: coin, Depositor: user, StartTimestamp: now, EndTimestamp: now, AcceptedBlockHeight: 100, EpochId: 3})
		k.SetExternalRewardsStableVault(ca, 1)
		k.SetEpochTime(ca, rewardstypes.EpochTime{Id: 3, AppMappingId: 1, StartingTime: now.Unix() + 86400})
		k.SetEpochTimeID(ca, 3)
		// controls: never-deleted families whose counter InitGenesis recomputes as max id
		k.SetExternalRewardLend(ca, rewardstypes.LendExternalRewards{Id: 1, AppMappingId: 3, TotalRewards: coin, DurationDays: 10, IsActive: true, AvailableRewards: coin, Depositor: user, StartTimestamp: now, EndTimestamp: now, EpochId: 3})
		k.SetExternalRewardsLendID(ca, 1)
		k.SetGauge(ca, rewardstypes.Gauge{Id: 1, From: user, CreatedAt: now, StartTime: now, GaugeTypeId: 1, TriggerDuration: time.Hour, DepositAmount: coin, TotalTriggers: 3, DistributedAmount: sdk.NewInt64Coin("ucmdx", 0), IsActive: true, AppId: 1})
		k.SetGauge(ca, rewardstypes.Gauge{Id: 2, From: user, CreatedAt: now, StartTime: now, GaugeTypeId: 1, TriggerDuration: time.Hour, DepositAmount: coin, TotalTriggers: 3, DistributedAmount: sdk.NewInt64Coin("ucmdx", 0), IsActive: true, AppId: 1})
		k.SetGaugeID(ca, 2)

		gs := rewards.ExportGenesis(ca, k)
		b, cb := c20Fresh(t)
		rewards.InitGenesis(cb, b.Rewardskeeper, gs)
		kb := b.Rewardskeeper

		t.Run("ExtRewardsLockerIDKey", func(t *testing.T) {
			c20EqU64(t, "locker external-reward id counter (campaign 1 is live and is overwritten by the next activation)", k.GetExternalRewardsLockersID(ca), kb.GetExternalRewardsLockersID(cb))
		})
		t.Run("ExtRewardsVaultIDKey", func(t *testing.T) {
			c20EqU64(t, "vault external-reward id counter (campaign 1 is live and is overwritten by the next activation)", k.GetExternalRewardsVaultID(ca), kb.GetExternalRewardsVaultID(cb))
		})
		t.Run("ExtRewardsStableVaultIDKey", func(t *testing.T) {
			c20EqU64(t, "stable-vault external-reward id counter", k.GetExternalRewardsStableVault(ca), kb.GetExternalRewardsStableVault(cb))
		})
		t.Run("ExternalRewardsStableVaultKeyPrefix", func(t *testing.T) {
			c20EqStr(t, "stable-vault external reward campaigns (1000ucmdx undistributed)", fmt.Sprint(k.GetAllExternalRewardStableVault(ca)), fmt.Sprint(kb.GetAllExternalRewardStableVault(cb)))
		})
		t.Run("EpochTimeIDKey", func(t *testing.T) {
			c20EqU64(t, "epoch-time id counter", k.GetEpochTimeID(ca), kb.GetEpochTimeID(cb))
		})
		t.Run("EpochForLockerKeyPrefix", func(t *testing.T) {
			ea, fa := k.GetEpochTime(ca, 1)
			eb, fb := kb.GetEpochTime(cb, 1)
			c20EqStr(t, "epoch 1 of the live locker reward campaign (StartingTime/Count drive the daily distribution)", fmt.Sprint(ea, fa), fmt.Sprint(eb, fb))
		})
		t.Run("GaugeIDKey(control)", func(t *testing.T) {
			c20EqU64(t, "gauge id counter", k.GetGaugeID(ca), kb.GetGaugeID(cb))
		})
		t.Run("ExtRewardsLendIDKey(control)", func(t *testing.T) {
			c20EqU64(t, "lend external-reward id counter", k.GetExternalRewardsLendID(ca), kb.GetExternalRewardsLendID(cb))
		})
	})

	// ------------------------------------------------------------------ esm
	c20Module(t, "esm", func(t *testing.T) {
		a, ca := c20Fresh(t)
		k := a.EsmKeeper
		k.SetSnapshotOfPrices(ca, 2, 1, 1234567) // written by SnapshotOfPrices when ESM triggers
		k.SetAssetToAmount(ca, esmtypes.AssetToAmount{AppId: 2, AssetID: 1, Amount: sdk.NewInt(5000), Share: sdk.NewDecWithPrec(5, 1), DebtTokenWorth: sdk.NewDec(100), IsCollateral: true})

		gs := esm.ExportGenesis(ca, k)
		b, cb := c20Fresh(t)
		esm.InitGenesis(cb, b.EsmKeeper, gs)

		t.Run("SnapshotKeyPrefix", func(t *testing.T) {
			pa, fa := k.GetSnapshotOfPrices(ca, 2, 1)
			pb, fb := b.EsmKeeper.GetSnapshotOfPrices(cb, 2, 1)
			c20EqStr(t, "ESM price snapshot of app 2 / asset 1", fmt.Sprint(pa, fa), fmt.Sprint(pb, fb))
		})
		t.Run("AssetToAmountKeyPrefix", func(t *testing.T) {
			va, fa := k.GetAssetToAmount(ca, 2, 1)
			vb, fb := b.EsmKeeper.GetAssetToAmount(cb, 2, 1)
			c20EqStr(t, "ESM redemption pool (collateral held for MsgCollateralRedemption) of app 2 / asset 1", fmt.Sprint(va, fa), fmt.Sprint(vb, fb))
		})
	})

	// ------------------------------------------------------------------ bandoracle
	c20Module(t, "bandoracle", func(t *testing.T) {
		a, ca := c20Fresh(t)
		k := a.BandoracleKeeper
		k.SetFetchPriceMsg(ca, bandoracletypes.MsgFetchPriceData{OracleScriptID: 112, SourceChannel: "channel-2", AskCount: 4, MinCount: 3,
			FeeLimit: sdk.NewCoins(sdk.NewInt64Coin("uband", 250000)), PrepareGas: 600000, ExecuteGas: 600000, TwaBatchSize: 10, AcceptedHeightDiff: 6000})
		k.SetDiscardData(ca, bandoracletypes.DiscardData{BlockHeight: 4242, DiscardBool: true})

		gs := bandoracle.ExportGenesis(ca, k)
		b, cb := c20Fresh(t)
		bandoracle.InitGenesis(cb, b.BandoracleKeeper, *gs)

		t.Run("MsgDataKey", func(t *testing.T) {
			ma := k.GetFetchPriceMsg(ca)
			mb := b.BandoracleKeeper.GetFetchPriceMsg(cb)
			c20EqStr(t, "governance-set oracle request parameters", ma.String(), mb.String())
		})
		t.Run("DiscardFlagKey", func(t *testing.T) {
			c20EqStr(t, "price discard data", fmt.Sprint(k.GetDiscardData(ca)), fmt.Sprint(b.BandoracleKeeper.GetDiscardData(cb)))
		})
	})

	// ------------------------------------------------------------------ asset (real handlers)
	c20Module(t, "asset", func(t *testing.T) {
		a, ca := c20Fresh(t)
		k := a.AssetKeeper
		if err := k.AddAssetRecords(ca, assettypes.Asset{Name: "HARBOR", Denom: "uharbor", Decimals: sdk.NewInt(1000000), IsOnChain: true}); err != nil {
			t.Fatal(err)
		}
		if err := k.AddAssetRecords(ca, assettypes.Asset{Name: "SPARE", Denom: "uspare", Decimals: sdk.NewInt(1000000), IsOnChain: true}); err != nil {
			t.Fatal(err)
		}
		if err := k.AddAppRecords(ca, assettypes.AppData{Name: "harbor", ShortName: "hbr", MinGovDeposit: sdk.NewInt(100), GovTimeInSeconds: 300}); err != nil {
			t.Fatal(err)
		}
		govTok := func(assetID uint64) assettypes.AppData {
			return assettypes.AppData{Id: 1, GenesisToken: []assettypes.MintGenesisToken{{AssetId: assetID, GenesisSupply: sdk.NewInt(1000), IsGovToken: true, Recipient: user}}}
		}
		if err := k.AddAssetInAppRecords(ca, govTok(1)); err != nil {
			t.Fatal(err)
		}

		gs := asset.ExportGenesis(ca, k)
		b, cb := c20Fresh(t)
		asset.InitGenesis(cb, b.AssetKeeper, gs)
		kb := b.AssetKeeper

		t.Run("GenesisForAppPrefix", func(t *testing.T) {
			c20EqU64(t, "gov (genesis) token asset id registered for app 1", k.GetGenesisTokenForApp(ca, 1), kb.GetGenesisTokenForApp(cb, 1))
			ea := k.AddAssetInAppRecords(ca, govTok(2))
			eb := kb.AddAssetInAppRecords(cb, govTok(2))
			c20EqStr(t, "result of adding a SECOND gov token to app 1", fmt.Sprint(ea), fmt.Sprint(eb))
		})
		t.Run("AssetIDKey+AppIDKey+indexes(control)", func(t *testing.T) {
			c20EqU64(t, "asset id counter", k.GetAssetID(ca), kb.GetAssetID(cb))
			c20EqU64(t, "app id counter", k.GetAppID(ca), kb.GetAppID(cb))
			ia, fa := k.GetAssetForDenom(ca, "uharbor")
			ib, fb := kb.GetAssetForDenom(cb, "uharbor")
			c20EqStr(t, "asset-for-denom index", fmt.Sprint(ia.Id, fa), fmt.Sprint(ib.Id, fb))
			c20EqStr(t, "app-for-name / short-name index", fmt.Sprint(k.HasAppForName(ca, "harbor"), k.HasAppForShortName(ca, "hbr")), fmt.Sprint(kb.HasAppForName(cb, "harbor"), kb.HasAppForShortName(cb, "hbr")))
		})
	})
}
