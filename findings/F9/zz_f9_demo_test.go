package keeper_test

// F9 demonstration: the per-block borrow liquidation sweep (Keeper.LiquidateBorrows) runs each
// per-borrow step directly on the block context, without utils.ApplyFuncIfNoError (which is what
// LiquidateVaults does for every vault).
//
//   TestF9Panic*                                  a panic inside the per-borrow step escapes liquidationsV2.BeginBlocker
//                                                 (three ordinary ways to reach the state are shown).
//   TestF9ErrorAbortsSweepAndLeavesPartialWrites  an error in the step of borrow i aborts the sweep: the borrows after i
//                                                 are not processed, Liquidate returns before LiquidateForSurplusAndDebt,
//                                                 and what the failing step wrote before the error stays in the block state.
//   TestF9InactivePriceBlocksLaterBorrows         a borrow whose step keeps failing (oracle price of one asset inactive)
//                                                 blocks, block after block, the liquidation of every borrow behind it.
//
// The tests assert the behaviour of an isolated step (what LiquidateVaults gives to vaults), so they FAIL on the
// original code (the failure messages describe what happened) and pass once the step is wrapped.
//
// Every state used here is built with the modules' message handlers (Lend, Deposit, Borrow, FundModuleAccounts,
// bank Send), the governance-style configuration helpers of the existing suites, and oracle updates (SetTwa).

import (
	"fmt"
	"runtime/debug"
	"strings"
	"time"

	assettypes "github.com/comdex-official/comdex/x/asset/types"
	auctionsV2types "github.com/comdex-official/comdex/x/auctionsV2/types"
	lendKeeper "github.com/comdex-official/comdex/x/lend/keeper"
	lendtypes "github.com/comdex-official/comdex/x/lend/types"
	liquidationsV2 "github.com/comdex-official/comdex/x/liquidationsV2"
	"github.com/comdex-official/comdex/x/liquidationsV2/types"
	markettypes "github.com/comdex-official/comdex/x/market/types"
	abci "github.com/cometbft/cometbft/abci/types"
	sdk "github.com/cosmos/cosmos-sdk/types"
	authtypes "github.com/cosmos/cosmos-sdk/x/auth/types"
)

const (
	f9Alice = "cosmos1yq8lgssgxlx9smjhes6ryjasmqmd3ts2559g0t"
	f9Bob   = "cosmos1hm7w7dnvdnra78pz9qxysy7u4tuhc3fnpjmyj7"
)

// two more ordinary accounts
var (
	f9Carol = sdk.AccAddress([]byte("f9carol_____________")).String()
	f9Dave  = sdk.AccAddress([]byte("f9dave______________")).String()
)

// f9Frames keeps the comdex (non test) frames of a stack trace.
func f9Frames(stack string) string {
	out := ""
	for _, l := range strings.Split(stack, "\n") {
		if strings.HasPrefix(l, "github.com/comdex-official/comdex/x/") && !strings.Contains(l, "keeper_test.") {
			if i := strings.Index(l, "("); i > 0 {
				l = l[:i]
			}
			out += "    " + l + "\n"
		}
	}
	return out
}

func f9BigInt(str string) sdk.Int {
	i, ok := sdk.NewIntFromString(str)
	if !ok {
		panic("bad int " + str)
	}
	return i
}

// f9CreateAsset is CreateNewAsset with an explicit Decimals value.
func (s *KeeperTestSuite) f9CreateAsset(name, denom string, decimals sdk.Int, twa uint64) uint64 {
	err := s.app.AssetKeeper.AddAssetRecords(s.ctx, assettypes.Asset{
		Name:                  name,
		Denom:                 denom,
		Decimals:              decimals,
		IsOnChain:             true,
		IsOraclePriceRequired: true,
		IsCdpMintable:         true,
	})
	s.Require().NoError(err)
	var assetID uint64
	for _, asset := range s.app.AssetKeeper.GetAssets(s.ctx) {
		if asset.Denom == denom {
			assetID = asset.Id
		}
	}
	s.Require().NotZero(assetID)
	s.app.MarketKeeper.SetTwa(s.ctx, markettypes.TimeWeightedAverage{
		AssetID: assetID, ScriptID: 10, Twa: twa, CurrentIndex: 1, IsPriceActive: true,
	})
	return assetID
}

// f9PairID finds the intra-pool lend pair assetIn -> assetOut.
func (s *KeeperTestSuite) f9PairID(assetIn, assetOut, assetOutPool uint64) uint64 {
	for id := uint64(1); id <= s.lendKeeper.GetLendPairID(s.ctx); id++ {
		p, found := s.lendKeeper.GetLendPair(s.ctx, id)
		if found && p.AssetIn == assetIn && p.AssetOut == assetOut && p.AssetOutPoolID == assetOutPool && !p.IsInterPool {
			return id
		}
	}
	s.FailNow("pair not found")
	return 0
}

func (s *KeeperTestSuite) f9NextBlock() {
	s.ctx = s.ctx.WithBlockHeight(s.ctx.BlockHeight() + 1).WithBlockTime(s.ctx.BlockTime().Add(6 * time.Second))
}

// f9BeginBlock runs the module's BeginBlocker and reports a panic that leaves it.
func (s *KeeperTestSuite) f9BeginBlock() (recovered interface{}, stack string) {
	defer func() {
		if recovered = recover(); recovered != nil {
			stack = f9Frames(string(debug.Stack()))
		}
	}()
	liquidationsV2.BeginBlocker(s.ctx, abci.RequestBeginBlock{}, s.app.NewliqKeeper)
	return nil, ""
}

// ---------------------------------------------------------------------------------------------
// (1) panic escapes BeginBlocker
// ---------------------------------------------------------------------------------------------

// f9SetupWeiPool creates the commodo app (id 3) and one lend pool ("cmdx") with
//
//	FNATOM  f9atom  6 decimals,  $2     transit type 3
//	FNWETH  f9weth  18 decimals, $2000  main asset
//	FNCMST  f9cmst  6 decimals,  $1     transit type 2
//
// whitelists the app for liquidation and sets the auction params, exactly as AddAppAssets does.
func (s *KeeperTestSuite) f9SetupWeiPool() (atomID, wethID uint64) {
	e6 := sdk.NewInt(1000000)
	e18 := f9BigInt("1000000000000000000")
	atomID = s.f9CreateAsset("FNATOM", "f9atom", e6, 2000000)
	wethID = s.f9CreateAsset("FNWETH", "f9weth", e18, 2000000000)
	cmstID := s.f9CreateAsset("FNCMST", "f9cmst", e6, 1000000)
	cAtomID := s.f9CreateAsset("FNCATOM", "f9catom", e6, 2000000)
	cWethID := s.f9CreateAsset("FNCWETH", "f9cweth", e18, 2000000000)
	cCmstID := s.f9CreateAsset("FNCCMST", "f9ccmst", e6, 1000000)

	// supply caps are USD values with 6 decimals; these are the values of the existing suites
	assetData := []*lendtypes.AssetDataPoolMapping{
		{AssetID: atomID, AssetTransitType: 3, SupplyCap: sdk.NewDec(5000000000000000000)},
		{AssetID: wethID, AssetTransitType: 1, SupplyCap: sdk.NewDec(1000000000000000000)},
		{AssetID: cmstID, AssetTransitType: 2, SupplyCap: sdk.NewDec(5000000000000000000)},
	}
	s.AddAssetRatesStats(cmstID, newDec("0.8"), newDec("0.002"), newDec("0.06"), newDec("0.6"), true, newDec("0.04"), newDec("0.04"), newDec("0.06"), newDec("0.8"), newDec("0.85"), newDec("0.025"), newDec("0.025"), newDec("0.1"), cCmstID)
	s.AddAssetRatesStats(atomID, newDec("0.75"), newDec("0.002"), newDec("0.07"), newDec("1.25"), false, newDec("0.0"), newDec("0.0"), newDec("0.0"), newDec("0.7"), newDec("0.75"), newDec("0.05"), newDec("0.05"), newDec("0.2"), cAtomID)
	s.AddAssetRatesPoolPairs(wethID, newDec("0.5"), newDec("0.002"), newDec("0.08"), newDec("2.0"), false, newDec("0.0"), newDec("0.0"), newDec("0.0"), newDec("0.5"), newDec("0.55"), newDec("0.05"), newDec("0.05"), newDec("0.2"), cWethID, "cmdx", "CMDX-ATOM-CMST", assetData, 1000000, false)

	_ = s.CreateNewApp("cswap", "cswap")
	_ = s.CreateNewApp("harbor", "hbr")
	appThreeID := s.CreateNewApp("commodo", "cmdo")
	s.Require().Equal(uint64(3), appThreeID)

	dutch := types.DutchAuctionParam{Premium: newDec("0.1"), Discount: newDec("0.1"), DecrementFactor: sdk.NewInt(1)}
	s.liquidationKeeper.SetLiquidationWhiteListing(s.ctx, types.LiquidationWhiteListing{
		AppId: 3, Initiator: true, IsDutchActivated: true, DutchAuctionParam: &dutch, KeeeperIncentive: newDec("0.1"),
	})
	s.addAuctionParams(auctionsV2types.AuctionParams{
		AuctionDurationSeconds: 3600, Step: newDec("0.1"), WithdrawalFee: newDec("0.0"), ClosingFee: newDec("0.0"),
		MinUsdValueLeft: 100000, BidFactor: newDec("0.1"), LiquidationPenalty: newDec("0.1"), AuctionBonus: newDec("0.0"),
	})
	return atomID, wethID
}

// f9PanicScenario: one healthy borrow of 1 WETH; then `how` brings the pool's WETH balance from 5 to 15 WETH.
func (s *KeeperTestSuite) f9PanicScenario(how string) {
	s.ctx = s.ctx.WithBlockHeight(10).WithBlockTime(time.Date(2024, 1, 1, 0, 0, 0, 0, time.UTC))
	atomID, wethID := s.f9SetupWeiPool()
	server := lendKeeper.NewMsgServerImpl(s.lendKeeper)
	cmdx := authtypes.NewModuleAddress("cmdx")

	weth := func(whole int64) sdk.Int { return sdk.NewInt(whole).Mul(f9BigInt("1000000000000000000")) }
	s.fundAddr(sdk.MustAccAddressFromBech32(f9Alice), sdk.NewCoins(sdk.NewCoin("f9atom", newInt(10000000000))))
	s.fundAddr(sdk.MustAccAddressFromBech32(f9Bob), sdk.NewCoins(sdk.NewCoin("f9weth", weth(15))))
	s.fundAddr(sdk.MustAccAddressFromBech32(f9Carol), sdk.NewCoins(sdk.NewCoin("f9weth", weth(12))))

	// alice: 3000 ATOM of collateral (lend 1) ; bob: 5 WETH of liquidity (lend 2)
	_, err := server.Lend(sdk.WrapSDKContext(s.ctx), lendtypes.NewMsgLend(f9Alice, atomID, sdk.NewCoin("f9atom", newInt(3000000000)), 1, 3))
	s.Require().NoError(err)
	_, err = server.Lend(sdk.WrapSDKContext(s.ctx), lendtypes.NewMsgLend(f9Bob, wethID, sdk.NewCoin("f9weth", weth(5)), 1, 3))
	s.Require().NoError(err)

	// seeding, as on a live deployment: 1 WETH to the pool (MsgFundModuleAccounts, as the existing fixtures do) and
	// 1 WETH to the lend reserve (MsgFundReserveAccounts; lend rewards are paid from it until borrowers have repaid interest)
	_, err = server.FundModuleAccounts(sdk.WrapSDKContext(s.ctx), lendtypes.NewMsgFundModuleAccounts(1, wethID, f9Carol, sdk.NewCoin("f9weth", weth(1))))
	s.Require().NoError(err)
	_, err = server.FundReserveAccounts(sdk.WrapSDKContext(s.ctx), lendtypes.NewMsgFundReserveAccounts(wethID, f9Carol, sdk.NewCoin("f9weth", weth(1))))
	s.Require().NoError(err)

	// alice borrows 1 WETH ($2000) against 2000 cATOM ($4000): healthy (0.5 < liquidation threshold 0.75)
	_, err = server.Borrow(sdk.WrapSDKContext(s.ctx), lendtypes.NewMsgBorrow(f9Alice, 1, s.f9PairID(atomID, wethID, 1), false, sdk.NewCoin("f9catom", newInt(2000000000)), sdk.NewCoin("f9weth", weth(1))))
	s.Require().NoError(err)
	borrows, _ := s.lendKeeper.GetBorrows(s.ctx)
	s.Require().Equal([]uint64{1}, borrows)

	// next block: BeginBlocker is fine, nothing is liquidated
	s.f9NextBlock()
	recovered, _ := s.f9BeginBlock()
	s.Require().Nil(recovered)
	s.Require().Equal(uint64(0), s.liquidationKeeper.GetLockedVaultID(s.ctx))

	// 10 more WETH reach the pool through an ordinary message, which succeeds
	switch how {
	case "deposit": // bob tops up his lend position
		_, err = server.Deposit(sdk.WrapSDKContext(s.ctx), lendtypes.NewMsgDeposit(f9Bob, 2, sdk.NewCoin("f9weth", weth(10))))
	case "fund": // anybody may send MsgFundModuleAccounts (the existing fixtures use it)
		_, err = server.FundModuleAccounts(sdk.WrapSDKContext(s.ctx), lendtypes.NewMsgFundModuleAccounts(1, wethID, f9Carol, sdk.NewCoin("f9weth", weth(10))))
	case "send": // the app builds the bank keeper with no blocked addresses: a plain MsgSend to the pool account is accepted
		s.Require().False(s.app.BankKeeper.BlockedAddr(cmdx))
		err = s.app.BankKeeper.SendCoins(s.ctx, sdk.MustAccAddressFromBech32(f9Carol), cmdx, sdk.NewCoins(sdk.NewCoin("f9weth", weth(10))))
	}
	s.Require().NoError(err)
	poolBal := s.app.BankKeeper.GetBalance(s.ctx, cmdx, "f9weth").Amount
	// 5 + 1 - 1 + 10 WETH = 1.5e19 base units (plus a few wei of lend reward in the deposit case)  >  2^63-1 = 9.22e18
	s.Require().True(poolBal.GTE(weth(15)) && poolBal.LT(weth(16)), poolBal.String())
	s.Require().False(poolBal.IsInt64())

	// next block: the borrow is still healthy and nothing has to be liquidated, but the sweep panics and the panic
	// leaves BeginBlocker (BaseApp.BeginBlock has no recover: the node stops, and so does every other validator).
	s.f9NextBlock()
	recovered, stack := s.f9BeginBlock()
	fmt.Printf("F9(1)[%s]: value recovered from liquidationsV2.BeginBlocker: %v\n%s", how, recovered, stack)
	s.Require().Nil(recovered, "F9(1)[%s]: panic escaped liquidationsV2.BeginBlocker: %v", how, recovered)
}

func (s *KeeperTestSuite) TestF9PanicEscapesBeginBlockerAfterDeposit() { s.f9PanicScenario("deposit") }
func (s *KeeperTestSuite) TestF9PanicEscapesBeginBlockerAfterFund()    { s.f9PanicScenario("fund") }
func (s *KeeperTestSuite) TestF9PanicEscapesBeginBlockerAfterSend()    { s.f9PanicScenario("send") }

// ---------------------------------------------------------------------------------------------
// (2) error in the step of borrow i
// ---------------------------------------------------------------------------------------------

// f9AddDaveBorrow: on top of AddAppAssets, dave lends 100 ASSET2 ($200) and borrows 90 ASSET3 ($90) against it.
// Returns the borrow id. With ASSET2 at $1.5 the position is above the liquidation threshold (90/150 = 0.6 > 0.55).
func (s *KeeperTestSuite) f9AddDaveBorrow(server lendtypes.MsgServer) uint64 {
	s.fundAddr(sdk.MustAccAddressFromBech32(f9Dave), sdk.NewCoins(sdk.NewCoin("uasset2", newInt(100000000))))
	_, err := server.Lend(sdk.WrapSDKContext(s.ctx), lendtypes.NewMsgLend(f9Dave, 2, sdk.NewCoin("uasset2", newInt(100000000)), 1, 3))
	s.Require().NoError(err)
	daveLend, found := s.lendKeeper.GetLendIDForAssetIDPoolID(s.ctx, f9Dave, 2, 1)
	s.Require().True(found)
	_, err = server.Borrow(sdk.WrapSDKContext(s.ctx), lendtypes.NewMsgBorrow(f9Dave, daveLend, s.f9PairID(2, 3, 1), false,
		sdk.NewCoin("ucasset2", newInt(100000000)), sdk.NewCoin("uasset3", newInt(90000000))))
	s.Require().NoError(err)
	return s.lendKeeper.GetUserBorrowIDCounter(s.ctx)
}

func (s *KeeperTestSuite) f9AuctionFor(borrowID uint64) bool {
	for _, lv := range s.liquidationKeeper.GetLockedVaults(s.ctx) {
		if lv.InitiatorType == "lend" && lv.OriginalVaultId == borrowID {
			for _, a := range s.auctionsV2Keeper.GetAuctions(s.ctx) {
				if a.LockedVaultId == lv.LockedVaultId {
					return true
				}
			}
		}
	}
	return false
}

func (s *KeeperTestSuite) TestF9ErrorAbortsSweepAndLeavesPartialWrites() {
	s.ctx = s.ctx.WithBlockHeight(10).WithBlockTime(time.Date(2024, 1, 1, 0, 0, 0, 0, time.UTC))
	// Standard fixture of this suite: pool 1 ("cmdx") with ASSET1 $2 / ASSET2 $2 / ASSET3 $1 (6 decimals),
	//   borrow 1: alice, 100 cASSET1 collateral -> 70 ASSET2
	//   borrow 2: bob,  1000 cASSET1 collateral -> 700 ASSET2
	s.AddAppAssets()
	server := lendKeeper.NewMsgServerImpl(s.lendKeeper)
	cmdx := authtypes.NewModuleAddress("cmdx")

	// The collateral deposited in a lend pool is itself lendable. Carol supplies ASSET2 and borrows almost all the
	// ASSET1 of the pool (borrow 3): ordinary high-utilisation situation.
	s.fundAddr(sdk.MustAccAddressFromBech32(f9Carol), sdk.NewCoins(sdk.NewCoin("uasset2", newInt(100000000000))))
	_, err := server.Lend(sdk.WrapSDKContext(s.ctx), lendtypes.NewMsgLend(f9Carol, 2, sdk.NewCoin("uasset2", newInt(100000000000)), 1, 3))
	s.Require().NoError(err)
	carolLend, found := s.lendKeeper.GetLendIDForAssetIDPoolID(s.ctx, f9Carol, 2, 1)
	s.Require().True(found)
	asset1InPool := s.app.BankKeeper.GetBalance(s.ctx, cmdx, "uasset1").Amount
	leave := newInt(50000000) // 50 ASSET1 stay in the pool: less than the collateral of borrow 1 (100) and of borrow 2 (1000)
	_, err = server.Borrow(sdk.WrapSDKContext(s.ctx), lendtypes.NewMsgBorrow(f9Carol, carolLend, s.f9PairID(2, 1, 1), false,
		sdk.NewCoin("ucasset2", newInt(100000000000)), sdk.NewCoin("uasset1", asset1InPool.Sub(leave))))
	s.Require().NoError(err)
	s.Require().Equal(leave, s.app.BankKeeper.GetBalance(s.ctx, cmdx, "uasset1").Amount)

	// dave: borrow 4, 100 cASSET2 -> 90 ASSET3
	daveBorrow := s.f9AddDaveBorrow(server)
	s.Require().Equal(uint64(4), daveBorrow)

	// GetBorrows concatenates the BorrowIds of the (pool, asset) records: ASSET1 [3], ASSET2 [1 2], ASSET3 [4]
	borrows, _ := s.lendKeeper.GetBorrows(s.ctx)
	s.Require().Equal([]uint64{3, 1, 2, 4}, borrows)

	// next block: everything is healthy, the sweep runs to its end
	s.f9NextBlock()
	s.Require().NoError(s.liquidationKeeper.Liquidate(s.ctx))
	s.Require().Equal(uint64(0), s.liquidationKeeper.GetLockedVaultID(s.ctx))

	// oracle: ASSET1 $2 -> $1, ASSET2 $2 -> $1.5. Borrows 1, 2 and 4 are now above their liquidation thresholds.
	// Borrows 1 and 2 cannot be seized right now (their collateral is lent out), borrow 4 can.
	s.SetOraclePrice(1, 1000000)
	s.SetOraclePrice(2, 1500000)
	s.f9NextBlock()

	errLiq := s.liquidationKeeper.Liquidate(s.ctx) // what BeginBlocker calls (it only logs the error)
	b1, _ := s.lendKeeper.GetBorrow(s.ctx, 1)
	b2, _ := s.lendKeeper.GetBorrow(s.ctx, 2)
	b4, _ := s.lendKeeper.GetBorrow(s.ctx, 4)
	fmt.Printf("F9(2): block %d: Liquidate returned: %v\n", s.ctx.BlockHeight(), errLiq)
	fmt.Printf("F9(2): block %d: IsLiquidated b1=%v b2=%v b4=%v ; auction exists b1=%v b2=%v b4=%v ; lockedVaultID=%d\n", s.ctx.BlockHeight(),
		b1.IsLiquidated, b2.IsLiquidated, b4.IsLiquidated, s.f9AuctionFor(1), s.f9AuctionFor(2), s.f9AuctionFor(4), s.liquidationKeeper.GetLockedVaultID(s.ctx))

	// (a) the failing step of borrow 1 leaves no trace
	s.Require().False(b1.IsLiquidated && !s.f9AuctionFor(1),
		"F9(2a): borrow 1 is flagged IsLiquidated although no locked vault / auction exists for it: the write made by the failed step was kept")
	// (b) the failure of borrow 1 does not stop the sweep: borrow 4, behind it, is liquidated in this block
	s.Require().True(b4.IsLiquidated && s.f9AuctionFor(4),
		"F9(2b): borrow 4 is liquidatable and seizable but was not processed: the sweep stopped at borrow 1")
	// (c) ... and Liquidate goes on to LiquidateForSurplusAndDebt instead of returning the borrow's error
	s.Require().NoError(errLiq, "F9(2c): the error of one borrow is returned by Liquidate (LiquidateForSurplusAndDebt skipped)")
	// (d) alice can still act on her position (every lend message refuses a position flagged IsLiquidated)
	_, err = server.Repay(sdk.WrapSDKContext(s.ctx), lendtypes.NewMsgRepay(f9Alice, 1, sdk.NewCoin("uasset2", newInt(1000000))))
	s.Require().NoError(err, "F9(2d): borrower cannot repay")
}

// Same fixture without carol: the oracle stops reporting ASSET1 (market.UpdatePriceList sets IsPriceActive=false
// for that asset only). Borrows 1 and 2 cannot be evaluated; borrow 3 (dave, ASSET2 -> ASSET3) can and must be liquidated.
func (s *KeeperTestSuite) TestF9InactivePriceBlocksLaterBorrows() {
	s.ctx = s.ctx.WithBlockHeight(10).WithBlockTime(time.Date(2024, 1, 1, 0, 0, 0, 0, time.UTC))
	s.AddAppAssets()
	server := lendKeeper.NewMsgServerImpl(s.lendKeeper)
	daveBorrow := s.f9AddDaveBorrow(server)
	s.Require().Equal(uint64(3), daveBorrow)
	borrows, _ := s.lendKeeper.GetBorrows(s.ctx)
	s.Require().Equal([]uint64{1, 2, 3}, borrows)

	s.f9NextBlock()
	s.Require().NoError(s.liquidationKeeper.Liquidate(s.ctx))

	twa, found := s.app.MarketKeeper.GetTwa(s.ctx, 1)
	s.Require().True(found)
	twa.IsPriceActive = false
	s.app.MarketKeeper.SetTwa(s.ctx, twa)
	s.SetOraclePrice(2, 1500000)

	var errLiq error
	var b3 lendtypes.BorrowAsset
	for i := 0; i < 5; i++ {
		s.f9NextBlock()
		errLiq = s.liquidationKeeper.Liquidate(s.ctx)
		b3, _ = s.lendKeeper.GetBorrow(s.ctx, 3)
		fmt.Printf("F9(3): block %d: Liquidate returned: %v ; borrow 3 liquidated: %v\n", s.ctx.BlockHeight(), errLiq, b3.IsLiquidated)
	}
	s.Require().True(b3.IsLiquidated && s.f9AuctionFor(3),
		"F9(3): after 5 blocks borrow 3 (under-collateralised, priced, seizable) is still not liquidated: every sweep stopped at borrow 1")
	s.Require().NoError(errLiq)
}
