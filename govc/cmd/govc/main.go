package main

import (
	"fmt"
	"golang.org/x/tools/go/packages"
)

func main() { fmt.Println(packages.NeedTypes) }
