package main

import (
	"flag"
	"fmt"
	"os"

	"govc/eng"
)

func main() {
	if len(os.Args) < 2 {
		fmt.Fprintln(os.Stderr, "usage: govc check|lock|list|dump ...")
		os.Exit(2)
	}
	cmd := os.Args[1]
	fs := flag.NewFlagSet(cmd, flag.ExitOnError)
	repo := fs.String("repo", "/repo", "repository root")
	verif := fs.String("verif", "/verif", "verification directory")
	prop := fs.String("prop", "", "property id")
	tier := fs.String("tier", "quick", "quick|thorough")
	only := fs.String("func", "", "restrict to functions whose name contains this")
	timeout := fs.Int("timeout", 0, "solver timeout (s)")
	verbose := fs.Bool("v", false, "verbose")
	fs.Parse(os.Args[2:])
	cfg := eng.RunConfig{Repo: *repo, VerifDir: *verif, Prop: *prop, Tier: *tier, OnlyFunc: *only, Timeout: *timeout, Verbose: *verbose}
	switch cmd {
	case "check":
		os.Exit(eng.CmdCheck(cfg))
	case "lock":
		os.Exit(eng.CmdLock(cfg))
	case "dump":
		os.Exit(eng.CmdDump(cfg))
	default:
		fmt.Fprintln(os.Stderr, "unknown command", cmd)
		os.Exit(2)
	}
}
