package main

import (
	"fmt"
	"os"
	"time"

	"govc/eng"
)

func main() {
	data, _ := os.ReadFile(os.Args[1])
	for i := 0; i < 3; i++ {
		t0 := time.Now()
		r := eng.Solve("/tmp/solvetest.d", "q", string(data), 10, nil)
		fmt.Println(r.Status, r.Solver, r.Ms, time.Since(t0), r.All, r.Output)
	}
}
