package eng

import (
	"fmt"
	"go/ast"
	"go/types"
	"sort"
	"strings"
)

// Static (frame) obligations: decided on the typed AST without a solver. They are named like every other obligation
// and go through the same lock / verdict pipeline.

func staticObl(name, prop, kind string, ok bool, pos, src string) *Obligation {
	o := &Obligation{Name: name, Prop: prop, Kind: kind, Hyp: True, Goal: BoolC(ok), Pos: pos, Src: src}
	return o
}

func (pr *Program) pkgRel(p string) string {
	if i := strings.Index(p, "/comdex/"); i >= 0 {
		return p[i+len("/comdex/"):]
	}
	return p
}

// consensusPkg reports whether a package takes part in state transitions (x/**, app/**, types/**; not CLI, simulation, tests).
func consensusPkg(path string) bool {
	if !(strings.Contains(path, "/comdex/x/") || strings.Contains(path, "/comdex/app") || strings.HasSuffix(path, "/comdex/types") || strings.Contains(path, "/comdex/types/")) {
		return false
	}
	for _, ex := range []string{"/client", "/simulation", "/testutil", "/cli"} {
		if strings.Contains(path, ex) {
			return false
		}
	}
	return true
}

func enclosingFuncs(pi *PkgInfo) []*ast.FuncDecl {
	var out []*ast.FuncDecl
	for _, f := range pi.P.Syntax {
		for _, d := range f.Decls {
			if fd, ok := d.(*ast.FuncDecl); ok && fd.Body != nil {
				out = append(out, fd)
			}
		}
	}
	return out
}

func (pr *Program) declTag(pi *PkgInfo, fd *ast.FuncDecl) string {
	if obj, ok := pi.P.TypesInfo.Defs[fd.Name].(*types.Func); ok {
		return pr.pkgRel(pi.Path) + "." + funcDisplayName(obj)
	}
	return pr.pkgRel(pi.Path) + "." + fd.Name.Name
}

// AnalysisC15ClosureFrames: every function literal passed to ApplyFuncIfNoError works only through its own context
// parameter: no variable of a context type declared outside the literal occurs free in it.
func (pr *Program) AnalysisC15ClosureFrames() []*Obligation {
	var out []*Obligation
	for _, path := range pr.sortedPkgs() {
		pi := pr.Pkgs[path]
		if !consensusPkg(path) {
			continue
		}
		info := pi.P.TypesInfo
		for _, fd := range enclosingFuncs(pi) {
			n := 0
			ast.Inspect(fd.Body, func(nd ast.Node) bool {
				call, ok := nd.(*ast.CallExpr)
				if !ok {
					return true
				}
				sel, ok := call.Fun.(*ast.SelectorExpr)
				if !ok || sel.Sel.Name != "ApplyFuncIfNoError" {
					return true
				}
				if f, ok := info.Uses[sel.Sel].(*types.Func); !ok || !strings.HasSuffix(f.Pkg().Path(), "/comdex/types") {
					return true
				}
				n++
				name := fmt.Sprintf("%s/frame#c15-closure@%d", pr.declTag(pi, fd), n)
				if len(call.Args) != 2 {
					return true
				}
				lit, ok := call.Args[1].(*ast.FuncLit)
				if !ok {
					out = append(out, staticObl(name, "C15", "frame", false, pr.Pos(call.Pos()), "the step passed to ApplyFuncIfNoError is not a function literal: its frame cannot be checked"))
					return true
				}
				bad := ""
				ast.Inspect(lit.Body, func(m ast.Node) bool {
					id, ok := m.(*ast.Ident)
					if !ok {
						return true
					}
					v, ok := info.Uses[id].(*types.Var)
					if !ok || !isCtxType(v.Type()) {
						return true
					}
					// declared outside the literal?
					if v.Pos() < lit.Pos() || v.Pos() > lit.End() {
						bad = fmt.Sprintf("outer context variable %q used inside the wrapped step at %s", id.Name, pr.Pos(id.Pos()))
					}
					return true
				})
				src := "closure passed to ApplyFuncIfNoError uses only its own context parameter"
				if bad != "" {
					src = bad
				}
				out = append(out, staticObl(name, "C15", "frame", bad == "", pr.Pos(call.Pos()), src))
				return true
			})
		}
	}
	return out
}

func (pr *Program) sortedPkgs() []string {
	var ps []string
	for p := range pr.Pkgs {
		ps = append(ps, p)
	}
	sort.Strings(ps)
	return ps
}

// RunAnalyses returns the static obligations of a property.
func (pr *Program) RunAnalyses(prop string) []*Obligation {
	switch prop {
	case "C15":
		return pr.AnalysisC15ClosureFrames()
	}
	return nil
}
