package eng

import (
	"go/token"
	"fmt"
	"go/ast"
	"go/types"
	"sort"
	"strings"
)

// Static (frame) obligations: decided on the typed AST without a solver. They are named like every other obligation
// and go through the same lock / verdict pipeline.

func staticObl(name, prop, kind string, ok bool, pos, src string) *Obligation {
	o := &Obligation{Name: name, Prop: prop, Kind: kind, Hyp: True, Goal: BoolC(ok), Pos: pos, Src: src}
	return o
}

func (pr *Program) pkgRel(p string) string {
	if i := strings.Index(p, "/comdex/"); i >= 0 {
		return p[i+len("/comdex/"):]
	}
	return p
}

// consensusPkg reports whether a package takes part in state transitions (x/**, app/**, types/**; not CLI, simulation, tests).
func consensusPkg(path string) bool {
	if !(strings.Contains(path, "/comdex/x/") || strings.Contains(path, "/comdex/app") || strings.HasSuffix(path, "/comdex/types") || strings.Contains(path, "/comdex/types/")) {
		return false
	}
	for _, ex := range []string{"/client", "/simulation", "/testutil", "/cli"} {
		if strings.Contains(path, ex) {
			return false
		}
	}
	return true
}

func enclosingFuncs(pi *PkgInfo) []*ast.FuncDecl {
	var out []*ast.FuncDecl
	for _, f := range pi.P.Syntax {
		for _, d := range f.Decls {
			if fd, ok := d.(*ast.FuncDecl); ok && fd.Body != nil {
				out = append(out, fd)
			}
		}
	}
	return out
}

func (pr *Program) declTag(pi *PkgInfo, fd *ast.FuncDecl) string {
	if obj, ok := pi.P.TypesInfo.Defs[fd.Name].(*types.Func); ok {
		return pr.pkgRel(pi.Path) + "." + funcDisplayName(obj)
	}
	return pr.pkgRel(pi.Path) + "." + fd.Name.Name
}

// AnalysisC15ClosureFrames: every function literal passed to ApplyFuncIfNoError works only through its own context
// parameter: no variable of a context type declared outside the literal occurs free in it.
func (pr *Program) AnalysisC15ClosureFrames() []*Obligation {
	var out []*Obligation
	for _, path := range pr.sortedPkgs() {
		pi := pr.Pkgs[path]
		if !consensusPkg(path) {
			continue
		}
		info := pi.P.TypesInfo
		for _, fd := range enclosingFuncs(pi) {
			n := 0
			ast.Inspect(fd.Body, func(nd ast.Node) bool {
				call, ok := nd.(*ast.CallExpr)
				if !ok {
					return true
				}
				sel, ok := call.Fun.(*ast.SelectorExpr)
				if !ok || sel.Sel.Name != "ApplyFuncIfNoError" {
					return true
				}
				if f, ok := info.Uses[sel.Sel].(*types.Func); !ok || !strings.HasSuffix(f.Pkg().Path(), "/comdex/types") {
					return true
				}
				n++
				name := fmt.Sprintf("%s/frame#c15-closure@%d", pr.declTag(pi, fd), n)
				if len(call.Args) != 2 {
					return true
				}
				lit, ok := call.Args[1].(*ast.FuncLit)
				if !ok {
					out = append(out, staticObl(name, "C15", "frame", false, pr.Pos(call.Pos()), "the step passed to ApplyFuncIfNoError is not a function literal: its frame cannot be checked"))
					return true
				}
				bad := ""
				ast.Inspect(lit.Body, func(m ast.Node) bool {
					id, ok := m.(*ast.Ident)
					if !ok {
						return true
					}
					v, ok := info.Uses[id].(*types.Var)
					if !ok || !isCtxType(v.Type()) {
						return true
					}
					// declared outside the literal?
					if v.Pos() < lit.Pos() || v.Pos() > lit.End() {
						bad = fmt.Sprintf("outer context variable %q used inside the wrapped step at %s", id.Name, pr.Pos(id.Pos()))
					}
					return true
				})
				src := "closure passed to ApplyFuncIfNoError uses only its own context parameter"
				if bad != "" {
					src = bad
				}
				out = append(out, staticObl(name, "C15", "frame", bad == "", pr.Pos(call.Pos()), src))
				return true
			})
		}
	}
	return out
}

func (pr *Program) sortedPkgs() []string {
	var ps []string
	for p := range pr.Pkgs {
		ps = append(ps, p)
	}
	sort.Strings(ps)
	return ps
}

// RunAnalyses returns the static obligations of a property.
func (pr *Program) RunAnalyses(prop string) []*Obligation {
	switch prop {
	case "C15":
		return pr.AnalysisC15ClosureFrames()
	case "C14":
		// "fails without any state change" for the sweeps rests on the same closure frames: a step that works on the outer
		// context is not rolled back when the price it needs is missing
		var out []*Obligation
		for _, o := range pr.AnalysisC15ClosureFrames() {
			if strings.Contains(o.Name, "/frame#c15-closure") && (strings.Contains(o.Name, "x/liquidation") || strings.Contains(o.Name, "x/auction")) {
				c := *o
				c.Name = strings.Replace(o.Name, "/frame#c15-closure", "/frame#c14-step-is-rolled-back", 1)
				c.Prop = "C14"
				out = append(out, &c)
			}
		}
		return out
	case "C16":
		return pr.AnalysisC16()
	case "C17":
		return pr.AnalysisC17Reset()
	case "C20":
		return append(pr.AnalysisC20(pr.C20Derived), pr.AnalysisC20InitOrder()...)
	}
	return nil
}

// MapRanges lists every range statement over a map in consensus packages (C16).
func (pr *Program) MapRanges() []string {
	var out []string
	for _, path := range pr.sortedPkgs() {
		if !consensusPkg(path) {
			continue
		}
		pi := pr.Pkgs[path]
		info := pi.P.TypesInfo
		for _, fd := range enclosingFuncs(pi) {
			ast.Inspect(fd.Body, func(n ast.Node) bool {
				if rs, ok := n.(*ast.RangeStmt); ok {
					if t := info.TypeOf(rs.X); t != nil {
						if _, isMap := t.Underlying().(*types.Map); isMap {
							out = append(out, pr.declTag(pi, fd)+" @ "+pr.Pos(rs.Pos()))
						}
					}
				}
				return true
			})
		}
	}
	return out
}

// ---------- C16: sources of nondeterminism ----------

var ambientFuncs = map[string]bool{
	"time.Now": true, "time.Since": true, "time.Until": true, "time.After": true, "time.Tick": true, "time.NewTimer": true, "time.NewTicker": true, "time.Sleep": true,
	"os.Getenv": true, "os.Environ": true, "os.Hostname": true, "os.Getpid": true, "os.LookupEnv": true, "os.Getwd": true,
	"runtime.NumGoroutine": true, "runtime.Gosched": true, "runtime.NumCPU": true, "runtime.GOMAXPROCS": true, "runtime.GC": true, "runtime.ReadMemStats": true,
}

// AnalysisC16 emits one ambient-read frame obligation per consensus package and one commutation obligation per map range.
func (pr *Program) AnalysisC16() []*Obligation {
	var out []*Obligation
	x := NewExec(pr)
	reach := pr.reachableFromEntryPoints()
	for _, path := range pr.sortedPkgs() {
		if !consensusPkg(path) {
			continue
		}
		pi := pr.Pkgs[path]
		info := pi.P.TypesInfo
		var hits []string
		for _, file := range pi.P.Syntax {
			fname := pr.Fset.Position(file.Pos()).Filename
			if strings.HasSuffix(fname, "_simulation.go") || strings.HasSuffix(fname, "zz_verif_contracts.go") {
				continue
			}
			for _, d := range file.Decls {
				fd, ok := d.(*ast.FuncDecl)
				if !ok || fd.Body == nil {
					continue
				}
				// only code reachable from the state-transition entry points takes part in consensus
				if fobj, ok := info.Defs[fd.Name].(*types.Func); !ok || !reach[pr.Funcs[fobj]] {
					continue
				}
				nRange := 0
				ast.Inspect(fd.Body, func(n ast.Node) bool {
					switch n := n.(type) {
					case *ast.GoStmt:
						hits = append(hits, "go statement at "+pr.Pos(n.Pos()))
					case *ast.SelectStmt:
						hits = append(hits, "select statement at "+pr.Pos(n.Pos()))
					case *ast.CallExpr:
						var obj types.Object
						switch f := unparen(n.Fun).(type) {
						case *ast.SelectorExpr:
							if info.Selections[f] == nil {
								obj = info.Uses[f.Sel]
							}
						case *ast.Ident:
							obj = info.Uses[f]
						}
						if fn, ok := obj.(*types.Func); ok && fn.Pkg() != nil {
							full := fn.Pkg().Path() + "." + fn.Name()
							if ambientFuncs[full] || fn.Pkg().Path() == "math/rand" || fn.Pkg().Path() == "crypto/rand" || fn.Pkg().Path() == "math/rand/v2" {
								if !(fn.Pkg().Path() == "math/rand" && (fn.Name() == "New" || fn.Name() == "NewSource")) {
									hits = append(hits, full+" at "+pr.Pos(n.Pos()))
								}
							}
							if fn.Pkg().Path() == "fmt" {
								for _, a := range n.Args {
									if tv, ok := info.Types[a]; ok && tv.Value != nil && strings.Contains(tv.Value.ExactString(), "%p") {
										hits = append(hits, "pointer formatting %p at "+pr.Pos(n.Pos()))
									}
								}
							}
						}
					case *ast.RangeStmt:
						if t := info.TypeOf(n.X); t != nil {
							if _, isMap := t.Underlying().(*types.Map); isMap {
								nRange++
								ok, why := pr.mapRangeOrderIndependent(x, pi, fd, n)
								name := fmt.Sprintf("%s/commute#c16-maprange@%d", pr.declTag(pi, fd), nRange)
								out = append(out, staticObl(name, "C16", "commute", ok, pr.Pos(n.Pos()), why))
							}
						}
					}
					return true
				})
			}
		}
		src := "no wall-clock, random, environment, scheduler or pointer-identity read in " + pr.pkgRel(path)
		if len(hits) > 0 {
			src = "ambient reads: " + strings.Join(hits, "; ")
		}
		out = append(out, staticObl(pr.pkgRel(path)+"/frame#c16-ambient", "C16", "frame", len(hits) == 0, pr.pkgRel(path), src))
	}
	return out
}

func isCommutativeAccType(t types.Type) bool {
	if k, ok := primNamed(t); ok {
		return k == "sdkint" || k == "dec" || k == "sdkuint"
	}
	if b, ok := t.Underlying().(*types.Basic); ok {
		return b.Info()&types.IsInteger != 0
	}
	return false
}

// mapRangeOrderIndependent recognises two disciplines under which the effect of a map range does not depend on
// the iteration order: (a) a commutative exact accumulation whose per-item term writes nothing but the item itself,
// (b) collect-then-sort.
func (pr *Program) mapRangeOrderIndependent(x *Exec, pi *PkgInfo, fd *ast.FuncDecl, rs *ast.RangeStmt) (bool, string) {
	info := pi.P.TypesInfo
	if len(rs.Body.List) != 1 {
		return false, "map range body is not a single accumulation or append statement"
	}
	as, ok := rs.Body.List[0].(*ast.AssignStmt)
	if !ok || len(as.Lhs) != 1 || len(as.Rhs) != 1 {
		return false, "map range body is not a single assignment"
	}
	lhs, ok := as.Lhs[0].(*ast.Ident)
	if !ok {
		return false, "map range assigns to a non-variable"
	}
	lobj := info.ObjectOf(lhs)
	keyObjs := map[types.Object]bool{}
	for _, e := range []ast.Expr{rs.Key, rs.Value} {
		if id, ok := e.(*ast.Ident); ok && id.Name != "_" {
			if o := info.ObjectOf(id); o != nil {
				keyObjs[o] = true
			}
		}
	}
	mentions := func(e ast.Expr, o types.Object) bool {
		found := false
		ast.Inspect(e, func(n ast.Node) bool {
			if id, ok := n.(*ast.Ident); ok && info.ObjectOf(id) == o {
				found = true
			}
			return !found
		})
		return found
	}
	// (b) collect-then-sort
	if call, ok := as.Rhs[0].(*ast.CallExpr); ok {
		if id, ok := call.Fun.(*ast.Ident); ok && id.Name == "append" && len(call.Args) == 2 {
			if a0, ok := call.Args[0].(*ast.Ident); ok && info.ObjectOf(a0) == lobj {
				if pr.sortedBeforeUse(pi, fd, rs, lobj) {
					return true, "collect-then-sort: the collected slice is sorted before any other use"
				}
				return false, "the slice collected from the map is used before it is sorted"
			}
		}
	}
	// (a) commutative accumulation
	if !isCommutativeAccType(lobj.Type()) {
		return false, "accumulator type is not an exact commutative monoid (e.g. float or slice)"
	}
	var term ast.Expr
	switch as.Tok.String() {
	case "+=":
		term = as.Rhs[0]
	case "=":
		switch r := as.Rhs[0].(type) {
		case *ast.CallExpr: // acc = acc.Add(E)
			if se, ok := r.Fun.(*ast.SelectorExpr); ok && se.Sel.Name == "Add" && len(r.Args) == 1 {
				if b, ok := se.X.(*ast.Ident); ok && info.ObjectOf(b) == lobj {
					term = r.Args[0]
				}
			}
		case *ast.BinaryExpr: // acc = acc + E
			if r.Op.String() == "+" {
				if b, ok := r.X.(*ast.Ident); ok && info.ObjectOf(b) == lobj {
					term = r.Y
				}
			}
		}
	}
	if term == nil {
		return false, "map range body is not of the form acc = acc.Add(E) / acc += E"
	}
	if mentions(term, lobj) {
		return false, "the accumulated term reads the accumulator"
	}
	ws := WriteSet{}
	x.collectWrites(term, info, pi, ws, map[*FuncInfo]bool{})
	if len(ws) > 0 {
		return false, "the accumulated term writes chain state"
	}
	// pointer arguments must be the item itself (distinct map keys are distinct objects)
	bad := ""
	ast.Inspect(term, func(n ast.Node) bool {
		call, ok := n.(*ast.CallExpr)
		if !ok {
			return true
		}
		for _, a := range call.Args {
			t := info.TypeOf(a)
			if t == nil {
				continue
			}
			_, isPtr := t.Underlying().(*types.Pointer)
			_, isIface := t.Underlying().(*types.Interface)
			if isPtr || isIface {
				if id, ok := a.(*ast.Ident); !ok || !keyObjs[info.ObjectOf(id)] {
					bad = "a pointer/interface argument other than the map item is passed to a call in the accumulated term"
				}
			}
		}
		return true
	})
	if bad != "" {
		return false, bad
	}
	return true, "commutative exact accumulation over distinct items (order-independent)"
}

// sortedBeforeUse: after the loop, the first statement using the slice sorts it, or passes it to a function of this
// package whose first use of the parameter is a sort call.
func (pr *Program) sortedBeforeUse(pi *PkgInfo, fd *ast.FuncDecl, rs *ast.RangeStmt, obj types.Object) bool {
	info := pi.P.TypesInfo
	isSortCall := func(call *ast.CallExpr, o types.Object, inf *types.Info) bool {
		se, ok := call.Fun.(*ast.SelectorExpr)
		if !ok {
			return false
		}
		if f, ok := inf.Uses[se.Sel].(*types.Func); ok && f.Pkg() != nil && (f.Pkg().Path() == "sort" || f.Pkg().Path() == "slices") && len(call.Args) > 0 {
			if id, ok := call.Args[0].(*ast.Ident); ok && inf.ObjectOf(id) == o {
				return true
			}
		}
		return false
	}
	var next ast.Stmt
	var find func(list []ast.Stmt) bool
	find = func(list []ast.Stmt) bool {
		for i, st := range list {
			if st == ast.Stmt(rs) {
				if i+1 < len(list) {
					next = list[i+1]
				}
				return true
			}
			found := false
			ast.Inspect(st, func(n ast.Node) bool {
				if b, ok := n.(*ast.BlockStmt); ok && !found {
					if find(b.List) {
						found = true
					}
				}
				return !found
			})
			if found {
				return true
			}
		}
		return false
	}
	find(fd.Body.List)
	if next == nil {
		return false
	}
	var call *ast.CallExpr
	switch s := next.(type) {
	case *ast.ExprStmt:
		call, _ = s.X.(*ast.CallExpr)
	case *ast.ReturnStmt:
		if len(s.Results) == 1 {
			call, _ = s.Results[0].(*ast.CallExpr)
		}
	}
	if call == nil {
		return false
	}
	if isSortCall(call, obj, info) {
		return true
	}
	// passed to a local function that sorts its parameter first
	var callee *types.Func
	switch f := call.Fun.(type) {
	case *ast.Ident:
		callee, _ = info.Uses[f].(*types.Func)
	case *ast.SelectorExpr:
		if sel := info.Selections[f]; sel != nil {
			callee, _ = sel.Obj().(*types.Func)
		}
	}
	fi := pr.Funcs[callee]
	if callee == nil || fi == nil || fi.Decl.Body == nil {
		return false
	}
	argIdx := -1
	for i, a := range call.Args {
		if id, ok := a.(*ast.Ident); ok && info.ObjectOf(id) == obj {
			argIdx = i
		}
	}
	if argIdx < 0 {
		return false
	}
	sig := callee.Type().(*types.Signature)
	if argIdx >= sig.Params().Len() {
		return false
	}
	param := sig.Params().At(argIdx)
	cinfo := fi.Pkg.P.TypesInfo
	for _, st := range fi.Decl.Body.List {
		uses := false
		ast.Inspect(st, func(n ast.Node) bool {
			if id, ok := n.(*ast.Ident); ok && cinfo.ObjectOf(id) == param {
				uses = true
			}
			return !uses
		})
		if !uses {
			continue
		}
		// allow a leading emptiness test: if len(p) == 0 { return ... }
		if is, ok := st.(*ast.IfStmt); ok {
			if be, ok := is.Cond.(*ast.BinaryExpr); ok {
				if c, ok := be.X.(*ast.CallExpr); ok {
					if id, ok := c.Fun.(*ast.Ident); ok && id.Name == "len" {
						continue
					}
				}
			}
		}
		if es, ok := st.(*ast.ExprStmt); ok {
			if c, ok := es.X.(*ast.CallExpr); ok && isSortCall(c, param, cinfo) {
				return true
			}
		}
		return false
	}
	return false
}

// reachableFromEntryPoints computes the functions of /repo reachable from the state-transition entry points:
// message servers, begin/end blockers, genesis init/export, the app's ABCI methods and the wasm custom plugins.
func (pr *Program) reachableFromEntryPoints() map[*FuncInfo]bool {
	if pr.reach != nil {
		return pr.reach
	}
	x := NewExec(pr)
	reach := map[*FuncInfo]bool{}
	var work []*FuncInfo
	add := func(fi *FuncInfo) {
		if fi != nil && !reach[fi] {
			reach[fi] = true
			work = append(work, fi)
		}
	}
	for _, fi := range pr.Funcs {
		if !consensusPkg(fi.Pkg.Path) {
			continue
		}
		n := fi.Obj.Name()
		recv := ""
		if sig := fi.Obj.Type().(*types.Signature); sig.Recv() != nil {
			recv = namedPath(sig.Recv().Type())
		}
		switch {
		case n == "BeginBlocker" || n == "EndBlocker" || n == "BeginBlock" || n == "EndBlock" || n == "InitGenesis" || n == "ExportGenesis" || n == "InitChainer":
			add(fi)
		case strings.HasSuffix(recv, ".msgServer") || strings.HasSuffix(recv, ".MsgServer"):
			add(fi)
		case strings.Contains(fi.Pkg.Path, "/app/wasm") && (n == "DispatchMsg" || n == "CustomQuerier" || strings.HasPrefix(n, "Custom")):
			add(fi)
		case n == "OnRecvPacket" || n == "OnAcknowledgementPacket" || n == "OnTimeoutPacket":
			add(fi)
		}
	}
	for len(work) > 0 {
		fi := work[len(work)-1]
		work = work[:len(work)-1]
		if fi.Decl.Body == nil {
			continue
		}
		info := fi.Pkg.P.TypesInfo
		ast.Inspect(fi.Decl.Body, func(n ast.Node) bool {
			call, ok := n.(*ast.CallExpr)
			if !ok {
				return true
			}
			var obj types.Object
			hint := ""
			switch f := unparen(call.Fun).(type) {
			case *ast.Ident:
				obj = info.Uses[f]
			case *ast.SelectorExpr:
				if sel := info.Selections[f]; sel != nil {
					obj = sel.Obj()
					if in, ok := f.X.(*ast.SelectorExpr); ok {
						hint = in.Sel.Name
					}
				} else {
					obj = info.Uses[f.Sel]
				}
			}
			fn, ok := obj.(*types.Func)
			if !ok {
				return true
			}
			if callee, ok := pr.Funcs[fn]; ok {
				add(callee)
				return true
			}
			if callee, ok := pr.Funcs[fn.Origin()]; ok {
				add(callee)
				return true
			}
			if sig := fn.Type().(*types.Signature); sig.Recv() != nil {
				if _, isIface := sig.Recv().Type().Underlying().(*types.Interface); isIface {
					add(x.Pr.ResolveIfaceMethod(sig.Recv().Type(), fn.Name(), hint))
				}
			}
			return true
		})
	}
	pr.reach = reach
	return reach
}

// ---------- C20: genesis export / import completeness ----------

// prefixVarsOf returns the package-level []byte key-prefix variables (and string key constants used through KeyPrefix)
// referenced by an expression, following key-constructor functions of the module's types package.
func (pr *Program) prefixVarsOf(e ast.Node, info *types.Info, seen map[*FuncInfo]bool, out map[string]bool) {
	if pr.visitingInit == nil {
		pr.visitingInit = map[ast.Expr]bool{}
	}
	ast.Inspect(e, func(n ast.Node) bool {
		switch n := n.(type) {
		case *ast.Ident:
			pr.notePrefixObj(info.Uses[n], out)
			// local variable: follow its initialiser(s)
			if v, ok := info.Uses[n].(*types.Var); ok && v.Pkg() != nil && v.Parent() != v.Pkg().Scope() {
				for _, init := range pr.localInits(v, info) {
					if !pr.visitingInit[init] {
						pr.visitingInit[init] = true
						pr.prefixVarsOf(init, info, seen, out)
						delete(pr.visitingInit, init)
					}
				}
			}
		case *ast.SelectorExpr:
			if info.Selections[n] == nil {
				pr.notePrefixObj(info.Uses[n.Sel], out)
			}
		case *ast.CallExpr:
			var obj types.Object
			switch f := unparen(n.Fun).(type) {
			case *ast.Ident:
				obj = info.Uses[f]
			case *ast.SelectorExpr:
				if info.Selections[f] == nil {
					obj = info.Uses[f.Sel]
				}
			}
			if fn, ok := obj.(*types.Func); ok {
				if fi := pr.Funcs[fn]; fi != nil && !seen[fi] && fi.Decl.Body != nil && returnsBytes(fn) {
					seen[fi] = true
					pr.prefixVarsOf(fi.Decl.Body, fi.Pkg.P.TypesInfo, seen, out)
				}
			}
		}
		return true
	})
}

func returnsBytes(fn *types.Func) bool {
	sig := fn.Type().(*types.Signature)
	if sig.Results().Len() != 1 {
		return false
	}
	if sl, ok := sig.Results().At(0).Type().Underlying().(*types.Slice); ok {
		if b, ok := sl.Elem().Underlying().(*types.Basic); ok && b.Kind() == types.Uint8 {
			return true
		}
	}
	return false
}

func (pr *Program) notePrefixObj(o types.Object, out map[string]bool) {
	switch v := o.(type) {
	case *types.Var:
		if v.Pkg() == nil || v.Parent() != v.Pkg().Scope() {
			return
		}
		if sl, ok := v.Type().Underlying().(*types.Slice); ok {
			if b, ok := sl.Elem().Underlying().(*types.Basic); ok && b.Kind() == types.Uint8 {
				out[v.Name()] = true
			}
		}
	case *types.Const:
		if v.Pkg() != nil && v.Parent() == v.Pkg().Scope() && isString(v.Type()) && (strings.HasSuffix(v.Name(), "Key") || strings.HasSuffix(v.Name(), "Prefix")) {
			out[v.Name()] = true
		}
	}
}

type storeUse struct {
	reads  map[string]bool
	writes map[string]bool
}

// storeUseOf computes, transitively through functions of the same module, the key prefixes read and written.
func (pr *Program) storeUseOf(fi *FuncInfo, modPath string, memo map[*FuncInfo]*storeUse, stack map[*FuncInfo]bool) *storeUse {
	if u, ok := memo[fi]; ok {
		return u
	}
	u := &storeUse{reads: map[string]bool{}, writes: map[string]bool{}}
	if stack[fi] || fi.Decl.Body == nil {
		return u
	}
	stack[fi] = true
	defer delete(stack, fi)
	info := fi.Pkg.P.TypesInfo
	ast.Inspect(fi.Decl.Body, func(n ast.Node) bool {
		call, ok := n.(*ast.CallExpr)
		if !ok {
			return true
		}
		var obj types.Object
		switch f := unparen(call.Fun).(type) {
		case *ast.Ident:
			obj = info.Uses[f]
		case *ast.SelectorExpr:
			if sel := info.Selections[f]; sel != nil {
				obj = sel.Obj()
			} else {
				obj = info.Uses[f.Sel]
			}
		}
		fn, ok := obj.(*types.Func)
		if !ok {
			return true
		}
		name := fn.Name()
		sig := fn.Type().(*types.Signature)
		isStore := false
		if sig.Recv() != nil {
			rp := namedPath(sig.Recv().Type())
			if strings.HasSuffix(rp, ".KVStore") || strings.HasSuffix(rp, ".BasicKVStore") || strings.HasSuffix(rp, "prefix.Store") {
				isStore = true
			}
		}
		switch {
		case isStore && (name == "Set" || name == "Delete") && len(call.Args) >= 1:
			pr.prefixVarsOf(call.Args[0], info, map[*FuncInfo]bool{}, u.writes)
		case isStore && (name == "Get" || name == "Has") && len(call.Args) >= 1:
			pr.prefixVarsOf(call.Args[0], info, map[*FuncInfo]bool{}, u.reads)
		case (name == "KVStorePrefixIterator" || name == "KVStoreReversePrefixIterator") && len(call.Args) == 2:
			pr.prefixVarsOf(call.Args[1], info, map[*FuncInfo]bool{}, u.reads)
		case name == "NewStore" && strings.HasSuffix(fn.Pkg().Path(), "store/prefix") && len(call.Args) == 2:
			// prefix store: count both (the sub-store is then iterated or written)
			pr.prefixVarsOf(call.Args[1], info, map[*FuncInfo]bool{}, u.reads)
			pr.prefixVarsOf(call.Args[1], info, map[*FuncInfo]bool{}, u.writes)
		}
		if callee := pr.Funcs[fn]; callee != nil && strings.HasPrefix(callee.Pkg.Path, modPath) {
			cu := pr.storeUseOf(callee, modPath, memo, stack)
			for k := range cu.reads {
				u.reads[k] = true
			}
			for k := range cu.writes {
				u.writes[k] = true
			}
		}
		return true
	})
	if len(stack) == 1 {
		memo[fi] = u
	}
	return u
}

// AnalysisC20: per module, every key prefix written by the module is read by ExportGenesis and written by InitGenesis.
func (pr *Program) AnalysisC20(derived map[string]string) []*Obligation {
	var out []*Obligation
	mods := []string{"vault", "locker", "lend", "collector", "liquidation", "liquidationsV2", "auction", "auctionsV2", "rewards", "liquidity", "market", "asset", "esm", "tokenmint", "bandoracle"}
	for _, m := range mods {
		modPath := ""
		for p := range pr.Pkgs {
			if strings.HasSuffix(p, "/x/"+m) {
				modPath = p
			}
		}
		if modPath == "" {
			continue
		}
		memo := map[*FuncInfo]*storeUse{}
		written := map[string]bool{}
		var export, initg *FuncInfo
		for _, fi := range pr.Funcs {
			if !strings.HasPrefix(fi.Pkg.Path, modPath) || strings.Contains(fi.Pkg.Path, "/client") || strings.Contains(fi.Pkg.Path, "/simulation") {
				continue
			}
			if fi.Pkg.Path != modPath && fi.Pkg.Path != modPath+"/keeper" {
				continue
			}
			fname := pr.Fset.Position(fi.Decl.Pos()).Filename
			if strings.HasSuffix(fname, "_test.go") {
				continue
			}
			u := pr.storeUseOf(fi, modPath, memo, map[*FuncInfo]bool{})
			rank := func(f *FuncInfo) int {
				// package-level function of the module root > keeper method > anything else; AppModule wrappers never
				sig := f.Obj.Type().(*types.Signature)
				if sig.Recv() != nil && strings.Contains(namedPath(sig.Recv().Type()), "AppModule") {
					return -1
				}
				if sig.Recv() == nil && f.Pkg.Path == modPath {
					return 3
				}
				if sig.Recv() == nil {
					return 2
				}
				return 1
			}
			switch fi.Obj.Name() {
			case "ExportGenesis":
				if rank(fi) > 0 && (export == nil || rank(fi) > rank(export) || (rank(fi) == rank(export) && fi.Obj.Pos() < export.Obj.Pos())) {
					export = fi
				}
			case "InitGenesis":
				if rank(fi) > 0 && (initg == nil || rank(fi) > rank(initg) || (rank(fi) == rank(initg) && fi.Obj.Pos() < initg.Obj.Pos())) {
					initg = fi
				}
			default:
				for k := range u.writes {
					written[k] = true
				}
			}
		}
		if export == nil || initg == nil {
			out = append(out, staticObl("x/"+m+"/genesis#c20-functions", "C20", "frame", false, "x/"+m, "module has no ExportGenesis/InitGenesis function"))
			continue
		}
		eu := pr.storeUseOf(export, modPath, memo, map[*FuncInfo]bool{})
		iu := pr.storeUseOf(initg, modPath, memo, map[*FuncInfo]bool{})
		out = append(out, pr.genesisFieldRoundTrip(m, modPath, export, initg, memo)...)
		out = append(out, pr.exportUnconditional(m, modPath, export)...)
		var ks []string
		for k := range written {
			ks = append(ks, k)
		}
		sort.Strings(ks)
		for _, k := range ks {
			if why, ok := derived[m+"."+k]; ok {
				out = append(out, staticObl(fmt.Sprintf("x/%s/export-covers#%s", m, k), "C20", "frame", true, "x/"+m, "declared derived: "+why))
				continue
			}
			okE := eu.reads[k]
			srcE := "store family " + k + " is read by ExportGenesis"
			if !okE {
				srcE = "store family " + k + " is written by the module but never read by ExportGenesis: its content is lost by an export/import round trip"
			}
			out = append(out, staticObl(fmt.Sprintf("x/%s/export-covers#%s", m, k), "C20", "frame", okE, "x/"+m, srcE))
			okI := iu.writes[k]
			srcI := "store family " + k + " is written by InitGenesis"
			if !okI {
				srcI = "store family " + k + " is never written by InitGenesis: it starts empty after import"
			}
			out = append(out, staticObl(fmt.Sprintf("x/%s/import-restores#%s", m, k), "C20", "frame", okI, "x/"+m, srcI))
		}
	}
	return out
}

// localInits finds the expressions assigned to a local variable in its declaring file.
func (pr *Program) localInits(v *types.Var, info *types.Info) []ast.Expr {
	if pr.localInitMemo == nil {
		pr.localInitMemo = map[*types.Var][]ast.Expr{}
		pr.visitingInit = map[ast.Expr]bool{}
	}
	if r, ok := pr.localInitMemo[v]; ok {
		return r
	}
	var out []ast.Expr
	for _, pi := range pr.Pkgs {
		if pi.P.Types != v.Pkg() {
			continue
		}
		for _, f := range pi.P.Syntax {
			if v.Pos() < f.Pos() || v.Pos() > f.End() {
				continue
			}
			ast.Inspect(f, func(n ast.Node) bool {
				switch n := n.(type) {
				case *ast.ValueSpec:
					for i, nm := range n.Names {
						if info.Defs[nm] == v && i < len(n.Values) {
							out = append(out, n.Values[i])
						}
					}
				case *ast.AssignStmt:
					if len(n.Lhs) == len(n.Rhs) {
						for i, l := range n.Lhs {
							if id, ok := l.(*ast.Ident); ok && (info.Defs[id] == v || info.Uses[id] == v) {
								out = append(out, n.Rhs[i])
							}
						}
					}
				case *ast.RangeStmt:
					// a range variable carries the ranged expression
					for _, kv := range []ast.Expr{n.Key, n.Value} {
						if id, ok := kv.(*ast.Ident); ok && (info.Defs[id] == v || info.Uses[id] == v) {
							out = append(out, n.X)
						}
					}
				}
				return true
			})
		}
	}
	pr.localInitMemo[v] = out
	return out
}

// genesisFieldRoundTrip: every field of the exported GenesisState that is filled from the store is written back by
// InitGenesis into (one of) the store families it was read from, with a value that comes from that same field.
func (pr *Program) genesisFieldRoundTrip(m, modPath string, export, initg *FuncInfo, memo map[*FuncInfo]*storeUse) []*Obligation {
	var out []*Obligation
	einfo := export.Pkg.P.TypesInfo
	// 1. the returned composite value: NewGenesisState(args...) or &types.GenesisState{...}
	fieldExpr := map[string]ast.Expr{}
	var order []string
	ast.Inspect(export.Decl.Body, func(n ast.Node) bool {
		switch n := n.(type) {
		case *ast.CallExpr:
			var fn *types.Func
			switch f := unparen(n.Fun).(type) {
			case *ast.SelectorExpr:
				if einfo.Selections[f] == nil {
					fn, _ = einfo.Uses[f.Sel].(*types.Func)
				}
			case *ast.Ident:
				fn, _ = einfo.Uses[f].(*types.Func)
			}
			if fn == nil || fn.Name() != "NewGenesisState" {
				return true
			}
			ctor := pr.Funcs[fn]
			if ctor == nil || ctor.Decl.Body == nil {
				return true
			}
			// parameter -> field through the struct literal in the constructor
			cinfo := ctor.Pkg.P.TypesInfo
			paramIdx := map[types.Object]int{}
			i := 0
			for _, fl := range ctor.Decl.Type.Params.List {
				for _, nm := range fl.Names {
					paramIdx[cinfo.Defs[nm]] = i
					i++
				}
			}
			ast.Inspect(ctor.Decl.Body, func(c ast.Node) bool {
				if kv, ok := c.(*ast.KeyValueExpr); ok {
					if k, ok := kv.Key.(*ast.Ident); ok {
						if v, ok := kv.Value.(*ast.Ident); ok {
							if idx, ok := paramIdx[cinfo.Uses[v]]; ok && idx < len(n.Args) {
								if _, dup := fieldExpr[k.Name]; !dup {
									fieldExpr[k.Name] = n.Args[idx]
									order = append(order, k.Name)
								}
							}
						}
					}
				}
				return true
			})
		case *ast.CompositeLit:
			if t := einfo.TypeOf(n); t != nil && strings.HasSuffix(namedPath(t), ".GenesisState") {
				for _, el := range n.Elts {
					if kv, ok := el.(*ast.KeyValueExpr); ok {
						if k, ok := kv.Key.(*ast.Ident); ok {
							if _, dup := fieldExpr[k.Name]; !dup {
								fieldExpr[k.Name] = kv.Value
								order = append(order, k.Name)
							}
						}
					}
				}
			}
		}
		return true
	})
	if len(fieldExpr) == 0 {
		return out
	}
	readsOfExpr := func(e ast.Expr, fi *FuncInfo) map[string]bool {
		r := map[string]bool{}
		info := fi.Pkg.P.TypesInfo
		var visit func(e ast.Node, depth int)
		visit = func(e ast.Node, depth int) {
			ast.Inspect(e, func(n ast.Node) bool {
				switch n := n.(type) {
				case *ast.CallExpr:
					var obj types.Object
					switch f := unparen(n.Fun).(type) {
					case *ast.SelectorExpr:
						if sel := info.Selections[f]; sel != nil {
							obj = sel.Obj()
						} else {
							obj = info.Uses[f.Sel]
						}
					case *ast.Ident:
						obj = info.Uses[f]
					}
					if fn, ok := obj.(*types.Func); ok {
						if callee := pr.Funcs[fn]; callee != nil && strings.HasPrefix(callee.Pkg.Path, modPath) {
							u := pr.storeUseOf(callee, modPath, memo, map[*FuncInfo]bool{})
							for k := range u.reads {
								r[k] = true
							}
						}
					}
				case *ast.Ident:
					if v, ok := info.Uses[n].(*types.Var); ok && v.Pkg() != nil && v.Parent() != v.Pkg().Scope() && depth < 3 {
						for _, init := range pr.localInits(v, info) {
							visit(init, depth+1)
						}
					}
				}
				return true
			})
		}
		visit(e, 0)
		return r
	}
	// 2. InitGenesis: statements that use state.<Field>
	iinfo := initg.Pkg.P.TypesInfo
	var stateObj types.Object
	for _, fl := range initg.Decl.Type.Params.List {
		for _, nm := range fl.Names {
			if o := iinfo.Defs[nm]; o != nil && strings.HasSuffix(namedPath(o.Type()), ".GenesisState") {
				stateObj = o
			}
		}
	}
	writesOfField := map[string]map[string]bool{}
	usesField := map[string]bool{}
	if stateObj != nil {
		for _, st := range initg.Decl.Body.List {
			fields := map[string]bool{}
			var collect func(n ast.Node, depth int)
			collect = func(n ast.Node, depth int) {
				ast.Inspect(n, func(n ast.Node) bool {
					switch n := n.(type) {
					case *ast.SelectorExpr:
						if id, ok := n.X.(*ast.Ident); ok && iinfo.Uses[id] == stateObj {
							fields[n.Sel.Name] = true
						}
					case *ast.Ident:
						// a local that was initialised / assigned from a genesis field carries that field
						if v, ok := iinfo.Uses[n].(*types.Var); ok && v != stateObj && v.Pkg() != nil && v.Parent() != v.Pkg().Scope() && depth < 3 {
							for _, init := range pr.localInits(v, iinfo) {
								collect(init, depth+1)
							}
						}
					}
					return true
				})
			}
			collect(st, 0)
			if len(fields) == 0 {
				continue
			}
			w := map[string]bool{}
			ast.Inspect(st, func(n ast.Node) bool {
				call, ok := n.(*ast.CallExpr)
				if !ok {
					return true
				}
				if se, ok := unparen(call.Fun).(*ast.SelectorExpr); ok {
					if sel := iinfo.Selections[se]; sel != nil {
						if fn, ok := sel.Obj().(*types.Func); ok {
							if callee := pr.Funcs[fn]; callee != nil && strings.HasPrefix(callee.Pkg.Path, modPath) {
								u := pr.storeUseOf(callee, modPath, memo, map[*FuncInfo]bool{})
								for k := range u.writes {
									w[k] = true
								}
							}
						}
					}
				}
				return true
			})
			for f := range fields {
				usesField[f] = true
				if writesOfField[f] == nil {
					writesOfField[f] = map[string]bool{}
				}
				for k := range w {
					writesOfField[f][k] = true
				}
			}
		}
	}
	// single source: a local of InitGenesis that carries a genesis field must not also be assigned from a different
	// genesis field (e.g. an imported id counter overwritten by the id of the last imported record)
	if stateObj != nil {
		fieldsOf := func(e ast.Node) map[string]bool {
			fs := map[string]bool{}
			ast.Inspect(e, func(n ast.Node) bool {
				switch n := n.(type) {
				case *ast.SelectorExpr:
					if id, ok := n.X.(*ast.Ident); ok && iinfo.Uses[id] == stateObj {
						fs[n.Sel.Name] = true
					}
				case *ast.Ident:
					if v, ok := iinfo.Uses[n].(*types.Var); ok && v != stateObj && v.Pkg() != nil && v.Parent() != v.Pkg().Scope() {
						// range variable over a genesis field, or a local initialised from one (one level)
						for _, init := range pr.localInits(v, iinfo) {
							ast.Inspect(init, func(m ast.Node) bool {
								if se, ok := m.(*ast.SelectorExpr); ok {
									if id, ok := se.X.(*ast.Ident); ok && iinfo.Uses[id] == stateObj {
										fs[se.Sel.Name] = true
									}
								}
								return true
							})
						}
					}
				}
				return true
			})
			return fs
		}
		seenVar := map[*types.Var]bool{}
		var bad []string
		ast.Inspect(initg.Decl.Body, func(n ast.Node) bool {
			id, ok := n.(*ast.Ident)
			if !ok {
				return true
			}
			v, ok := iinfo.Defs[id].(*types.Var)
			if !ok || v == stateObj || seenVar[v] {
				return true
			}
			seenVar[v] = true
			var sets []string
			distinct := map[string]bool{}
			for _, init := range pr.localInits(v, iinfo) {
				fs := fieldsOf(init)
				if len(fs) == 0 {
					continue
				}
				var ks []string
				for k := range fs {
					ks = append(ks, k)
				}
				sort.Strings(ks)
				key := strings.Join(ks, "+")
				if !distinct[key] {
					distinct[key] = true
					sets = append(sets, key)
				}
			}
			if len(sets) > 1 {
				sort.Strings(sets)
				bad = append(bad, v.Name()+" <- "+strings.Join(sets, " | "))
			}
			return true
		})
		sort.Strings(bad)
		src := "every local of InitGenesis that carries a genesis field is assigned from that one field only"
		if len(bad) > 0 {
			src = "a local of InitGenesis is assigned from different genesis fields (an imported value can be overwritten by another): " + strings.Join(bad, "; ")
		}
		out = append(out, staticObl(fmt.Sprintf("x/%s/roundtrip-single-source", m), "C20", "frame", len(bad) == 0, "x/"+m, src))
	}
	for _, f := range order {
		r := readsOfExpr(fieldExpr[f], export)
		if len(r) == 0 {
			continue // not filled from the store (constant / params handled elsewhere)
		}
		ok := false
		for k := range r {
			if writesOfField[f][k] {
				ok = true
			}
		}
		var rs []string
		for k := range r {
			rs = append(rs, k)
		}
		sort.Strings(rs)
		src := "genesis field " + f + " (exported from " + strings.Join(rs, ",") + ") is written back to that store from the same field by InitGenesis"
		if !ok {
			if !usesField[f] {
				src = "genesis field " + f + " (exported from " + strings.Join(rs, ",") + ") is never used by InitGenesis: the exported value is dropped on import"
			} else {
				src = "genesis field " + f + " (exported from " + strings.Join(rs, ",") + ") is used by InitGenesis but never written back to the store family it came from"
			}
		}
		out = append(out, staticObl(fmt.Sprintf("x/%s/roundtrip#%s", m, f), "C20", "frame", ok, "x/"+m, src))
	}
	return out
}


// exportUnconditional: ExportGenesis (and the same-named functions of the module it delegates to) must export every
// record it iterates over: no continue / break / goto, no return before the last statement, and every `if` tests only
// the found/ok flag or the error of a lookup (`found`, `!found`, `ok`, `err != nil`, `err == nil`). A data-dependent
// skip ("apps without pools have nothing to export") silently drops live state from the export.
func (pr *Program) exportUnconditional(m, modPath string, export *FuncInfo) []*Obligation {
	var bad []string
	seen := map[*FuncInfo]bool{}
	var check func(fi *FuncInfo)
	check = func(fi *FuncInfo) {
		if fi == nil || seen[fi] || fi.Decl == nil || fi.Decl.Body == nil {
			return
		}
		seen[fi] = true
		info := fi.Pkg.P.TypesInfo
		body := fi.Decl.Body
		var last ast.Stmt
		if n := len(body.List); n > 0 {
			last = body.List[n-1]
		}
		flagCond := func(e ast.Expr) bool {
			e = unparen(e)
			if u, ok := e.(*ast.UnaryExpr); ok && u.Op == token.NOT {
				e = unparen(u.X)
			}
			if id, ok := e.(*ast.Ident); ok {
				return id.Name == "found" || id.Name == "ok" || strings.HasPrefix(id.Name, "found") || strings.HasPrefix(id.Name, "ok")
			}
			if b, ok := e.(*ast.BinaryExpr); ok && (b.Op == token.NEQ || b.Op == token.EQL) {
				x, xok := unparen(b.X).(*ast.Ident)
				y, yok := unparen(b.Y).(*ast.Ident)
				if xok && yok && y.Name == "nil" {
					if t := info.TypeOf(x); t != nil && t.String() == "error" {
						return true
					}
				}
			}
			return false
		}
		ast.Inspect(body, func(n ast.Node) bool {
			switch v := n.(type) {
			case *ast.FuncLit:
				return false
			case *ast.BranchStmt:
				bad = append(bad, fmt.Sprintf("%s at %s", v.Tok, pr.Pos(v.Pos())))
			case *ast.ReturnStmt:
				if ast.Stmt(v) != last {
					bad = append(bad, "early return at "+pr.Pos(v.Pos()))
				}
			case *ast.IfStmt:
				if !flagCond(v.Cond) {
					bad = append(bad, "data-dependent if at "+pr.Pos(v.Pos()))
				}
			case *ast.SwitchStmt, *ast.TypeSwitchStmt, *ast.SelectStmt:
				bad = append(bad, "switch at "+pr.Pos(n.Pos()))
			case *ast.CallExpr:
				var obj types.Object
				switch f := unparen(v.Fun).(type) {
				case *ast.Ident:
					obj = info.Uses[f]
				case *ast.SelectorExpr:
					if sel := info.Selections[f]; sel != nil {
						obj = sel.Obj()
					} else {
						obj = info.Uses[f.Sel]
					}
				}
				if fn, ok := obj.(*types.Func); ok {
					if callee := pr.Funcs[fn]; callee != nil && callee.Obj.Name() == "ExportGenesis" && strings.HasPrefix(callee.Pkg.Path, modPath) {
						check(callee)
					}
				}
			}
			return true
		})
	}
	check(export)
	sort.Strings(bad)
	src := "ExportGenesis exports every record it iterates over (no skip statements, only found/err tests)"
	if len(bad) > 0 {
		src = "ExportGenesis may skip records: " + strings.Join(bad, "; ")
	}
	out := []*Obligation{staticObl("x/"+m+"/export-unconditional", "C20", "frame", len(bad) == 0, "x/"+m, src)}
	// the list getters ExportGenesis calls: their iterator loops must collect every record (no continue/break, no
	// data-dependent test inside the loop)
	var badG []string
	var getters []string
	seenG := map[*FuncInfo]bool{}
	for fi := range seen {
		info := fi.Pkg.P.TypesInfo
		ast.Inspect(fi.Decl.Body, func(n ast.Node) bool {
			call, ok := n.(*ast.CallExpr)
			if !ok {
				return true
			}
			var obj types.Object
			switch f := unparen(call.Fun).(type) {
			case *ast.Ident:
				obj = info.Uses[f]
			case *ast.SelectorExpr:
				if sel := info.Selections[f]; sel != nil {
					obj = sel.Obj()
				} else {
					obj = info.Uses[f.Sel]
				}
			}
			fn, ok := obj.(*types.Func)
			if !ok {
				return true
			}
			g := pr.Funcs[fn]
			if g == nil || seenG[g] || seen[g] || g.Decl == nil || g.Decl.Body == nil || !strings.HasPrefix(g.Pkg.Path, modPath) {
				return true
			}
			seenG[g] = true
			loops := 0
			ast.Inspect(g.Decl.Body, func(n ast.Node) bool {
				switch v := n.(type) {
				case *ast.FuncLit:
					return false
				case *ast.ForStmt, *ast.RangeStmt:
					loops++
					var body *ast.BlockStmt
					if f, ok := v.(*ast.ForStmt); ok {
						body = f.Body
					} else {
						body = v.(*ast.RangeStmt).Body
					}
					ast.Inspect(body, func(n ast.Node) bool {
						switch w := n.(type) {
						case *ast.FuncLit:
							return false
						case *ast.BranchStmt:
							badG = append(badG, fmt.Sprintf("%s: %s at %s", g.Obj.Name(), w.Tok, pr.Pos(w.Pos())))
						case *ast.IfStmt:
							badG = append(badG, fmt.Sprintf("%s: test inside the collecting loop at %s", g.Obj.Name(), pr.Pos(w.Pos())))
						case *ast.ReturnStmt:
							badG = append(badG, fmt.Sprintf("%s: return inside the collecting loop at %s", g.Obj.Name(), pr.Pos(w.Pos())))
						}
						return true
					})
					return false
				}
				return true
			})
			if loops > 0 {
				getters = append(getters, g.Obj.Name())
			}
			return true
		})
	}
	sort.Strings(badG)
	sort.Strings(getters)
	srcG := "the list getters called by ExportGenesis collect every record they iterate over: " + strings.Join(getters, ", ")
	if len(badG) > 0 {
		srcG = "a list getter called by ExportGenesis may skip records: " + strings.Join(badG, "; ")
	}
	out = append(out, staticObl("x/"+m+"/export-getters-unconditional", "C20", "frame", len(badG) == 0, "x/"+m, srcG))
	return out
}


// AnalysisC20InitOrder: a module whose InitGenesis (transitively) READS the store of another comdex module must be
// initialised after that module (app.mm.SetOrderInitGenesis): otherwise its import sees an empty store there - setters that
// validate against the other module reject or silently drop the imported records, and the round trip loses state.
func (pr *Program) AnalysisC20InitOrder() []*Obligation {
	var out []*Obligation
	// 1. the order, read off app.go
	order := map[string]int{}
	var orderPos string
	for _, pi := range pr.Pkgs {
		if !strings.HasSuffix(pi.Path, "/comdex/app") {
			continue
		}
		for _, f := range pi.P.Syntax {
			ast.Inspect(f, func(n ast.Node) bool {
				call, ok := n.(*ast.CallExpr)
				if !ok {
					return true
				}
				se, ok := call.Fun.(*ast.SelectorExpr)
				if !ok || se.Sel.Name != "SetOrderInitGenesis" {
					return true
				}
				orderPos = pr.Pos(call.Pos())
				for i, a := range call.Args {
					as, ok := a.(*ast.SelectorExpr)
					if !ok {
						continue
					}
					id, ok := as.X.(*ast.Ident)
					if !ok {
						continue
					}
					if pn, ok := pi.P.TypesInfo.Uses[id].(*types.PkgName); ok {
						path := pn.Imported().Path()
						if strings.Contains(path, "/comdex/x/") {
							order[moduleOf(path)] = i
						}
					}
				}
				return false
			})
		}
	}
	if len(order) == 0 {
		return []*Obligation{staticObl("app/init-order#found", "C20", "frame", false, "app", "app.mm.SetOrderInitGenesis(...) not found: the import order of the modules cannot be checked")}
	}
	// 2. per module: which other modules' stores does InitGenesis read
	var mods []string
	for m := range order {
		mods = append(mods, m)
	}
	sort.Strings(mods)
	x := NewExec(pr)
	for _, m := range mods {
		var initg *FuncInfo
		for _, fi := range pr.Funcs {
			if fi.Obj.Name() != "InitGenesis" || fi.Decl.Body == nil || !strings.HasSuffix(fi.Pkg.Path, "/x/"+m) && !strings.HasSuffix(fi.Pkg.Path, "/x/"+m+"/keeper") {
				continue
			}
			sig := fi.Obj.Type().(*types.Signature)
			if sig.Recv() != nil && strings.Contains(namedPath(sig.Recv().Type()), "AppModule") {
				continue
			}
			if strings.HasSuffix(pr.Fset.Position(fi.Decl.Pos()).Filename, "_test.go") {
				continue
			}
			if initg == nil || (sig.Recv() == nil && initg.Obj.Type().(*types.Signature).Recv() != nil) {
				initg = fi
			}
		}
		if initg == nil {
			continue
		}
		reads := map[string]string{}
		x.collectReads(initg.Decl.Body, initg.Pkg.P.TypesInfo, initg.Pkg, reads, map[*FuncInfo]bool{initg: true})
		var deps []string
		for n := range reads {
			if n != m {
				if _, ok := order[n]; ok {
					deps = append(deps, n)
				}
			}
		}
		sort.Strings(deps)
		for _, n := range deps {
			ok := order[n] < order[m]
			src := fmt.Sprintf("InitGenesis of x/%s reads the store of x/%s (through %s), so x/%s must be initialised before x/%s", m, n, reads[n], n, m)
			if !ok {
				src += " - but SetOrderInitGenesis lists it after: the import of x/" + m + " sees an empty x/" + n + " store"
			}
			out = append(out, staticObl("app/init-order#"+m+"-after-"+n, "C20", "frame", ok, orderPos, src))
		}
	}
	return out
}

// collectReads: modules whose stores may be read by the code under n (transitively), with one witness function each.
func (x *Exec) collectReads(n ast.Node, info *types.Info, pkg *PkgInfo, rs map[string]string, visiting map[*FuncInfo]bool) {
	ast.Inspect(n, func(n ast.Node) bool {
		call, ok := n.(*ast.CallExpr)
		if !ok {
			return true
		}
		var obj types.Object
		var hint string
		switch f := unparen(call.Fun).(type) {
		case *ast.Ident:
			obj = info.Uses[f]
		case *ast.SelectorExpr:
			if sel := info.Selections[f]; sel != nil {
				obj = sel.Obj()
				if in, ok := f.X.(*ast.SelectorExpr); ok {
					hint = in.Sel.Name
				}
			} else {
				obj = info.Uses[f.Sel]
			}
		}
		fn, ok := obj.(*types.Func)
		if !ok {
			return true
		}
		mark := func() {
			m := moduleOf(pkg.Path)
			if _, seen := rs[m]; !seen {
				w := pkg.Path
				if i := strings.Index(w, "/comdex/"); i >= 0 {
					w = w[i+len("/comdex/"):]
				}
				rs[m] = w
			}
		}
		if fn.Pkg() != nil && strings.HasSuffix(fn.Pkg().Path(), "cosmos-sdk/types") && (fn.Name() == "KVStorePrefixIterator" || fn.Name() == "KVStoreReversePrefixIterator") {
			mark()
			return true
		}
		sig := fn.Type().(*types.Signature)
		if sig.Recv() != nil {
			rt := sig.Recv().Type()
			rp := namedPath(rt)
			isRead := fn.Name() == "Get" || fn.Name() == "Has" || fn.Name() == "Iterator" || fn.Name() == "ReverseIterator"
			if _, isIface := rt.Underlying().(*types.Interface); isIface {
				iname := ""
				if nn, ok := rt.(*types.Named); ok {
					iname = nn.Obj().Name()
				}
				if rp == "github.com/cosmos/cosmos-sdk/store/types.KVStore" || iname == "KVStore" || iname == "BasicKVStore" {
					if isRead {
						mark()
					}
					return true
				}
				if fi := x.Pr.ResolveIfaceMethod(rt, fn.Name(), hint); fi != nil && !visiting[fi] && fi.Decl.Body != nil {
					visiting[fi] = true
					x.collectReads(fi.Decl.Body, fi.Pkg.P.TypesInfo, fi.Pkg, rs, visiting)
				}
				return true
			}
			if strings.HasSuffix(rp, "prefix.Store") {
				if isRead {
					mark()
				}
				return true
			}
		}
		fi, ok := x.Pr.Funcs[fn]
		if !ok {
			fi, ok = x.Pr.Funcs[fn.Origin()]
		}
		if ok && !visiting[fi] && fi.Decl.Body != nil {
			visiting[fi] = true
			x.collectReads(fi.Decl.Body, fi.Pkg.P.TypesInfo, fi.Pkg, rs, visiting)
		}
		return true
	})
}

// AnalysisC17Reset: "for a fixed window size N" rests on every price window being dropped whenever a new fetch-price
// proposal (the only place N changes) is recorded. Structural obligation on AddFetchPriceRecords: the loop that deletes the
// window of every asset listed by the market module is reached on every path (it is a direct child of the function body and
// no return precedes it) and deletes every listed asset (its body is the single delete call, no branch, no skip).
func (pr *Program) AnalysisC17Reset() []*Obligation {
	name := "x/bandoracle/keeper.(Keeper).AddFetchPriceRecords/frame#c17-new-proposal-resets-every-window"
	var fi *FuncInfo
	for _, f := range pr.Funcs {
		if f.Obj.Name() == "AddFetchPriceRecords" && strings.HasSuffix(f.Pkg.Path, "/x/bandoracle/keeper") && f.Decl != nil && f.Decl.Body != nil {
			fi = f
		}
	}
	if fi == nil {
		return []*Obligation{staticObl(name, "C17", "frame", false, "x/bandoracle/keeper", "function AddFetchPriceRecords not found")}
	}
	info := fi.Pkg.P.TypesInfo
	calleeName := func(e ast.Expr) string {
		call, ok := unparen(e).(*ast.CallExpr)
		if !ok {
			return ""
		}
		if sel, ok := unparen(call.Fun).(*ast.SelectorExpr); ok {
			return sel.Sel.Name
		}
		return ""
	}
	// variables assigned at top level from GetAllTwa
	listVars := map[types.Object]bool{}
	why := "no top-level loop over k.market.GetAllTwa(ctx) that deletes every listed window"
	ok := false
	for _, st := range fi.Decl.Body.List {
		if as, isAs := st.(*ast.AssignStmt); isAs && len(as.Lhs) == 1 && len(as.Rhs) == 1 && calleeName(as.Rhs[0]) == "GetAllTwa" {
			if id, isId := as.Lhs[0].(*ast.Ident); isId {
				if o := info.Defs[id]; o != nil {
					listVars[o] = true
				} else if o := info.Uses[id]; o != nil {
					listVars[o] = true
				}
			}
			continue
		}
		rs, isRange := st.(*ast.RangeStmt)
		if !isRange {
			continue
		}
		fromList := calleeName(rs.X) == "GetAllTwa"
		if id, isId := unparen(rs.X).(*ast.Ident); isId && listVars[info.Uses[id]] {
			fromList = true
		}
		if !fromList {
			continue
		}
		if len(rs.Body.List) != 1 {
			why = "the purge loop at " + pr.Pos(rs.Pos()) + " does more than delete each listed window"
			continue
		}
		es, isExpr := rs.Body.List[0].(*ast.ExprStmt)
		if !isExpr || calleeName(es.X) != "DeleteTwaData" {
			why = "the purge loop at " + pr.Pos(rs.Pos()) + " does not delete each listed window unconditionally"
			continue
		}
		call := unparen(es.X).(*ast.CallExpr)
		argOK := false
		if len(call.Args) == 2 {
			if sel, isSel := unparen(call.Args[1]).(*ast.SelectorExpr); isSel && sel.Sel.Name == "AssetID" {
				if id, isId := unparen(sel.X).(*ast.Ident); isId && rs.Value != nil {
					if vid, isV := rs.Value.(*ast.Ident); isV && info.Uses[id] != nil && info.Uses[id] == info.Defs[vid] {
						argOK = true
					}
				}
			}
		}
		if !argOK {
			why = "the purge loop at " + pr.Pos(rs.Pos()) + " does not delete the window of the listed asset"
			continue
		}
		early := ""
		ast.Inspect(fi.Decl.Body, func(n ast.Node) bool {
			if r, isRet := n.(*ast.ReturnStmt); isRet && r.Pos() < rs.Pos() {
				early = pr.Pos(r.Pos())
			}
			return true
		})
		if early != "" {
			why = "a return at " + early + " precedes the purge loop"
			continue
		}
		ok = true
		why = "every path through AddFetchPriceRecords deletes the window of every asset listed by the market module (loop at " + pr.Pos(rs.Pos()) + ")"
	}
	return []*Obligation{staticObl(name, "C17", "frame", ok, pr.Pos(fi.Decl.Pos()), why)}
}
