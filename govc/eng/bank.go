package eng

import (
	"go/ast"
)

// bank ledger model (T-BANK): bal: addr -> denom -> Int ; supply: denom -> Int

func (x *Exec) balOf(s *State, w *World, addr, denom *Term) *Term {
	x.readBank = true
	b := Select(Select(w.Bal, addr), denom)
	s.Assume(Ge(b, Zero))
	return b
}

func setBal(w *World, addr, denom, v *Term) {
	w.Bal = Store(w.Bal, addr, Store(Select(w.Bal, addr), denom, v))
}

// transfer moves coins from -> to; returns the error term (0 on success). No change on error.
func (x *Exec) bankTransfer(s *State, ctx *Value, from, to *Term, coins *Value, extraFail *Term, tag string) *Term {
	id, _ := x.ctxWorld(s, ctx)
	if coins.Conc == nil {
		if coins.K == KSlice && coins.Elem != nil && coins.Len != nil && len(coins.Elem.Fields) == 2 {
			// coin list of symbolic length. The bank rejects a list that is not valid (sorted by denom, hence without
			// duplicates; positive amounts), so on success the amount moved per denom is a function amt(d) with
			// amt(denom_j) = amount_j for every position j and amt(d) >= 0 for every d; nothing else changes. The
			// outcome (success / error) is left open; on error nothing changes. (amt(d) = 0 for denoms not in the list
			// is not stated: claims about untouched denoms cannot be proved through this model.)
			x.note("bank transfer of a coin list of symbolic length: modelled by a per-denom amount function (valid coin lists have distinct denoms) (%s)", tag)
			w0 := s.Worlds[id]
			amt := Fresh("coins.amt."+tag, SArr(SInt, SInt))
			j := x.qvar("j")
			el := selectV(coins.Elem, j)
			dj, aj := el.Fields[0].T, el.Fields[1].T
			s.Assume(Forall([]*Term{j}, Implies(And(Le(Zero, j), Lt(j, coins.Len)), And(Eq(Select(amt, dj), aj), Gt(aj, Zero)))))
			d := x.qvar("d")
			s.Assume(Forall([]*Term{d}, Ge(Select(amt, d), Zero)))
			nb := Fresh("bal.sent."+tag, w0.Bal.S)
			a := x.qvar("a")
			old := Select(Select(w0.Bal, a), d)
			delta := Ite(Eq(from, to), Zero, Ite(Eq(a, from), Neg(Select(amt, d)), Ite(Eq(a, to), Select(amt, d), Zero)))
			s.Assume(Forall([]*Term{a, d}, Eq(Select(Select(nb, a), d), Add(old, delta))))
			s.Assume(Forall([]*Term{d}, Ge(Select(Select(w0.Bal, from), d), Zero)))
			okc := Fresh("bank.ok."+tag, SBool)
			s.Assume(Implies(okc, Forall([]*Term{d}, Ge(Select(Select(w0.Bal, from), d), Select(amt, d)))))
			if extraFail != nil {
				s.Assume(Implies(okc, Not(extraFail)))
			}
			e := Fresh("err.bank."+tag, SInt)
			s.Assume(Neq(e, Zero))
			w := s.MutWorld(id)
			w.Bal = Ite(okc, nb, w0.Bal)
			return Ite(okc, Zero, e)
		}
		// symbolic coin list: ledger of both parties havocked, outcome unknown
		x.note("bank transfer of a coin list of symbolic length: balances havocked (%s)", tag)
		w := s.MutWorld(id)
		w.Bal = Fresh("bal.havoc", w.Bal.S)
		return Fresh("err.bank", SInt)
	}
	w0 := s.Worlds[id]
	tmp := w0.Clone()
	ok := True
	for _, c := range coins.Conc {
		d, a := c.Fields[0].T, c.Fields[1].T
		x.balOf(s, w0, from, d) // non-negativity of committed balances (bank invariant)
		x.balOf(s, w0, to, d)
		fb := Select(Select(tmp.Bal, from), d)
		ok = And(ok, Ge(fb, a), Ge(a, Zero))
		setBal(tmp, from, d, Sub(fb, a))
		tb := Select(Select(tmp.Bal, to), d)
		setBal(tmp, to, d, Add(tb, a))
	}
	if extraFail != nil {
		ok = And(ok, Not(extraFail))
	}
	e := Fresh("err.bank."+tag, SInt)
	s.Assume(Neq(e, Zero))
	w := s.MutWorld(id)
	w.Bal = Ite(ok, tmp.Bal, w0.Bal)
	return Ite(ok, Zero, e)
}

func init() {
	type bf = func(x *Exec, s *State, r *Value, a []*Value, c *ast.CallExpr) []*Value
	regBank := func(m string, f bf) {
		builtins["iface:BankKeeper."+m] = f
		builtins["iface:BankKeeperI."+m] = f
		builtins["(github.com/cosmos/cosmos-sdk/x/bank/keeper.BaseKeeper)."+m] = f
		builtins["(github.com/cosmos/cosmos-sdk/x/bank/keeper.BaseSendKeeper)."+m] = f
		builtins["(github.com/cosmos/cosmos-sdk/x/bank/keeper.BaseViewKeeper)."+m] = f
		builtins["iface:Keeper."+m+"@bank"] = f
	}
	errV := func(t *Term) []*Value { return []*Value{prim(t, tErr)} }
	regBank("SendCoins", func(x *Exec, s *State, r *Value, a []*Value, c *ast.CallExpr) []*Value {
		return errV(x.bankTransfer(s, a[0], a[1].T, a[2].T, a[3], nil, "send"))
	})
	regBank("SendCoinsFromModuleToAccount", func(x *Exec, s *State, r *Value, a []*Value, c *ast.CallExpr) []*Value {
		blocked := App("bank.blocked", SBool, a[2].T)
		return errV(x.bankTransfer(s, a[0], modAddr(a[1].T), a[2].T, a[3], blocked, "m2a"))
	})
	regBank("SendCoinsFromAccountToModule", func(x *Exec, s *State, r *Value, a []*Value, c *ast.CallExpr) []*Value {
		return errV(x.bankTransfer(s, a[0], a[1].T, modAddr(a[2].T), a[3], nil, "a2m"))
	})
	regBank("SendCoinsFromModuleToModule", func(x *Exec, s *State, r *Value, a []*Value, c *ast.CallExpr) []*Value {
		return errV(x.bankTransfer(s, a[0], modAddr(a[1].T), modAddr(a[2].T), a[3], nil, "m2m"))
	})
	regBank("MintCoins", func(x *Exec, s *State, r *Value, a []*Value, c *ast.CallExpr) []*Value {
		id, _ := x.ctxWorld(s, a[0])
		coins := a[2]
		if coins.Conc == nil {
			w := s.MutWorld(id)
			w.Bal = Fresh("bal.havoc", w.Bal.S)
			w.Supply = Fresh("supply.havoc", w.Supply.S)
			return errV(Fresh("err.bank", SInt))
		}
		w := s.MutWorld(id)
		addr := modAddr(a[1].T)
		for _, cn := range coins.Conc {
			d, amt := cn.Fields[0].T, cn.Fields[1].T
			setBal(w, addr, d, Add(x.balOf(s, w, addr, d), amt))
			sp := Select(w.Supply, d)
			s.Assume(Ge(sp, Zero))
			w.Supply = Store(w.Supply, d, Add(sp, amt))
		}
		x.Trusted["bank.MintCoins succeeds for modules with Minter permission (permission panic not modelled)"]++
		return errV(Zero)
	})
	regBank("BurnCoins", func(x *Exec, s *State, r *Value, a []*Value, c *ast.CallExpr) []*Value {
		id, w0 := x.ctxWorld(s, a[0])
		coins := a[2]
		if coins.Conc == nil {
			w := s.MutWorld(id)
			w.Bal = Fresh("bal.havoc", w.Bal.S)
			w.Supply = Fresh("supply.havoc", w.Supply.S)
			return errV(Fresh("err.bank", SInt))
		}
		tmp := w0.Clone()
		addr := modAddr(a[1].T)
		ok := True
		for _, cn := range coins.Conc {
			d, amt := cn.Fields[0].T, cn.Fields[1].T
			x.balOf(s, w0, addr, d)
			b := Select(Select(tmp.Bal, addr), d)
			ok = And(ok, Ge(b, amt), Ge(amt, Zero))
			setBal(tmp, addr, d, Sub(b, amt))
			s.Assume(Ge(Select(w0.Supply, d), Zero))
			sp := Select(tmp.Supply, d)
			tmp.Supply = Store(tmp.Supply, d, Sub(sp, amt))
		}
		e := Fresh("err.bank.burn", SInt)
		s.Assume(Neq(e, Zero))
		w := s.MutWorld(id)
		w.Bal = Ite(ok, tmp.Bal, w0.Bal)
		w.Supply = Ite(ok, tmp.Supply, w0.Supply)
		return errV(Ite(ok, Zero, e))
	})
	regBank("GetBalance", func(x *Exec, s *State, r *Value, a []*Value, c *ast.CallExpr) []*Value {
		_, w := x.ctxWorld(s, a[0])
		return []*Value{x.mkCoin(c, a[2].T, x.balOf(s, w, a[1].T, a[2].T))}
	})
	regBank("HasBalance", func(x *Exec, s *State, r *Value, a []*Value, c *ast.CallExpr) []*Value {
		_, w := x.ctxWorld(s, a[0])
		cn := a[2]
		return []*Value{prim(Ge(x.balOf(s, w, a[1].T, cn.Fields[0].T), cn.Fields[1].T), tBool)}
	})
	allBal := func(x *Exec, s *State, r *Value, a []*Value, c *ast.CallExpr) []*Value {
		id, _ := x.ctxWorld(s, a[0])
		v := x.freshValue(x.resType(c, 0), "allbal", s)
		v.Dyn = &Value{K: KOpaque, Module: "allbal", T: a[1].T, W: id}
		x.Trusted["SpendableCoins/GetAllBalances(addr).AmountOf(d) == bal[addr][d] (no vesting/locked coins on the queried accounts)"]++
		return []*Value{v}
	}
	regBank("GetAllBalances", allBal)
	regBank("SpendableCoins", allBal)
	regBank("GetSupply", func(x *Exec, s *State, r *Value, a []*Value, c *ast.CallExpr) []*Value {
		_, w := x.ctxWorld(s, a[0])
		sp := Select(w.Supply, a[1].T)
		s.Assume(Ge(sp, Zero))
		return []*Value{x.mkCoin(c, a[1].T, sp)}
	})
	regBank("BlockedAddr", func(x *Exec, s *State, r *Value, a []*Value, c *ast.CallExpr) []*Value {
		return []*Value{prim(App("bank.blocked", SBool, a[0].T), tBool)}
	})
	regAcc := func(m string, f bf) {
		builtins["iface:AccountKeeper."+m] = f
		builtins["iface:AccountKeeperI."+m] = f
		builtins["(github.com/cosmos/cosmos-sdk/x/auth/keeper.AccountKeeper)."+m] = f
	}
	regAcc("GetModuleAddress", func(x *Exec, s *State, r *Value, a []*Value, c *ast.CallExpr) []*Value {
		return []*Value{prim(modAddr(a[0].T), x.resType(c, 0))}
	})
	regAcc("GetModuleAccount", func(x *Exec, s *State, r *Value, a []*Value, c *ast.CallExpr) []*Value {
		return []*Value{{K: KOpaque, Typ: x.resType(c, 0), Module: "modacc", T: modAddr(a[1].T)}}
	})
	builtins["iface:ModuleAccountI.GetAddress"] = func(x *Exec, s *State, r *Value, a []*Value, c *ast.CallExpr) []*Value {
		if r != nil && r.Module == "modacc" && r.T != nil {
			return []*Value{prim(r.T, x.resType(c, 0))}
		}
		return []*Value{prim(Fresh("addr", SInt), x.resType(c, 0))}
	}
	builtins["iface:AccountI.GetAddress"] = builtins["iface:ModuleAccountI.GetAddress"]
}

// qvar makes a fresh bound variable for a quantifier built by a model (registered like the contract evaluator's).
func (x *Exec) qvar(n string) *Term {
	bv := Fresh("q."+n, SInt)
	if x.qVars == nil {
		x.qVars = map[*Term]bool{}
	}
	x.qVars[bv] = true
	return bv
}
