package eng

import (
	"os"
	"fmt"
	"go/ast"
	"go/token"
	"go/types"
	"strings"
)

type builtinFn func(x *Exec, s *State, recv *Value, args []*Value, call *ast.CallExpr) []*Value

var builtins = map[string]builtinFn{}

func (x *Exec) evalCall(s *State, call *ast.CallExpr) []*Value {
	info := x.cur.info
	// type conversion
	if tv, ok := info.Types[call.Fun]; ok && tv.IsType() {
		return []*Value{x.evalConversion(s, call, tv.Type)}
	}
	// builtin functions
	if id, ok := unparen(call.Fun).(*ast.Ident); ok {
		if b, ok := info.Uses[id].(*types.Builtin); ok {
			return x.evalBuiltin(s, call, b.Name())
		}
	}
	// immediately-invoked function literal
	if lit, ok := unparen(call.Fun).(*ast.FuncLit); ok {
		args := x.evalArgs(s, call, lit.Type, x.typeOf(lit).(*types.Signature))
		return x.callClosure(s, &Closure{Lit: lit, Env: x.cur.env, Info: x.cur.info, Pkg: x.cur.pkg}, args, call.Pos())
	}
	var callee types.Object
	var recvExpr ast.Expr
	switch f := unparen(call.Fun).(type) {
	case *ast.Ident:
		callee = info.Uses[f]
	case *ast.SelectorExpr:
		if sel := info.Selections[f]; sel != nil && sel.Kind() == types.MethodExpr {
			// method expression T.M(recv, args...)
			if m, ok := sel.Obj().(*types.Func); ok && len(call.Args) > 0 {
				recv := x.eval(s, call.Args[0])
				msig := m.Type().(*types.Signature)
				rest := &ast.CallExpr{Fun: call.Fun, Args: call.Args[1:], Lparen: call.Lparen, Rparen: call.Rparen, Ellipsis: call.Ellipsis}
				args := x.evalArgs(s, rest, nil, msig)
				return x.callFunc(s, m, recv, nil, args, call)
			}
		}
		if sel := info.Selections[f]; sel != nil {
			callee = sel.Obj()
			recvExpr = f.X
			if sel.Kind() == types.FieldVal {
				// call of a func-typed field
				fv := x.evalSelector(s, f)
				return x.callFuncValue(s, fv, call)
			}
		} else {
			callee = info.Uses[f.Sel]
		}
	case *ast.IndexExpr: // generic instantiation f[T](...)
		switch g := f.X.(type) {
		case *ast.Ident:
			callee = info.Uses[g]
		case *ast.SelectorExpr:
			callee = info.Uses[g.Sel]
		}
	default:
		fv := x.eval(s, call.Fun)
		return x.callFuncValue(s, fv, call)
	}
	switch c := callee.(type) {
	case *types.Func:
		sig := c.Type().(*types.Signature)
		var recv *Value
		if recvExpr != nil && sig.Recv() != nil {
			// pointer-receiver method on an addressable local struct variable: Go passes &v, writes reach v
			if _, wantPtr := sig.Recv().Type().Underlying().(*types.Pointer); wantPtr {
				if id, ok := unparen(recvExpr).(*ast.Ident); ok {
					if o, ok := info.ObjectOf(id).(*types.Var); ok && !o.IsField() {
						_, isPtr := o.Type().Underlying().(*types.Pointer)
						_, isStruct := o.Type().Underlying().(*types.Struct)
						if !isPtr && isStruct && strings.Contains(namedPath(o.Type()), "/comdex/") && !isKeeperLike(o.Type()) {
							if cell, ok := x.cur.env.Lookup(o); ok {
								if cv := s.Heap[cell]; cv != nil && cv.K == KStruct {
									recv = &Value{K: KPtr, Typ: types.NewPointer(o.Type()), Cell: cell, NilT: False}
								}
							}
						}
					}
				}
			}
			if recv == nil {
				recv = x.eval(s, recvExpr)
			}
		}
		args := x.evalArgs(s, call, nil, sig)
		return x.callFunc(s, c, recv, recvExpr, args, call)
	case *types.Var:
		// function-typed variable; sdk re-exports math constructors as package variables
		if c.Pkg() != nil && c.Parent() == c.Pkg().Scope() {
			key := c.Pkg().Path() + "." + c.Name()
			if b, ok := builtins[key]; ok {
				sig, _ := c.Type().Underlying().(*types.Signature)
				args := x.evalArgs(s, call, nil, sig)
				return b(x, s, nil, args, call)
			}
		}
		fv := x.lookupVar(s, c, call.Pos())
		return x.callFuncValue(s, fv, call)
	}
	x.fail(call.Pos(), "unsupported call target %T", callee)
	return nil
}

func unparen(e ast.Expr) ast.Expr {
	for {
		p, ok := e.(*ast.ParenExpr)
		if !ok {
			return e
		}
		e = p.X
	}
}

func (x *Exec) evalArgs(s *State, call *ast.CallExpr, _ *ast.FuncType, sig *types.Signature) []*Value {
	var args []*Value
	if len(call.Args) == 1 && sig != nil && sig.Params().Len() > 1 {
		// f(g()) with multi-value g
		return x.evalMulti(s, call.Args[0])
	}
	for i, a := range call.Args {
		v := x.eval(s, a)
		if sig != nil {
			np := sig.Params().Len()
			if sig.Variadic() && i >= np-1 {
				if call.Ellipsis.IsValid() {
					// passing a slice as the variadic argument
				} else {
					v = x.convertTo(s, v, sig.Params().At(np-1).Type().(*types.Slice).Elem())
				}
			} else if i < np {
				v = x.convertTo(s, v, sig.Params().At(i).Type())
			}
		}
		args = append(args, v)
	}
	if sig != nil && sig.Variadic() && !call.Ellipsis.IsValid() {
		np := sig.Params().Len()
		fixed := args
		var rest []*Value
		if len(args) >= np-1 {
			fixed = args[:np-1]
			rest = args[np-1:]
		}
		st := sig.Params().At(np - 1).Type()
		vs := &Value{K: KSlice, Typ: st, Len: IntC(int64(len(rest))), Conc: []*Value{}}
		for _, r := range rest {
			vs.Conc = append(vs.Conc, x.deaden(s, r))
		}
		args = append(append([]*Value{}, fixed...), vs)
	}
	return args
}

func (x *Exec) callFuncValue(s *State, fv *Value, call *ast.CallExpr) []*Value {
	sig, _ := x.typeOf(call.Fun).Underlying().(*types.Signature)
	args := x.evalArgs(s, call, nil, sig)
	if fv.K == KFunc && fv.Fn != nil {
		if fv.Fn.Lit != nil {
			return x.callClosure(s, fv.Fn, args, call.Pos())
		}
		if fv.Fn.Decl != nil {
			return x.inlineOrContract(s, fv.Fn.Decl, fv.Fn.Recv, args, call)
		}
		if fv.Dyn != nil && fv.Dyn.Module == "builtin:writeCache" {
			// commit the cache layer into its parent
			s.Worlds[fv.Dyn.Cell] = s.Worlds[fv.Dyn.W]
			return nil
		}
		if fv.Dyn != nil && fv.Dyn.Module != "" {
			if b, ok := builtins[fv.Dyn.Module]; ok && b != nil {
				return b(x, s, fv.Fn.Recv, args, call)
			}
		}
	}
	// a function-typed parameter: arbitrary behaviour — it may panic, and it may change (only) the worlds
	// reachable through the context values passed to it
	x.Unmod["call of unknown function value at "+x.Pr.Pos(call.Pos())]++
	if x.entrySnap != nil && x.selfFn != nil && x.selfFn.Contr != nil {
		if id, ok := unparen(call.Fun).(*ast.Ident); ok && id.Name == x.selfFn.Contr.Invokes {
			// `invokes f on entry`: every context handed to f carries exactly the entry state
			goal := True
			for _, a := range args {
				if a != nil && a.K == KCtx {
					goal = And(goal, worldEq(s.Worlds[a.W], x.entrySnap.Worlds[x.entryWorld]))
				}
			}
			x.invokeSeq++
			x.Obls = append(x.Obls, &Obligation{Name: fmt.Sprintf("%s/invokes#%s@%d", x.fnTag, id.Name, x.invokeSeq), Prop: x.propTag, Kind: "invokes", Hyp: s.PC, Goal: goal, Pos: x.Pr.Pos(call.Pos()), Src: "invokes " + id.Name + " on entry", Inputs: x.entryInputs})
		}
	}
	for _, a := range args {
		if a != nil && a.K == KCtx {
			if w, ok := s.Worlds[a.W]; ok {
				nw := w.Clone()
				tag := Fresh("fnval.w", SInt).Name
				nw.Tag = tag
				nw.Rest = Var(tag, SInt)
				nw.RestMod = nil
				nw.ModVer = nil
				nw.Fams = map[string]*FamState{}
				nw.Bal = Var(tag+".bal", w.Bal.S)
				nw.Supply = Var(tag+".supply", w.Supply.S)
				s.Worlds[a.W] = nw
			}
		}
	}
	if x.specMode == 0 {
		pc := Fresh("fnval.panics", SBool)
		ps := s.Clone()
		ps.Assume(pc)
		x.addPanicExit(x.cur, ps, "callee-panic", call.Pos())
		s.Assume(Not(pc))
	}
	return x.havocResults(s, sig, "fnval")
}

func (x *Exec) havocResults(s *State, sig *types.Signature, tag string) []*Value {
	var out []*Value
	if sig == nil {
		return out
	}
	for i := 0; i < sig.Results().Len(); i++ {
		out = append(out, x.freshValue(sig.Results().At(i).Type(), fmt.Sprintf("ret.%s.%d", tag, i), s))
	}
	return out
}

// callFunc dispatches a statically known callee.
func (x *Exec) callFunc(s *State, f *types.Func, recv *Value, recvExpr ast.Expr, args []*Value, call *ast.CallExpr) []*Value {
	sig := f.Type().(*types.Signature)
	full := f.FullName()
	if g := f.Origin(); g != nil {
		full = g.FullName()
	}
	if b, ok := builtins[full]; ok {
		return b(x, s, recv, args, call)
	}
	// interface method?
	if sig.Recv() != nil {
		if _, isIface := sig.Recv().Type().Underlying().(*types.Interface); isIface {
			return x.callInterface(s, f, recv, recvExpr, args, call)
		}
	}
	if fi, ok := x.Pr.Funcs[f]; ok {
		return x.inlineOrContract(s, fi, recv, args, call)
	}
	if fi, ok := x.Pr.Funcs[f.Origin()]; ok {
		return x.inlineOrContract(s, fi, recv, args, call)
	}
	// generated / external function without model
	if r, ok := x.genericExternal(s, f, recv, args, call); ok {
		return r
	}
	x.Unmod[full]++
	x.havocPtrArgs(s, args)
	return x.havocResults(s, sig, f.Name())
}

// havocPtrArgs: an unmodelled callee may write through every pointer it receives.
func (x *Exec) havocPtrArgs(s *State, args []*Value) {
	for _, a := range args {
		if a == nil {
			continue
		}
		if a.K == KOpaque && a.Dyn != nil {
			a = a.Dyn
		}
		if a.K == KPtr && a.Cell != 0 {
			if old := s.Heap[a.Cell]; old != nil && old.Typ != nil && old.K != KOpaque && old.K != KCtx {
				s.Heap[a.Cell] = x.freshValue(old.Typ, "unmodelled.out", s)
			}
		}
	}
}

// callInterface resolves calls through keeper interfaces.
func (x *Exec) callInterface(s *State, f *types.Func, recv *Value, recvExpr ast.Expr, args []*Value, call *ast.CallExpr) []*Value {
	sig := f.Type().(*types.Signature)
	it := sig.Recv().Type()
	iname := ""
	if n, ok := it.(*types.Named); ok {
		iname = n.Obj().Name()
	}
	// dynamic value known?
	if recv != nil && recv.Dyn != nil && x.ifaceOver[recv.Dyn] != nil && x.ifaceOver[recv.Dyn][f.Name()] {
		// a method that some implementer of the interface overrides: unknown behaviour
		x.Unmod["(interface "+iname+")."+f.Name()+" (overridden by an implementer)"]++
		x.havocPtrArgs(s, args)
		return x.havocResults(s, sig, f.Name())
	}
	if recv != nil && recv.Dyn != nil && recv.Dyn.Typ != nil && recv.Dyn.K != KOpaque {
		obj, _, _ := types.LookupFieldOrMethod(recv.Dyn.Typ, true, f.Pkg(), f.Name())
		if m, ok := obj.(*types.Func); ok {
			return x.callFunc(s, m, recv.Dyn, nil, args, call)
		}
	}
	// built-in interface models (bank, account, KVStore, codec, iterator ...)
	keys := []string{"iface:" + iname + "." + f.Name(), "iface:*." + f.Name() + "@" + namedPath(it)}
	if recvExpr != nil {
		if st := x.typeOf(recvExpr); st != nil {
			if n, ok := st.(*types.Named); ok {
				keys = append([]string{"iface:" + n.Obj().Name() + "." + f.Name()}, keys...)
			}
		}
	}
	switch iname {
	case "BasicKVStore":
		keys = append(keys, "iface:KVStore."+f.Name())
	}
	for _, k := range keys {
		if b, ok := builtins[k]; ok {
			return b(x, s, recv, args, call)
		}
	}
	if b, ok := builtins[f.FullName()]; ok {
		return b(x, s, recv, args, call)
	}
	hint := ""
	if recv != nil {
		hint = recv.Module
	}
	if fi := x.Pr.ResolveIfaceMethod(it, f.Name(), hint); fi != nil {
		// receiver: an opaque keeper of the concrete type
		rt := fi.Obj.Type().(*types.Signature).Recv().Type()
		return x.inlineOrContract(s, fi, &Value{K: KOpaque, Typ: rt}, args, call)
	}
	x.Unmod["(interface "+iname+")."+f.Name()]++
	x.havocPtrArgs(s, args)
	return x.havocResults(s, sig, f.Name())
}

// inlineOrContract applies the callee's contract if it has one, else inlines its body.
func (x *Exec) inlineOrContract(s *State, fi *FuncInfo, recv *Value, args []*Value, call *ast.CallExpr) []*Value {
	if fi == nil {
		x.fail(call.Pos(), "call of function without body")
	}
	if fi.Contr != nil && fi.Contr.Pure && x.dryRun != fi && !(x.cur != nil && x.cur.top && x.cur.fi == fi) && !x.verifyingSelf(fi) {
		return x.applyPure(s, fi, recv, args, call)
	}
	if fi.Contr != nil && fi.Contr.Modular && x.specMode == 0 {
		return x.applyContract(s, fi, recv, args, call)
	}
	if fi.Decl.Body == nil {
		x.Unmod[fi.Obj.FullName()]++
		return x.havocResults(s, fi.Obj.Type().(*types.Signature), fi.Obj.Name())
	}
	// recursion / depth guard
	for c := x.cur; c != nil; c = c.parent {
		if c.fi == fi && c.lit == nil {
			x.Havocs["recursive call "+fi.Name]++
			return x.havocCall(s, fi, call)
		}
	}
	if x.cur.depth >= x.maxDepth {
		x.Havocs["depth limit at "+fi.Name]++
		return x.havocCall(s, fi, call)
	}
	x.Inlined[fi.Pkg.Path+"."+fi.Name]++
	return x.inlineBody(s, fi, fi.Decl.Type, fi.Decl.Body, fi.Decl.Recv, fi.Pkg, fi.Pkg.P.TypesInfo, nil, recv, args, call.Pos(), nil)
}

// havocCall over-approximates a call: results fresh, inferred write set havocked.
func (x *Exec) havocCall(s *State, fi *FuncInfo, call *ast.CallExpr) []*Value {
	ws := x.funcWrites(fi)
	x.havocWorlds(s, ws, "call."+fi.Obj.Name())
	return x.havocResults(s, fi.Obj.Type().(*types.Signature), fi.Obj.Name())
}

func (x *Exec) callClosure(s *State, cl *Closure, args []*Value, pos token.Pos) []*Value {
	if x.cur.depth >= x.maxDepth {
		x.fail(pos, "closure depth limit")
	}
	return x.inlineBody(s, nil, cl.Lit.Type, cl.Lit.Body, nil, cl.Pkg, cl.Info, cl.Env, nil, args, pos, cl.Lit)
}

// inlineBody symbolically executes a function body in the current state and merges its exits back.
func (x *Exec) inlineBody(s *State, fi *FuncInfo, ft *ast.FuncType, body *ast.BlockStmt, recvFL *ast.FieldList, pkg *PkgInfo, info *types.Info,
	closureEnv *Env, recv *Value, args []*Value, pos token.Pos, lit *ast.FuncLit) []*Value {
	c := &callCtx{fi: fi, info: info, pkg: pkg, env: NewEnv(closureEnv), depth: x.cur.depth + 1, parent: x.cur, lit: lit}
	if fi == nil && x.cur != nil {
		c.fi = x.cur.fi
	}
	saved := x.cur
	x.cur = c
	defer func() { x.cur = saved }()
	x.bindParams(s, c, ft, recvFL, recv, args, pos)
	end := x.execBlock(s, body.List)
	if end != nil {
		// falling off the end: return named results / nothing
		var vals []*Value
		for _, cell := range c.resCells {
			vals = append(vals, end.Heap[cell])
		}
		c.exits = append(c.exits, &Exit{Kind: "return", S: end, Vals: vals})
	}
	// run deferred functions on every exit; propagate panics that were not recovered
	var rets []*Exit
	for _, e := range c.exits {
		if e.Kind == "return" && len(c.resCells) > 0 && len(c.defers) > 0 {
			// return values are first assigned to the named results, which deferred functions may modify
			for i, cell := range c.resCells {
				if i < len(e.Vals) {
					e.S.Heap[cell] = e.Vals[i]
				}
			}
		}
		x.runDefers(c, e)
		if e.S.PC.Op == "false" {
			continue
		}
		if e.Kind == "panic" {
			saved.exits = append(saved.exits, e)
			continue
		}
		if e.Vals == nil && len(c.resTypes) > 0 {
			for _, t := range c.resTypes {
				e.Vals = append(e.Vals, x.liven(e.S, zeroValue(t)))
			}
		}
		rets = append(rets, e)
	}
	if len(rets) == 0 {
		s.PC = False
		var out []*Value
		for _, t := range c.resTypes {
			out = append(out, x.liven(s, zeroValue(t)))
		}
		return out
	}
	if dbg := os.Getenv("GOVC_DEBUG_CALL"); dbg != "" && fi != nil && strings.Contains(fi.Name, dbg) {
		for i, e := range rets {
			fmt.Fprintf(os.Stderr, "DEBUG %s exit %d: pc-rel=%s\n", fi.Name, i, TermString(relCond(e.S.PC, rets[0].S.PC), 300))
			for j, v := range e.Vals {
				fmt.Fprintf(os.Stderr, "   val%d = %s\n", j, v.String())
			}
		}
	}
	// merge return exits
	nres := len(c.resTypes)
	acc := rets[0]
	accVals := acc.Vals
	for _, e := range rets[1:] {
		sel := relCond(e.S.PC, acc.S.PC)
		mvals := make([]*Value, nres)
		needLiven := make([]bool, nres)
		for i := 0; i < nres; i++ {
			a, b := e.Vals[i], accVals[i]
			m, ok := iteV(sel, a, b)
			if !ok {
				// values holding pointers to different cells: merge in inline form
				m, ok = iteV(sel, deadenS(e.S, a), deadenS(acc.S, b))
				needLiven[i] = ok
			}
			if !ok {
				x.note("results of %s have different shapes on different paths (%s): result %d havocked", c.name(), shapeDiff(a, b, ""), i)
				m = freshLike(c.resTypes[i], "merged")
			}
			mvals[i] = m
		}
		ms := mergeStates(sel, e.S, acc.S)
		for i := range mvals {
			if needLiven[i] {
				mvals[i] = livenS(ms, mvals[i])
			}
		}
		acc = &Exit{Kind: "return", S: ms}
		accVals = mvals
	}
	*s = *acc.S
	out := make([]*Value, nres)
	for i := range out {
		out[i] = x.liven(s, accVals[i])
	}
	return out
}

func (x *Exec) deadenIfPtr(s *State, v *Value) *Value {
	if v != nil && v.K == KPtr {
		return x.deaden(s, v)
	}
	return v
}

func (c *callCtx) name() string {
	if c.fi != nil {
		return c.fi.Name
	}
	return "<closure>"
}

func (x *Exec) bindParams(s *State, c *callCtx, ft *ast.FuncType, recvFL *ast.FieldList, recv *Value, args []*Value, pos token.Pos) {
	info := c.info
	if recvFL != nil && len(recvFL.List) > 0 {
		for _, n := range recvFL.List[0].Names {
			if o := info.Defs[n]; o != nil && n.Name != "_" {
				rv := recv
				if rv == nil {
					rv = &Value{K: KOpaque, Typ: o.Type()}
				}
				rv = x.adaptRecv(s, rv, o.Type())
				c.env.Bind(o, s.Alloc(rv))
			}
		}
	}
	i := 0
	if ft.Params != nil {
		for _, fl := range ft.Params.List {
			if len(fl.Names) == 0 {
				i++
				continue
			}
			for _, n := range fl.Names {
				o := info.Defs[n]
				if o != nil && n.Name != "_" {
					var v *Value
					if i < len(args) {
						v = x.convertTo(s, args[i], o.Type())
					} else {
						x.fail(pos, "missing argument %d for %s", i, c.name())
					}
					c.env.Bind(o, s.Alloc(v))
				}
				i++
			}
		}
	}
	if ft.Results != nil {
		for _, fl := range ft.Results.List {
			t := info.TypeOf(fl.Type)
			if len(fl.Names) == 0 {
				c.resTypes = append(c.resTypes, t)
				continue
			}
			for _, n := range fl.Names {
				c.resTypes = append(c.resTypes, t)
				o := info.Defs[n]
				cell := s.Alloc(x.liven(s, zeroValue(t)))
				if o != nil && n.Name != "_" {
					c.env.Bind(o, cell)
				}
				c.resCells = append(c.resCells, cell)
			}
		}
	}
}

// adaptRecv converts between pointer and value receivers.
func (x *Exec) adaptRecv(s *State, rv *Value, want types.Type) *Value {
	_, wantPtr := want.Underlying().(*types.Pointer)
	if wantPtr && rv.K != KPtr && rv.K != KOpaque {
		// taking the address of an addressable receiver: we lose write-back (noted)
		x.note("A-ALIAS: pointer-receiver method called on a value copy (writes to the receiver are not propagated)")
		return &Value{K: KPtr, Typ: want, Cell: s.Alloc(rv), NilT: False}
	}
	if !wantPtr && rv.K == KPtr {
		if rv.Cell == 0 {
			return x.liven(s, zeroValue(want))
		}
		return s.Heap[rv.Cell]
	}
	if rv.K == KOpaque {
		return &Value{K: KOpaque, Typ: want, Module: rv.Module, Dyn: rv.Dyn, T: rv.T}
	}
	return rv
}

// ---------- Go builtins and conversions ----------

func (x *Exec) evalBuiltin(s *State, call *ast.CallExpr, name string) []*Value {
	intT := types.Typ[types.Int]
	switch name {
	case "len", "cap":
		v := x.eval(s, call.Args[0])
		if v.K == KPtr {
			v = s.Heap[v.Cell]
		}
		switch v.K {
		case KSlice:
			return []*Value{prim(v.Len, intT)}
		case KPrim:
			if isString(v.Typ) {
				l := App("str.len", SInt, v.T)
				s.Assume(Ge(l, Zero))
				s.Assume(Eq(App("str.len", SInt, Zero), Zero))
				return []*Value{prim(l, intT)}
			}
			if _, ok := primNamed(v.Typ); ok { // AccAddress etc.
				l := App("bytes.len", SInt, v.T)
				s.Assume(Ge(l, Zero))
				return []*Value{prim(l, intT)}
			}
		case KBytes:
			l := x.bytesLen(s, v.B)
			return []*Value{prim(l, intT)}
		case KMap:
			l := App("map.len."+sortTag(v.Has.S), SInt, v.Has)
			s.Assume(Ge(l, Zero))
			return []*Value{prim(l, intT)}
		}
		x.fail(call.Pos(), "len of %s", v.K)
	case "append":
		base := x.eval(s, call.Args[0])
		if base.K == KBytes {
			return []*Value{x.appendBytes(s, base, call)}
		}
		if base.K != KSlice {
			x.fail(call.Pos(), "append to %s", base.K)
		}
		if call.Ellipsis.IsValid() {
			other := x.eval(s, call.Args[1])
			return []*Value{x.appendSlices(s, base, other, call.Pos())}
		}
		cur := base
		st := base.Typ.Underlying().(*types.Slice)
		for _, a := range call.Args[1:] {
			v := x.deaden(s, x.convertTo(s, x.eval(s, a), st.Elem()))
			if cur.Conc != nil {
				cur = &Value{K: KSlice, Typ: cur.Typ, Len: IntC(int64(len(cur.Conc) + 1)), Conc: append(append([]*Value{}, cur.Conc...), v)}
				continue
			}
			ne, ok := storeV(sliceElem(cur), cur.Len, v)
			if !ok {
				x.fail(call.Pos(), "append: element shape mismatch")
			}
			cur = &Value{K: KSlice, Typ: cur.Typ, Len: Add(cur.Len, One), Elem: ne}
		}
		return []*Value{cur}
	case "make":
		t := x.typeOf(call.Args[0])
		switch u := t.Underlying().(type) {
		case *types.Slice:
			n := Zero
			if len(call.Args) > 1 {
				n = x.eval(s, call.Args[1]).T
			}
			x.requireSafe(s, Ge(n, Zero), "make-negative-len", call.Pos())
			if b, ok := u.Elem().Underlying().(*types.Basic); ok && b.Kind() == types.Uint8 {
				return []*Value{{K: KBytes, Typ: t, B: &Bytes{Kind: "opaque", T: Fresh("bytes.make", SInt)}}}
			}
			if n.IsInt() && n.Val.Sign() == 0 {
				return []*Value{{K: KSlice, Typ: t, Len: Zero, Conc: []*Value{}}}
			}
			z := buildValue(u.Elem(), "", []*Sort{SInt}, func(p string, srt *Sort, lt types.Type) *Term { return zeroOfSort(srt) }, 0)
			return []*Value{{K: KSlice, Typ: t, Len: n, Elem: z}}
		case *types.Map:
			return []*Value{zeroValue(t)}
		}
		x.fail(call.Pos(), "make of %s", t)
	case "new":
		t := x.typeOf(call.Args[0])
		cell := s.Alloc(x.liven(s, zeroValue(t)))
		return []*Value{{K: KPtr, Typ: types.NewPointer(t), Cell: cell, NilT: False}}
	case "panic":
		for _, a := range call.Args {
			x.eval(s, a)
		}
		if x.nopanicMode && x.specMode == 0 {
			x.requireSafe(s, False, "explicit-panic", call.Pos())
		} else {
			x.addPanicExit(x.cur, s.Clone(), "explicit-panic", call.Pos())
		}
		s.PC = False
		return nil
	case "delete":
		m := x.eval(s, call.Args[0])
		k := x.eval(s, call.Args[1])
		nm := &Value{K: KMap, Typ: m.Typ, Has: Store(m.Has, x.keyTerm(k), False), Elem: m.Elem}
		x.assignTo(s, call.Args[0], nm)
		return nil
	case "copy":
		x.fail(call.Pos(), "copy() unsupported")
	case "min", "max":
		a := x.eval(s, call.Args[0])
		b := x.eval(s, call.Args[1])
		if name == "min" {
			return []*Value{prim(Ite(Le(a.T, b.T), a.T, b.T), a.Typ)}
		}
		return []*Value{prim(Ite(Ge(a.T, b.T), a.T, b.T), a.Typ)}
	case "recover":
		// recover() stops the panic of the exit this deferred function runs for (only when called directly by it)
		if x.cur != nil && x.cur.deferOf != nil && x.cur.deferOf.Kind == "panic" {
			ex := x.cur.deferOf
			ex.Kind = "return"
			ex.Why = "recovered: " + ex.Why
			ex.Vals = nil
			rv := Fresh("recovered", SInt)
			s.Assume(Neq(rv, Zero))
			return []*Value{{K: KOpaque, Typ: types.Universe.Lookup("any").Type(), T: rv}}
		}
		return []*Value{{K: KOpaque, T: Zero}}
	case "print", "println":
		return nil
	}
	x.fail(call.Pos(), "unsupported builtin %s", name)
	return nil
}

func (x *Exec) appendSlices(s *State, a, b *Value, pos token.Pos) *Value {
	if b.K == KBytes || a.K == KBytes {
		x.fail(pos, "append bytes... to non-bytes")
	}
	if a.Conc != nil && b.Conc != nil {
		return &Value{K: KSlice, Typ: a.Typ, Len: IntC(int64(len(a.Conc) + len(b.Conc))), Conc: append(append([]*Value{}, a.Conc...), b.Conc...)}
	}
	if b.Conc != nil {
		cur := a
		for _, v := range b.Conc {
			ne, ok := storeV(sliceElem(cur), cur.Len, v)
			if !ok {
				x.fail(pos, "append: element shape mismatch")
			}
			cur = &Value{K: KSlice, Typ: cur.Typ, Len: Add(cur.Len, One), Elem: ne}
		}
		return cur
	}
	// general concatenation: result[i] = i < len(a) ? a[i] : b[i-len(a)]
	ea, eb := sliceElem(a), sliceElem(b)
	r, ok := zipLeaves(ea, eb, func(p, q *Term) *Term {
		return App("arr.concat."+sortTag(p.S), p.S, p, a.Len, q)
	})
	if !ok {
		x.fail(pos, "append: shape mismatch")
	}
	x.needConcatAxioms = true
	return &Value{K: KSlice, Typ: a.Typ, Len: Add(a.Len, b.Len), Elem: r}
}

func (x *Exec) evalConversion(s *State, call *ast.CallExpr, t types.Type) *Value {
	v := x.eval(s, call.Args[0])
	st := x.typeOf(call.Args[0])
	// string(bytes) / []byte(string) / named byte slices
	if v.K == KBytes {
		if isString(t) {
			if v.B.Kind == "str" && v.B.T != nil {
				return prim(v.B.T, t)
			}
			return prim(App("str.of_bytes", SInt, bytesIdent(v.B)), t)
		}
		if _, ok := primNamed(t); ok { // sdk.AccAddress(bytes)
			return prim(App("addr.of_bytes", SInt, bytesIdent(v.B)), t)
		}
		return &Value{K: KBytes, Typ: t, B: v.B}
	}
	if v.K == KPrim {
		if k, ok := primNamed(st); ok && k == "addr" {
			if _, isSlice := t.Underlying().(*types.Slice); isSlice {
				if k2, ok := primNamed(t); ok && k2 == "addr" {
					return prim(v.T, t)
				}
				return &Value{K: KBytes, Typ: t, B: &Bytes{Kind: "key", Segs: []KeySeg{{T: v.T, Kind: "addr"}}}}
			}
		}
		if isString(st) {
			if _, isSlice := t.Underlying().(*types.Slice); isSlice {
				if v.T.IsInt() && v.T.Val.IsInt64() {
					if lit, ok := x.Pr.StrOf(v.T.Val.Int64()); ok {
						return &Value{K: KBytes, Typ: t, B: &Bytes{Kind: "key", Segs: []KeySeg{{Const: []byte(lit)}}}}
					}
				}
				return &Value{K: KBytes, Typ: t, B: &Bytes{Kind: "str", T: v.T, Segs: []KeySeg{{T: v.T, Kind: "str"}}}}
			}
			return prim(v.T, t)
		}
		tb, tok := t.Underlying().(*types.Basic)
		sb, sok := st.Underlying().(*types.Basic)
		if tok && sok {
			switch {
			case tb.Info()&types.IsInteger != 0 && sb.Info()&types.IsInteger != 0:
				return prim(wrapInt(t, v.T), t)
			case tb.Info()&types.IsFloat != 0 && sb.Info()&types.IsInteger != 0:
				return prim(App("float.of_int", SInt, v.T), t)
			case tb.Info()&types.IsInteger != 0 && sb.Info()&types.IsFloat != 0:
				r := App("float.to_int", SInt, v.T)
				s.Assume(rangeFact(t, r))
				return prim(r, t)
			case tb.Info()&types.IsFloat != 0 && sb.Info()&types.IsFloat != 0:
				return prim(v.T, t)
			case tb.Info()&types.IsString != 0 && sb.Info()&types.IsInteger != 0:
				return prim(App("str.of_rune", SInt, v.T), t)
			}
		}
		return prim(v.T, t)
	}
	// struct-to-struct conversions between identical underlying types, slices, etc.
	n := *v
	n.Typ = t
	return &n
}

func (x *Exec) bytesLen(s *State, b *Bytes) *Term {
	if b.Kind == "key" {
		total := Zero
		for _, sg := range b.Segs {
			switch {
			case sg.T == nil:
				total = Add(total, IntC(int64(len(sg.Const))))
			case sg.Kind == "u64":
				total = Add(total, IntC(8))
			default:
				l := App("bytes.len", SInt, sg.T)
				s.Assume(Ge(l, Zero))
				total = Add(total, l)
			}
		}
		if b.NilT != nil {
			return Ite(b.NilT, Zero, total)
		}
		return total
	}
	l := App("bytes.len", SInt, bytesIdent(b))
	s.Assume(Ge(l, Zero))
	if b.NilT != nil {
		return Ite(b.NilT, Zero, l)
	}
	return l
}

func (x *Exec) appendBytes(s *State, base *Value, call *ast.CallExpr) *Value {
	segs := append([]KeySeg{}, x.bytesSegs(base.B)...)
	if call.Ellipsis.IsValid() {
		o := x.eval(s, call.Args[1])
		switch o.K {
		case KBytes:
			segs = append(segs, x.bytesSegs(o.B)...)
		case KPrim:
			kind := "str"
			if k, ok := primNamed(o.Typ); ok && k == "addr" {
				kind = "addr"
			}
			segs = append(segs, KeySeg{T: o.T, Kind: kind})
		default:
			x.fail(call.Pos(), "append(bytes, %s...)", o.K)
		}
	} else {
		for _, a := range call.Args[1:] {
			v := x.eval(s, a)
			if v.T != nil && v.T.IsInt() {
				segs = append(segs, KeySeg{Const: []byte{byte(v.T.Val.Int64())}})
			} else {
				segs = append(segs, KeySeg{T: v.T, Kind: "byte"})
			}
		}
	}
	return &Value{K: KBytes, Typ: base.Typ, B: &Bytes{Kind: "key", Segs: normSegs(segs)}}
}

func (x *Exec) bytesSegs(b *Bytes) []KeySeg {
	switch b.Kind {
	case "key":
		return b.Segs
	case "u64be":
		return []KeySeg{{T: b.T, Kind: "u64"}}
	case "str":
		return []KeySeg{{T: b.T, Kind: "str"}}
	}
	return []KeySeg{{T: bytesIdent(b), Kind: "bytes"}}
}

func normSegs(segs []KeySeg) []KeySeg {
	var out []KeySeg
	for _, sg := range segs {
		if sg.T == nil && len(sg.Const) == 0 {
			continue
		}
		if sg.T == nil && len(out) > 0 && out[len(out)-1].T == nil {
			out[len(out)-1] = KeySeg{Const: append(append([]byte{}, out[len(out)-1].Const...), sg.Const...)}
			continue
		}
		out = append(out, sg)
	}
	return out
}

// genericExternal models a few families of external functions by shape.
func (x *Exec) genericExternal(s *State, f *types.Func, recv *Value, args []*Value, call *ast.CallExpr) ([]*Value, bool) {
	full := f.FullName()
	sig := f.Type().(*types.Signature)
	// protobuf-generated getters of external message types: (m *T) GetX() X
	if recv != nil && strings.HasPrefix(f.Name(), "Get") && sig.Params().Len() == 0 && sig.Results().Len() == 1 {
		rv := recv
		if rv.K == KPtr && rv.Cell != 0 {
			rv = s.Heap[rv.Cell]
		}
		if rv.K == KStruct {
			if fv := rv.field(strings.TrimPrefix(f.Name(), "Get")); fv != nil {
				return []*Value{fv}, true
			}
		}
	}
	// errors / fmt / logging: result is an opaque non-nil error or nothing
	switch {
	case strings.HasPrefix(full, "fmt.Errorf"), strings.HasPrefix(full, "errors.New"), strings.HasPrefix(full, "cosmossdk.io/errors.Wrap"),
		strings.HasPrefix(full, "cosmossdk.io/errors.Register"), strings.HasPrefix(full, "github.com/cosmos/cosmos-sdk/types/errors.Wrap"),
		strings.HasPrefix(full, "github.com/pkg/errors."), strings.HasPrefix(full, "(*cosmossdk.io/errors.Error).Wrap"):
		e := Fresh("err.new", SInt)
		s.Assume(Neq(e, Zero))
		// Wrap(nil, ...) returns nil
		if (strings.Contains(full, ".Wrap(") || strings.HasSuffix(full, ".Wrap") || strings.HasSuffix(full, ".Wrapf")) && len(args) > 0 && recv == nil && args[0].K == KPrim && isErrorType(args[0].Typ) {
			return []*Value{prim(Ite(Eq(args[0].T, Zero), Zero, e), sig.Results().At(0).Type())}, true
		}
		return []*Value{prim(e, sig.Results().At(0).Type())}, true
	}
	return nil, false
}

// verifyingSelf reports whether fi is the function currently being verified against its own contract
// (its body must then be executed, not abstracted, also inside its own contract's spec expressions).
func (x *Exec) verifyingSelf(fi *FuncInfo) bool {
	return x.selfFn == fi
}
