package eng

import (
	"fmt"
	"os"
	"path/filepath"
	"sort"
	"strings"
	"time"
)

type evObl struct {
	Name   string `json:"name"`
	Kind   string `json:"kind"`
	Status string `json:"status"`
	Solver string `json:"solver"`
	Ms     int64  `json:"ms"`
	Pos    string `json:"source"`
	Clause string `json:"clause,omitempty"`
}

// CmdCheck is the registered quick/thorough command for one property.
func CmdCheck(cfg RunConfig) int {
	t0 := time.Now()
	evPath := filepath.Join(cfg.VerifDir, "evidence", cfg.Prop+".json")
	if d := os.Getenv("VERIF_EVIDENCE_DIR"); d != "" {
		// used by bin/mutcheck: runs on a deliberately modified tree must not overwrite the evidence of the real tree
		os.MkdirAll(d, 0o755)
		evPath = filepath.Join(d, cfg.Prop+".json")
	}
	os.Remove(evPath)
	pr, lsec, err := loadAll(cfg)
	if err != nil {
		fmt.Fprintln(os.Stderr, "load:", err)
		fmt.Printf("VIOLATION property=%s replay=%s no-failing-input-found\n", cfg.Prop, writeReplayText(cfg, "load-failure", "the repository could not be loaded/type-checked:\n"+err.Error()))
		return 1
	}
	res := GenerateProp(pr, cfg.Prop, "")
	to := cfg.Timeout
	if to == 0 {
		to = 10
		if cfg.Tier == "thorough" {
			to = 60
		}
	}
	dir := filepath.Join(os.TempDir(), fmt.Sprintf("govc-smt-%d", os.Getpid()), cfg.Prop)
	defer os.RemoveAll(filepath.Dir(dir))
	// obligations marked slow are decided in the thorough tier only (never counted in quick)
	var slowSkipped []string
	if cfg.Tier != "thorough" {
		var keep []*Obligation
		for _, o := range res.Obls {
			if o.Slow {
				slowSkipped = append(slowSkipped, o.Name)
				continue
			}
			keep = append(keep, o)
		}
		res.Obls = keep
	}
	ssec := SolveAll(res.Obls, dir, to)
	lock := ReadLock(lockPath(cfg))
	findings := ReadFindings(filepath.Join(cfg.VerifDir, "known-findings.txt"))
	known := map[string]Finding{}
	for _, f := range findings {
		if f.Kind == "finding" && f.Prop == cfg.Prop {
			known[f.Obl] = f
		}
	}
	// escalation ladder for obligations that were discharged in the lock but are undecided now
	var retry []*Obligation
	for _, o := range res.Obls {
		ls := lock[o.Name]
		if (ls == "discharged" && strings.HasPrefix(o.Status, "failed-") && o.Status != "failed-sat" && o.Candidate == "") ||
			(ls == "cover-sat" && o.Status != "cover-sat" && o.Status != "cover-unsat") {
			retry = append(retry, o)
		}
	}
	if len(retry) > 0 {
		ssec += SolveAll(retry, dir, to*3)
		// last rung: what is still undecided gets a long budget (a loaded machine must not turn a proof that exists into
		// an alarm; a real violation stays undecided or refuted here as well and is reported below)
		var again []*Obligation
		for _, o := range retry {
			if (strings.HasPrefix(o.Status, "failed-") && o.Status != "failed-sat" && o.Candidate == "") || (o.Cover && o.Status != "cover-sat" && o.Status != "cover-unsat") {
				again = append(again, o)
			}
		}
		if len(again) > 0 {
			ssec += SolveAll(again, dir, to*12)
		}
	}
	byName := map[string]*Obligation{}
	for _, o := range res.Obls {
		byName[o.Name] = o
	}
	var violations []string
	var knownLines []string
	nObl, nDis := 0, 0
	var per []evObl
	var unlocked []string
	funcErr := map[string]string{}
	for _, r := range res.Reports {
		if r.Error != "" {
			funcErr[pr.tagOfReport(r)] = r.Error
		}
	}
	sort.Slice(res.Obls, func(i, j int) bool { return res.Obls[i].Name < res.Obls[j].Name })
	for _, o := range res.Obls {
		ls, locked := lock[o.Name]
		per = append(per, evObl{o.Name, o.Kind, o.Status, o.Result.Solver, o.Result.Ms, o.Pos, o.Src})
		good := o.Status == "discharged" || o.Status == "cover-sat"
		if locked && (ls == "cover-undecided" || ls == "undecided") {
			// not decided on the unchanged tree either: informational only, listed in the evidence
			unlocked = append(unlocked, o.Name+" ("+o.Status+", undecided on the unchanged tree)")
			continue
		}
		if !locked {
			// an obligation that did not exist on the unchanged tree (new call site, new partial operation, new loop):
			// it must hold, otherwise the other proofs of the function rest on an unproved assumption
			if good || o.Cover {
				unlocked = append(unlocked, o.Name+" ("+o.Status+", new)")
				continue
			}
			nObl++
			violations = append(violations, x_reportViolation(cfg, pr, o))
			continue
		}
		if ls == "known-finding" {
			if good {
				fmt.Fprintf(os.Stderr, "STALE-FINDING: property=%s obligation=%s is discharged now\n", cfg.Prop, o.Name)
				nObl++
				nDis++
				continue
			}
			if f, ok := known[o.Name]; ok {
				knownLines = append(knownLines, fmt.Sprintf("KNOWN-FINDING: property=%s %s", cfg.Prop, strings.TrimSpace(strings.Replace(f.Text, "property="+cfg.Prop, "", 1))))
				continue
			}
			// locked as finding but no longer listed: treat as violation
		}
		if o.Cover && !good && o.Status != "cover-unsat" {
			// a reachability guard that the solvers did not decide in their (short) budget this time: never an alarm;
			// only a guard that is refuted (cover-unsat: the path became unreachable / the hypotheses contradictory) is
			unlocked = append(unlocked, o.Name+" ("+o.Status+", reachability guard undecided in this run)")
			continue
		}
		nObl++
		if good {
			nDis++
			continue
		}
		if _, ok := known[o.Name]; ok && ls != "discharged" && ls != "cover-sat" {
			continue
		}
		violations = append(violations, x_reportViolation(cfg, pr, o))
	}
	// obligations that disappeared
	var missing []string
	skipped := map[string]bool{}
	for _, n := range slowSkipped {
		skipped[n] = true
	}
	for name, ls := range lock {
		if _, ok := byName[name]; !ok && !skipped[name] {
			missing = append(missing, name)
			_ = ls
		}
	}
	sort.Strings(missing)
	if len(missing) > 0 {
		// group by function tag
		groups := map[string][]string{}
		for _, m := range missing {
			tag := m
			if i := strings.Index(m, "/"); i >= 0 {
				tag = m[:i]
			}
			groups[tag] = append(groups[tag], m)
		}
		var tags []string
		for t := range groups {
			tags = append(tags, t)
		}
		sort.Strings(tags)
		for _, t := range tags {
			reason := "obligations recorded for the unchanged tree are no longer generated (function deleted/renamed, contract no longer binds, or loop/call structure changed)"
			if e, ok := funcErr[t]; ok {
				reason = "the function left the verified subset or could not be executed symbolically: " + e
			}
			body := fmt.Sprintf("property %s\nfunction %s\nkind contract-unbound\n%s\nmissing obligations:\n  %s\n", cfg.Prop, t, reason, strings.Join(groups[t], "\n  "))
			p := writeReplayText(cfg, "unbound-"+sanitize(t), body)
			violations = append(violations, fmt.Sprintf("VIOLATION property=%s replay=%s no-failing-input-found", cfg.Prop, p))
			nObl += len(groups[t])
		}
	}
	for _, k := range knownLines {
		fmt.Println(k)
	}
	for _, v := range violations {
		fmt.Println(v)
	}
	if len(unlocked) > 0 {
		fmt.Fprintf(os.Stderr, "note: %d obligations are not in the lock file and are not counted: %s\n", len(unlocked), strings.Join(unlocked, ", "))
	}
	// evidence
	ev := buildEvidence(cfg, pr, res, per, nObl, nDis, len(violations), knownLines, unlocked, lsec, ssec, nowSec(t0))
	ev["coverage"].(map[string]interface{})["slow_obligations_thorough_only_not_run_in_this_tier"] = slowSkipped
	if err := writeJSON(evPath, ev); err != nil {
		fmt.Fprintln(os.Stderr, "evidence:", err)
	}
	fmt.Printf("%s %s: %d obligations, %d discharged, %d known findings, %d violations, %.1fs (load %.1fs, solvers %.1fs)\n",
		cfg.Prop, cfg.Tier, nObl, nDis, len(knownLines), len(violations), nowSec(t0), lsec, ssec)
	if nObl == 0 && len(knownLines) == 0 {
		fmt.Printf("VIOLATION property=%s replay=%s no-failing-input-found\n", cfg.Prop, writeReplayText(cfg, "vacuous", "no obligations were generated for this property (vacuity guard)"))
		return 1
	}
	if len(violations) > 0 {
		return 1
	}
	return 0
}

func (pr *Program) tagOfReport(r *FuncReport) string {
	p := r.Pkg
	if i := strings.Index(p, "/comdex/"); i >= 0 {
		p = p[i+len("/comdex/"):]
	}
	return p + "." + r.Func
}

func writeReplayText(cfg RunConfig, name, body string) string {
	dir := filepath.Join(cfg.VerifDir, "replay", cfg.Prop)
	os.MkdirAll(dir, 0o755)
	p := filepath.Join(dir, name+".txt")
	os.WriteFile(p, []byte(body), 0o644)
	return p
}

func x_reportViolation(cfg RunConfig, pr *Program, o *Obligation) string {
	var sb strings.Builder
	fmt.Fprintf(&sb, "property %s\nobligation %s\nkind %s\nsource %s\nclause %s\nstatus %s\n", cfg.Prop, o.Name, o.Kind, o.Pos, o.Src, o.Status)
	for k, v := range o.Result.All {
		fmt.Fprintf(&sb, "solver %s: %s\n", k, v)
	}
	suffix := " no-failing-input-found"
	model := o.Result.Output
	if o.Status != "failed-sat" && o.Candidate != "" {
		model = o.Candidate
		sb.WriteString("note: the exact query is undecided; the counterexample below is a model of a weaker query (" + o.CandidateKind + ") and is only a candidate until replayed\n")
	}
	if o.Status == "failed-sat" || o.Candidate != "" {
		vals := ModelValues(model, o.Inputs, pr)
		sb.WriteString("counterexample (function inputs):\n")
		for _, kv := range vals {
			fmt.Fprintf(&sb, "  %s = %s\n", kv[0], kv[1])
		}
		if rp, ok := tryReplay(cfg, pr, o, vals, &sb); ok {
			suffix = ""
			_ = rp
		}
	}
	if o.Cover {
		sb.WriteString("\nvacuity: a path that was reachable on the unchanged tree (cover query satisfiable) is unreachable now\n")
	}
	sb.WriteString("\n--- solver output ---\n")
	sb.WriteString(truncate(o.Result.Output, 20000))
	if o.Candidate != "" {
		sb.WriteString("\n--- model of the axiom-free query ---\n")
		sb.WriteString(truncate(o.Candidate, 20000))
	}
	p := writeReplayText(cfg, sanitize(strings.ReplaceAll(o.Name, "/", "__")), sb.String())
	return fmt.Sprintf("VIOLATION property=%s replay=%s%s", cfg.Prop, p, suffix)
}

func buildEvidence(cfg RunConfig, pr *Program, res *PropResult, per []evObl, nObl, nDis, nViol int, known, unlocked []string, lsec, ssec, wall float64) map[string]interface{} {
	trusted := map[string]bool{}
	notes := map[string]bool{}
	inl := map[string]bool{}
	unmod := map[string]bool{}
	hav := map[string]bool{}
	anp := map[string]bool{}
	var ferrs []string
	for _, r := range res.Reports {
		for _, t := range r.Trusted {
			trusted[t] = true
		}
		for _, t := range r.Notes {
			notes[t] = true
		}
		for _, t := range r.Inlined {
			inl[t] = true
		}
		for _, t := range r.Unmod {
			unmod[t] = true
		}
		for _, t := range r.Havocs {
			hav[t] = true
		}
		for _, t := range r.AssumedNoPanic {
			anp[t] = true
		}
		if r.Error != "" {
			ferrs = append(ferrs, r.Func+": "+r.Error)
		}
	}
	base := []string{
		"govc VC generator (symbolic execution of the typed Go AST; /verif/govc) and its SMT encoding",
		"SMT solvers z3 4.8.12, z3 5.1.0 (z3-new), cvc5 1.0 (an obligation counts as discharged when one answers unsat and none answers sat)",
		"T-SDKMATH: model of cosmossdk.io/math Int/LegacyDec rounding (DESIGN.md Appendix D); 256/315-bit overflow panics of the SDK big numbers are not modelled",
		"T-STORE: KVStore Get/Set/Delete/iterators and protobuf Marshal/Unmarshal round trip",
		"T-BANK: bank keeper send/mint/burn semantics (DESIGN.md Appendix D)",
		"T-TX: a message handler that returns an error or panics leaves no state change (baseapp)",
		"pointer parameters of functions under contract are non-nil; distinct pointers do not alias (A-ALIAS)",
	}
	for t := range trusted {
		base = append(base, t)
	}
	sort.Strings(base[7:])
	var samples []interface{}
	for i, p := range per {
		if i%maxInt(1, len(per)/4) == 0 && len(samples) < 5 {
			samples = append(samples, p)
		}
	}
	cov := map[string]interface{}{
		"obligations":               nObl,
		"discharged":                nDis,
		"checker_cmd":               fmt.Sprintf("bin/govc check -prop %s -tier %s", cfg.Prop, cfg.Tier),
		"trusted_base":              base,
		"samples":                   samples,
		"functions_under_contract":  res.Funcs,
		"lemmas":                    res.Lemmas,
		"per_obligation":            per,
		"solver_seconds":            ssec,
		"load_seconds":              lsec,
		"known_findings":            known,
		"not_in_lock_not_counted":   unlocked,
		"inlined_callees":           setKeys(inl),
		"unmodelled_callees_havocked": setKeys(unmod),
		"havocked_calls":            setKeys(hav),
		"assumed_nopanic_callees":   setKeys(anp),
		"translation_notes":         setKeys(notes),
		"function_errors":           ferrs,
		"load_warnings":             pr.LoadWarnings,
		"dropped_by_translation":    []string{"events, logging, telemetry, gas metering", "termination (not proved)", "fmt/strconv/strings results are uninterpreted", "floating point is uninterpreted"},
		"backends":                  "per obligation: see per_obligation[].solver",
	}
	seed := int64(0)
	if v := os.Getenv("VERIF_SEED"); v != "" {
		fmt.Sscanf(v, "%d", &seed)
	}
	return map[string]interface{}{
		"property_id": cfg.Prop,
		"tier":        cfg.Tier,
		"seed":        seed,
		"level":       "proof",
		"coverage":    cov,
		"assumptions": base,
		"wall_s":      wall,
		"violations":  nViol,
	}
}

func maxInt(a, b int) int {
	if a > b {
		return a
	}
	return b
}

func setKeys(m map[string]bool) []string {
	out := []string{}
	for k := range m {
		out = append(out, k)
	}
	sort.Strings(out)
	return out
}
