package eng

import (
	"encoding/json"
	"runtime/pprof"
	"fmt"
	"os"
	"path/filepath"
	"sort"
	"strings"
	"time"
)

var loadPatterns = []string{"./x/...", "./types/...", "./app/..."}

func startWatchdog() {
	secs := 3600 // a changed tree with several failing obligations walks the whole escalation ladder (10+30+120 s per phase)
	if v := os.Getenv("GOVC_WATCHDOG"); v != "" {
		fmt.Sscanf(v, "%d", &secs)
	}
	if pf := os.Getenv("GOVC_CPUPROFILE"); pf != "" {
		f, _ := os.Create(pf)
		pprof.StartCPUProfile(f)
		go func() {
			time.Sleep(20 * time.Second)
			pprof.StopCPUProfile()
			f.Close()
		}()
	}
	go func() {
		time.Sleep(time.Duration(secs) * time.Second)
		fmt.Fprintf(os.Stderr, "govc watchdog: no result after %ds; last activity: %s (terms: %d)\n", secs, Progress, TS.n)
		os.Exit(3)
	}()
}

func loadAll(cfg RunConfig) (*Program, float64, error) {
	startWatchdog()
	t0 := time.Now()
	pr, err := LoadProgram(cfg.Repo, loadPatterns)
	if err != nil {
		return nil, 0, err
	}
	if err := pr.LoadContracts(filepath.Join(cfg.VerifDir, "contracts-mirror")); err != nil {
		return nil, 0, err
	}
	// C20: store families classified as derived / history / false positive of the syntactic analysis (with the reason)
	if data, err := os.ReadFile(filepath.Join(cfg.VerifDir, "c20-classification.json")); err == nil {
		m := map[string]string{}
		if json.Unmarshal(data, &m) == nil {
			pr.C20Derived = m
		}
	}
	return pr, nowSec(t0), nil
}

// CmdDump prints the obligations of a property with their verdicts (development aid).
func CmdDump(cfg RunConfig) int {
	pr, lsec, err := loadAll(cfg)
	if err != nil {
		fmt.Fprintln(os.Stderr, "load:", err)
		return 2
	}
	fmt.Printf("loaded in %.1fs; %d packages, %d contracts\n", lsec, len(pr.Pkgs), len(pr.Contracts))
	for _, w := range pr.LoadWarnings {
		fmt.Println("warning:", w)
	}
	if cfg.OnlyFunc == "mapranges" {
		for _, l := range pr.MapRanges() {
			fmt.Println(l)
		}
		return 0
	}
	res := GenerateProp(pr, cfg.Prop, cfg.OnlyFunc)
	to := cfg.Timeout
	if to == 0 {
		to = 10
	}
	dir := filepath.Join(os.TempDir(), "govc-smt", cfg.Prop)
	os.RemoveAll(dir)
	t0 := time.Now()
	ssec := SolveAll(res.Obls, dir, to)
	for _, r := range res.Reports {
		fmt.Printf("== %s.%s  exits=%d panics=%d\n", r.Pkg, r.Func, r.Exits, r.PanicExits)
		if r.Error != "" {
			fmt.Println("   ERROR:", r.Error)
		}
		for _, o := range r.Obls {
			fmt.Printf("   %-14s %-10s %6dms  %s\n", o.Status, o.Result.Solver, o.Result.Ms, o.Name)
			if cfg.Verbose && strings.HasPrefix(o.Status, "failed") {
				fmt.Println("      ", truncate(firstLine(o.Result.Output), 200), "|", truncate(o.Src, 400))
			}
		}
		if cfg.Verbose {
			for _, n := range r.Notes {
				fmt.Println("   note:", n)
			}
			for _, n := range r.Unmod {
				fmt.Println("   unmodelled:", n)
			}
			for _, n := range r.Havocs {
				fmt.Println("   havoc:", n)
			}
			fmt.Println("   inlined:", strings.Join(r.Inlined, ", "))
		}
	}
	for _, u := range res.Unbound {
		fmt.Println("UNBOUND contract:", u)
	}
	if cfg.Verbose {
		seen := map[string]bool{}
		for _, m := range MergeNotes {
			if !seen[m] {
				seen[m] = true
				fmt.Println("merge-note:", m)
			}
		}
	}
	fmt.Printf("solve wall %.1fs, solver cpu %.1fs, smt files in %s\n", nowSec(t0), ssec, dir)
	_ = sort.Strings
	return 0
}


func lockPath(cfg RunConfig) string { return filepath.Join(cfg.VerifDir, "locks", cfg.Prop+".lock") }

// CmdLock records the status of every obligation of a property on the current tree.
func CmdLock(cfg RunConfig) int {
	pr, _, err := loadAll(cfg)
	if err != nil {
		fmt.Fprintln(os.Stderr, "load:", err)
		return 2
	}
	res := GenerateProp(pr, cfg.Prop, "")
	to := cfg.Timeout
	if to == 0 {
		to = 10
	}
	dir := filepath.Join(os.TempDir(), "govc-smt", cfg.Prop)
	os.RemoveAll(dir)
	defer os.RemoveAll(dir)
	var fast, slow []*Obligation
	for _, o := range res.Obls {
		if o.Slow {
			slow = append(slow, o)
		} else {
			fast = append(fast, o)
		}
	}
	SolveAll(fast, dir, to)
	SolveAll(slow, dir, 180)
	// vacuity guard at lock time: the hypothesis (path condition) of every discharged obligation must be satisfiable
	var vac []*Obligation
	for _, o := range res.Obls {
		if !o.Cover && o.Status == "discharged" && o.Hyp.Op != "true" && o.Result.Solver != "simplifier" {
			vac = append(vac, &Obligation{Name: o.Name + "/hyp-sat", Cover: true, Hyp: o.Hyp, Goal: True, Pos: o.Pos})
		}
	}
	SolveAll(vac, dir, 5)
	vacuous := map[string]bool{}
	for _, v := range vac {
		if v.Status == "cover-unsat" {
			vacuous[strings.TrimSuffix(v.Name, "/hyp-sat")] = true
		}
	}
	findings := ReadFindings(filepath.Join(cfg.VerifDir, "known-findings.txt"))
	known := map[string]bool{}
	for _, f := range findings {
		if f.Kind == "finding" {
			known[f.Obl] = true
		}
	}
	bad := 0
	var lines []string
	for _, r := range res.Reports {
		if r.Error != "" {
			fmt.Printf("ERROR %s.%s: %s\n", r.Pkg, r.Func, r.Error)
			bad++
		}
	}
	for _, u := range res.Unbound {
		fmt.Println("UNBOUND contract:", u)
		bad++
	}
	sort.Slice(res.Obls, func(i, j int) bool { return res.Obls[i].Name < res.Obls[j].Name })
	seen := map[string]bool{}
	for _, o := range res.Obls {
		if seen[o.Name] {
			fmt.Println("DUPLICATE obligation name:", o.Name)
			bad++
		}
		seen[o.Name] = true
		st := o.Status
		if vacuous[o.Name] {
			fmt.Printf("VACUOUS (contradictory path condition): %s\n", o.Name)
			bad++
			st = "undecided"
			lines = append(lines, fmt.Sprintf("%s %s %s %dms", o.Name, st, "vacuous", o.Result.Ms))
			continue
		}
		switch {
		case st == "discharged" || st == "cover-sat":
		case o.Cover && st != "cover-unsat":
			st = "cover-undecided"
		case known[o.Name]:
			st = "known-finding"
		default:
			fmt.Printf("UNDECIDED on the unchanged tree (status %s): %s\n", o.Status, o.Name)
			bad++
			st = "undecided"
		}
		lines = append(lines, fmt.Sprintf("%s %s %s %dms", o.Name, st, o.Result.Solver, o.Result.Ms))
	}
	os.MkdirAll(filepath.Dir(lockPath(cfg)), 0o755)
	if err := os.WriteFile(lockPath(cfg), []byte("# obligations of "+cfg.Prop+" on the unchanged tree: name status solver time\n"+strings.Join(lines, "\n")+"\n"), 0o644); err != nil {
		fmt.Fprintln(os.Stderr, err)
		return 2
	}
	fmt.Printf("locked %d obligations for %s (%d not lockable)\n", len(lines), cfg.Prop, bad)
	if bad > 0 {
		return 1
	}
	return 0
}
