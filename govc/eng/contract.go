package eng

import (
	"strconv"
	"go/types"
	"go/ast"
	"fmt"
	"go/scanner"
	"go/token"
	"math/big"
	"os"
	"path/filepath"
	"strings"
)

// ---------- contract AST ----------

type CExpr struct {
	Op   string // ident,int,str,call,sel,index,tup,not,neg,bin,old,forall,exists
	Name string
	Val  *big.Int
	Args []*CExpr
	Vars []string
	Pos  int
}

type Clause struct {
	Kind    string // requires, ensures, loopinv, failsif, cover, assert
	Tag     string
	Expr    *CExpr
	Src     string
	LoopOrd int
	Prop    string
	Always  bool // ensures that also applies to panic exits (none yet)
	Internal bool    // proved for the body but not exported to callers (may mention the function's locals)
	Assumed bool     // requires / loop invariant: a state invariant the function relies on; assumed (not checked) at call sites resp. at the loop head and listed as an unchecked assumption
	Slow    bool     // checked in the thorough tier only (solver needs more than the quick timeout)
	Using   []string // tags of earlier ensures clauses that may be used as hypotheses ("by #a, #b")
}

func (c *Clause) propOr(d string) string {
	if c.Prop != "" {
		return c.Prop
	}
	return d
}

type Contract struct {
	PkgPath  string
	FuncName string // display name e.g. "(Keeper).CalculateTwa"
	Props    []string
	Clauses  []*Clause
	NoPanic  bool
	Prune    bool // branch feasibility is checked with the solver while executing the function's own body
	Modular  bool
	Trusted  bool
	IsLemma  bool
	IsPred   bool
	Pure     bool
	Params   []string // lemma parameters
	PTypes   []string
	File     string
	Line     int
	Lets     []*Clause // let name = expr (evaluated in the entry state)
	PostLets []*Clause // letpost name = expr (evaluated in each exit state, before the ensures clauses)
	Modifies []string
	HasMod   bool
	Invokes  string // `invokes f on entry`: the function-typed parameter f is only ever called with a context whose state equals the entry state
	Explore  bool   // `explore steps`: function literals handed to an `invokes … on entry` callee are executed at the call site for their obligations
	Bounded  string
	Notes    []string
}

// Prop is the property tag of obligations without an explicit [Cxx] override: "*" = every property the contract lists.
func (c *Contract) Prop() string { return "*" }

// ---------- lexer / parser ----------

type ctok struct {
	tok token.Token
	lit string
	pos int
}

type cparser struct {
	toks []ctok
	i    int
	src  string
}

func lexContract(src string) ([]ctok, error) {
	fs := token.NewFileSet()
	f := fs.AddFile("", fs.Base(), len(src))
	var s scanner.Scanner
	var errs []string
	s.Init(f, []byte(src), func(pos token.Position, msg string) { errs = append(errs, msg) }, 0)
	var out []ctok
	for {
		p, t, l := s.Scan()
		if t == token.EOF {
			break
		}
		if t == token.SEMICOLON && l == "\n" {
			continue
		}
		out = append(out, ctok{t, l, int(p) - f.Base()})
	}
	if len(errs) > 0 {
		return nil, fmt.Errorf("lex: %s", strings.Join(errs, "; "))
	}
	// fuse "==" ">" into IMPLIES (==>) and "<" "==" ">" into IFF (<==>), "::" stays as two colons
	var fused []ctok
	for i := 0; i < len(out); i++ {
		if out[i].tok == token.LEQ && i+2 < len(out) && out[i+1].tok == token.ASSIGN && out[i+2].tok == token.GTR &&
			out[i+1].pos == out[i].pos+2 && out[i+2].pos == out[i+1].pos+1 {
			fused = append(fused, ctok{token.ILLEGAL, "<==>", out[i].pos})
			i += 2
			continue
		}
		if out[i].tok == token.EQL && i+1 < len(out) && out[i+1].tok == token.GTR && out[i+1].pos == out[i].pos+2 {
			fused = append(fused, ctok{token.ILLEGAL, "==>", out[i].pos})
			i++
			continue
		}
		fused = append(fused, out[i])
	}
	return fused, nil
}

func ParseCExpr(src string) (e *CExpr, err error) {
	toks, err := lexContract(src)
	if err != nil {
		return nil, err
	}
	p := &cparser{toks: toks, src: src}
	defer func() {
		if r := recover(); r != nil {
			if s, ok := r.(string); ok {
				err = fmt.Errorf("parse error in %q: %s", src, s)
				return
			}
			panic(r)
		}
	}()
	e = p.parseImpl()
	if p.i < len(p.toks) {
		panic(fmt.Sprintf("unexpected %q", p.toks[p.i].lit+p.toks[p.i].tok.String()))
	}
	return e, nil
}

func (p *cparser) peek() ctok {
	if p.i < len(p.toks) {
		return p.toks[p.i]
	}
	return ctok{tok: token.EOF}
}
func (p *cparser) next() ctok { t := p.peek(); p.i++; return t }
func (p *cparser) isLit(l string) bool {
	t := p.peek()
	return t.tok == token.ILLEGAL && t.lit == l
}
func (p *cparser) expect(t token.Token) ctok {
	if p.peek().tok != t {
		panic(fmt.Sprintf("expected %s, got %s %q", t, p.peek().tok, p.peek().lit))
	}
	return p.next()
}

// implication (right assoc, lowest), iff
func (p *cparser) parseImpl() *CExpr {
	l := p.parseOr()
	if p.isLit("==>") {
		p.next()
		r := p.parseImpl()
		return &CExpr{Op: "bin", Name: "==>", Args: []*CExpr{l, r}}
	}
	if p.isLit("<==>") {
		p.next()
		r := p.parseImpl()
		return &CExpr{Op: "bin", Name: "<==>", Args: []*CExpr{l, r}}
	}
	return l
}

func (p *cparser) parseOr() *CExpr {
	l := p.parseAnd()
	for p.peek().tok == token.LOR {
		p.next()
		r := p.parseAnd()
		l = &CExpr{Op: "bin", Name: "||", Args: []*CExpr{l, r}}
	}
	return l
}
func (p *cparser) parseAnd() *CExpr {
	l := p.parseCmp()
	for p.peek().tok == token.LAND {
		p.next()
		r := p.parseCmp()
		l = &CExpr{Op: "bin", Name: "&&", Args: []*CExpr{l, r}}
	}
	return l
}
func (p *cparser) parseCmp() *CExpr {
	l := p.parseAdd()
	for {
		switch p.peek().tok {
		case token.EQL, token.NEQ, token.LSS, token.LEQ, token.GTR, token.GEQ:
			op := p.next()
			r := p.parseAdd()
			l = &CExpr{Op: "bin", Name: op.tok.String(), Args: []*CExpr{l, r}}
		default:
			return l
		}
	}
}
func (p *cparser) parseAdd() *CExpr {
	l := p.parseMul()
	for p.peek().tok == token.ADD || p.peek().tok == token.SUB {
		op := p.next()
		r := p.parseMul()
		l = &CExpr{Op: "bin", Name: op.tok.String(), Args: []*CExpr{l, r}}
	}
	return l
}
func (p *cparser) parseMul() *CExpr {
	l := p.parseUnary()
	for p.peek().tok == token.MUL || p.peek().tok == token.QUO || p.peek().tok == token.REM {
		op := p.next()
		r := p.parseUnary()
		l = &CExpr{Op: "bin", Name: op.tok.String(), Args: []*CExpr{l, r}}
	}
	return l
}
func (p *cparser) parseUnary() *CExpr {
	switch p.peek().tok {
	case token.NOT:
		p.next()
		return &CExpr{Op: "not", Args: []*CExpr{p.parseUnary()}}
	case token.SUB:
		p.next()
		return &CExpr{Op: "neg", Args: []*CExpr{p.parseUnary()}}
	case token.MUL, token.AND: // *p / &x : transparent in specs
		p.next()
		return p.parseUnary()
	}
	return p.parsePostfix()
}
func (p *cparser) parsePostfix() *CExpr {
	e := p.parsePrimary()
	for {
		switch p.peek().tok {
		case token.PERIOD:
			p.next()
			t := p.next()
			if t.tok == token.INT {
				v, _ := new(big.Int).SetString(t.lit, 10)
				e = &CExpr{Op: "tup", Val: v, Args: []*CExpr{e}}
				continue
			}
			if t.tok != token.IDENT {
				panic("expected field name after '.'")
			}
			e = &CExpr{Op: "sel", Name: t.lit, Args: []*CExpr{e}}
		case token.FLOAT:
			// ".0" ".1" tuple index lexed as a float literal
			t := p.peek()
			if strings.HasPrefix(t.lit, ".") {
				p.next()
				v, ok := new(big.Int).SetString(t.lit[1:], 10)
				if !ok {
					panic("bad tuple index " + t.lit)
				}
				e = &CExpr{Op: "tup", Val: v, Args: []*CExpr{e}}
				continue
			}
			return e
		case token.LPAREN:
			p.next()
			var args []*CExpr
			for p.peek().tok != token.RPAREN {
				args = append(args, p.parseImpl())
				if p.peek().tok == token.COMMA {
					p.next()
				}
			}
			p.expect(token.RPAREN)
			e = &CExpr{Op: "call", Args: append([]*CExpr{e}, args...)}
		case token.LBRACK:
			p.next()
			idx := p.parseImpl()
			p.expect(token.RBRACK)
			e = &CExpr{Op: "index", Args: []*CExpr{e, idx}}
		default:
			return e
		}
	}
}
func (p *cparser) parsePrimary() *CExpr {
	t := p.next()
	switch t.tok {
	case token.INT:
		v, ok := new(big.Int).SetString(strings.ReplaceAll(t.lit, "_", ""), 0)
		if !ok {
			panic("bad integer " + t.lit)
		}
		return &CExpr{Op: "int", Val: v}
	case token.FLOAT:
		// 1e18 style literals
		f, ok := new(big.Float).SetString(t.lit)
		if ok {
			if i, acc := f.Int(nil); acc == big.Exact {
				return &CExpr{Op: "int", Val: i}
			}
		}
		panic("non-integral float literal " + t.lit)
	case token.STRING:
		return &CExpr{Op: "str", Name: strings.Trim(t.lit, "\"`")}
	case token.LPAREN:
		e := p.parseImpl()
		p.expect(token.RPAREN)
		return e
	case token.IDENT:
		if t.lit == "forall" || t.lit == "exists" {
			var vars []string
			for p.peek().tok == token.IDENT {
				vars = append(vars, p.next().lit)
				if p.peek().tok == token.COMMA {
					p.next()
				}
			}
			// optional type name was consumed as a var; drop known type names
			var vs []string
			for _, v := range vars {
				if v == "int" || v == "uint64" || v == "Int" {
					continue
				}
				vs = append(vs, v)
			}
			p.expect(token.COLON)
			p.expect(token.COLON)
			body := p.parseImpl()
			return &CExpr{Op: t.lit, Vars: vs, Args: []*CExpr{body}}
		}
		return &CExpr{Op: "ident", Name: t.lit}
	case token.FUNC, token.TYPE, token.RANGE, token.MAP:
		return &CExpr{Op: "ident", Name: t.lit}
	}
	panic(fmt.Sprintf("unexpected token %s %q", t.tok, t.lit))
}

// ---------- contract files ----------

// LoadContracts reads //@ blocks from zz_verif_contracts.go in each package dir (falling back to the mirror).
func (pr *Program) LoadContracts(mirrorDir string) error {
	for _, pi := range pr.Pkgs {
		if pi.Dir == "" {
			continue
		}
		file := filepath.Join(pi.Dir, "zz_verif_contracts.go")
		data, err := os.ReadFile(file)
		if err != nil && mirrorDir != "" {
			rel, _ := filepath.Rel(pr.RepoDir, file)
			file = filepath.Join(mirrorDir, rel)
			data, err = os.ReadFile(file)
			if err == nil {
				pr.LoadWarnings = append(pr.LoadWarnings, "contract file for "+pi.Path+" supplied from the mirror")
			}
		}
		if err != nil {
			continue
		}
		cs, err := parseContractFile(string(data), file, pi.Path)
		if err != nil {
			return err
		}
		for _, c := range cs {
			key := pi.Path + "|" + c.FuncName
			if _, dup := pr.Contracts[key]; dup {
				return fmt.Errorf("%s: duplicate contract for %s", file, c.FuncName)
			}
			pr.Contracts[key] = c
			if c.IsLemma || c.IsPred {
				continue
			}
			fi, ok := pr.ByName[key]
			if !ok {
				if lf := pr.literalFunc(pi, c.FuncName); lf != nil {
					pr.ByName[key] = lf
					lf.Contr = c
				}
				// otherwise: unbound contract, reported by the verdict stage
				continue
			}
			fi.Contr = c
		}
	}
	return nil
}

func parseContractFile(data, file, pkgPath string) ([]*Contract, error) {
	var out []*Contract
	var cur *Contract
	lines := strings.Split(data, "\n")
	for i := 0; i < len(lines); i++ {
		ln := strings.TrimSpace(lines[i])
		if !strings.HasPrefix(ln, "//@") {
			continue
		}
		body := strings.TrimSpace(ln[3:])
		// continuation lines: "//@     ..." following a clause ending with a backslash
		for strings.HasSuffix(body, "\\") && i+1 < len(lines) {
			i++
			nl := strings.TrimSpace(lines[i])
			body = strings.TrimSuffix(body, "\\") + " " + strings.TrimSpace(strings.TrimPrefix(nl, "//@"))
		}
		if body == "" {
			continue
		}
		word, rest := splitWord(body)
		fail := func(msg string) error { return fmt.Errorf("%s:%d: %s", file, i+1, msg) }
		switch word {
		case "func":
			name, err := parseFuncHeader(rest)
			if err != nil {
				return nil, fail(err.Error())
			}
			cur = &Contract{PkgPath: pkgPath, FuncName: name, File: file, Line: i + 1}
			out = append(out, cur)
		case "pred":
			// pred name(a, b): expr
			j := strings.Index(rest, "):")
			if j < 0 {
				return nil, fail("expected: pred name(params): expr")
			}
			name, params, err := parseLemmaHeader(rest[:j+1])
			if err != nil {
				return nil, fail(err.Error())
			}
			e, err := ParseCExpr(strings.TrimSpace(rest[j+2:]))
			if err != nil {
				return nil, fail(err.Error())
			}
			cur = &Contract{PkgPath: pkgPath, FuncName: "pred:" + name, IsPred: true, Params: params, File: file, Line: i + 1}
			cur.Clauses = append(cur.Clauses, &Clause{Kind: "body", Expr: e, Src: rest[j+2:]})
			out = append(out, cur)
		case "lemma":
			name, params, err := parseLemmaHeader(rest)
			if err != nil {
				return nil, fail(err.Error())
			}
			cur = &Contract{PkgPath: pkgPath, FuncName: "lemma:" + name, IsLemma: true, Params: params, File: file, Line: i + 1}
			out = append(out, cur)
		default:
			if cur == nil {
				return nil, fail("clause outside of a func/lemma block")
			}
			switch word {
			case "property":
				for _, p := range strings.FieldsFunc(rest, func(r rune) bool { return r == ',' || r == ' ' }) {
					cur.Props = append(cur.Props, p)
				}
			case "nopanic":
				cur.NoPanic = true
			case "prune":
				cur.Prune = true
			case "modular":
				cur.Modular = true
			case "pure":
				cur.Pure = true
			case "invokes":
				f := strings.Fields(rest)
				if len(f) != 3 || f[1] != "on" || f[2] != "entry" {
					return nil, fail("expected: invokes <param> on entry")
				}
				cur.Invokes = f[0]
			case "explore":
				if strings.TrimSpace(rest) != "steps" {
					return nil, fail("expected: explore steps")
				}
				cur.Explore = true
			case "trusted":
				cur.Trusted = true
				cur.Modular = true
			case "bounded":
				cur.Bounded = rest
			case "note":
				cur.Notes = append(cur.Notes, rest)
			case "modifies":
				cur.HasMod = true
				for _, p := range strings.FieldsFunc(rest, func(r rune) bool { return r == ',' || r == ' ' }) {
					if p != "nothing" {
						cur.Modifies = append(cur.Modifies, p)
					}
				}
			case "requires", "ensures", "fails_if", "cover", "let", "letpost", "loop", "assume_env", "apply":
				cl := &Clause{Kind: word}
				if word == "fails_if" {
					cl.Kind = "failsif"
				}
				if word == "loop" {
					var ord int
					var kw string
					n, err := fmt.Sscanf(rest, "%d %s", &ord, &kw)
					if n != 2 || err != nil || kw != "invariant" {
						return nil, fail("expected: loop <k> invariant <expr>")
					}
					cl.Kind = "loopinv"
					cl.LoopOrd = ord
					idx := strings.Index(rest, "invariant")
					rest = strings.TrimSpace(rest[idx+len("invariant"):])
				}
				// optional "[Cxx]" property override and "#tag:" label
				if strings.HasPrefix(rest, "[") {
					if j := strings.IndexByte(rest, ']'); j > 0 {
						cl.Prop = rest[1:j]
						rest = strings.TrimSpace(rest[j+1:])
					}
				}
				if strings.HasPrefix(rest, "slow ") {
					cl.Slow = true
					rest = strings.TrimSpace(rest[5:])
				}
				if strings.HasPrefix(rest, "assumed ") && (word == "requires" || word == "loop") {
					cl.Assumed = true
					rest = strings.TrimSpace(rest[8:])
				}
				if strings.HasPrefix(rest, "internal ") {
					cl.Internal = true
					rest = strings.TrimSpace(rest[9:])
				}
				if strings.HasPrefix(rest, "#") {
					j := strings.IndexByte(rest, ':')
					if j < 0 {
						return nil, fail("tag must be followed by ':'")
					}
					cl.Tag = strings.TrimSpace(rest[1:j])
					rest = strings.TrimSpace(rest[j+1:])
				}
				if word == "let" || word == "letpost" {
					j := strings.IndexByte(rest, '=')
					if j < 0 {
						return nil, fail("let needs '='")
					}
					cl.Tag = strings.TrimSpace(rest[:j])
					rest = strings.TrimSpace(rest[j+1:])
				}
				if j := strings.LastIndex(rest, " by #"); j >= 0 && word == "ensures" {
					for _, u := range strings.Split(rest[j+4:], ",") {
						cl.Using = append(cl.Using, strings.TrimPrefix(strings.TrimSpace(u), "#"))
					}
					rest = strings.TrimSpace(rest[:j])
				}
				e, err := ParseCExpr(rest)
				if err != nil {
					return nil, fail(err.Error())
				}
				cl.Expr = e
				cl.Src = rest
				if cl.Tag == "" {
					n := 0
					for _, o := range cur.Clauses {
						if o.Kind == cl.Kind {
							n++
						}
					}
					cl.Tag = fmt.Sprintf("%d", n)
				}
				if word == "let" {
					cur.Lets = append(cur.Lets, cl)
				} else if word == "letpost" {
					cur.PostLets = append(cur.PostLets, cl)
				} else {
					cur.Clauses = append(cur.Clauses, cl)
				}
			default:
				return nil, fail("unknown contract keyword " + word)
			}
		}
	}
	return out, nil
}

func splitWord(s string) (string, string) {
	s = strings.TrimSpace(s)
	i := strings.IndexAny(s, " \t")
	if i < 0 {
		return s, ""
	}
	return s[:i], strings.TrimSpace(s[i+1:])
}

// parseFuncHeader accepts "(k Keeper) Name", "(Keeper).Name", "(k *Keeper) Name", "Name".
func parseFuncHeader(s string) (string, error) {
	s = strings.TrimSpace(s)
	if !strings.HasPrefix(s, "(") {
		return strings.TrimSpace(s), nil
	}
	j := strings.IndexByte(s, ')')
	if j < 0 {
		return "", fmt.Errorf("bad func header")
	}
	recv := strings.Fields(s[1:j])
	if len(recv) == 0 {
		return "", fmt.Errorf("bad receiver")
	}
	typ := recv[len(recv)-1]
	name := strings.TrimSpace(strings.TrimPrefix(strings.TrimSpace(s[j+1:]), "."))
	if name == "" {
		return "", fmt.Errorf("missing function name")
	}
	return "(" + typ + ")." + name, nil
}

func parseLemmaHeader(s string) (string, []string, error) {
	i := strings.IndexByte(s, '(')
	j := strings.LastIndexByte(s, ')')
	if i < 0 || j < i {
		return "", nil, fmt.Errorf("bad lemma header")
	}
	name := strings.TrimSpace(s[:i])
	var params []string
	for _, p := range strings.Split(s[i+1:j], ",") {
		f := strings.Fields(p)
		if len(f) == 0 {
			continue
		}
		typ := "int"
		if len(f) > 1 {
			typ = f[1]
		}
		params = append(params, f[0]+":"+typ)
	}
	return name, params, nil
}


// literalFunc resolves "Outer$n": the n-th (1-based, source order) function literal in Outer's body, wrapped as a
// synthetic function whose inputs are the literal's parameters and its captured variables.
func (pr *Program) literalFunc(pi *PkgInfo, name string) *FuncInfo {
	i := strings.LastIndexByte(name, '$')
	if i < 0 {
		return nil
	}
	n, err := strconv.Atoi(name[i+1:])
	if err != nil || n < 1 {
		return nil
	}
	outer, ok := pr.ByName[pi.Path+"|"+name[:i]]
	if !ok || outer.Decl == nil || outer.Decl.Body == nil {
		return nil
	}
	var lit *ast.FuncLit
	k := 0
	ast.Inspect(outer.Decl.Body, func(nd ast.Node) bool {
		if l, ok := nd.(*ast.FuncLit); ok {
			k++
			if k == n {
				lit = l
			}
		}
		return lit == nil
	})
	if lit == nil {
		return nil
	}
	sig, ok := pi.P.TypesInfo.TypeOf(lit).(*types.Signature)
	if !ok {
		return nil
	}
	obj := types.NewFunc(lit.Pos(), pi.P.Types, outer.Obj.Name()+name[i:], sig)
	decl := &ast.FuncDecl{Name: ast.NewIdent(obj.Name()), Type: lit.Type, Body: lit.Body}
	return &FuncInfo{Obj: obj, Decl: decl, Pkg: pi, Name: name, Lit: lit, Outer: outer}
}
