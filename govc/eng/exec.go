package eng

import (
	"encoding/hex"
	"fmt"
	"go/ast"
	"go/constant"
	"go/token"
	"go/types"
	"os"
	"path/filepath"
	"strings"
)

type Exit struct {
	Kind string // "return", "panic"
	S    *State
	Vals []*Value
	Why  string
	Pos  token.Pos
}

type loopCtx struct {
	label     string
	breaks    []*State
	continues []*State
}

type callCtx struct {
	fi              *FuncInfo
	info            *types.Info
	pkg             *PkgInfo
	env             *Env
	exits           []*Exit
	resCells        []int
	resTypes        []types.Type
	loops           []*loopCtx
	depth           int
	parent          *callCtx
	loopOrd         int
	top             bool
	recovers        bool // a deferred recover() is installed: panics become returns
	deferred        []func(s *State)
	lit             *ast.FuncLit
	deferredRecover *ast.FuncLit
	escaped         []*Exit // panics raised inside a deferred function of the top-level function
	defers          []*deferRec
	deferOf         *Exit // this frame executes a deferred function for that exit of the parent frame
}

type deferRec struct {
	lit  *ast.FuncLit
	args []*Value
	env  *Env
}

type Obligation struct {
	Name          string
	Prop          string
	Kind          string
	Goal          *Term // must be valid: we check Not(Goal) unsat under Hyp
	Hyp           *Term
	Pos           string
	Src           string
	Cover         bool // cover query: Hyp ∧ Goal must be SAT
	Inputs        []NamedTerm
	Result        SolveResult
	Status        string  // discharged / failed / cover-sat / cover-unsat
	Axioms        []*Term // quantified axioms of spec functions (used only if the axiom-free query is not unsat)
	Slow          bool
	relaxed       bool
	ground        bool
	CandidateKind string
	Candidate     string // model of the axiom-free query when the full query is undecided
}

type NamedTerm struct {
	Name string
	T    *Term
}

type Exec struct {
	Pr                                               *Program
	Obls                                             []*Obligation
	cur                                              *callCtx
	Inlined                                          map[string]int
	Havocs                                           map[string]int
	Unmod                                            map[string]int // unmodelled callees (result havocked)
	AssumedNoPanic                                   map[string]int
	Notes                                            []string
	maxDepth                                         int
	nopanicMode                                      bool
	propTag                                          string
	fnTag                                            string
	panicSeq                                         map[string]int
	steps                                            int
	Trusted                                          map[string]int
	specMode                                         int
	entryInputs                                      []NamedTerm
	inRecover                                        int
	needSumAxioms, needShiftAxioms, needConcatAxioms bool
	defaultSpec                                      *specCtx
	specWorldID                                      int
	entryPC                                          *Term
	reqSeq                                           map[string]int
	Modular                                          map[string]int
	specCallRes                                      *types.Tuple
	typeAxioms                                       []*Term
	typeAxSeen                                       map[*Term]bool
	qVars                                            map[*Term]bool
	loopOrds                                         map[ast.Node]int
	dryRun                                           *FuncInfo
	iterMods                                         map[string]bool // dry run only: "module\x00prefix" of every store iterator created
	readBank                                         bool
	pureDepth                                        int
	selfFn                                           *FuncInfo
	pruneMode                                        bool
	ifaceOver                                        map[*Value]map[string]bool
	pruneMemo                                        map[*Term]bool
	Pruned                                           int
	skipWrapped                                      bool
	entrySnap                                        *State
	entryWorld                                       int
	invokeSeq                                        int
	exploring                                        int
}

func NewExec(pr *Program) *Exec {
	return &Exec{Pr: pr, Inlined: map[string]int{}, Havocs: map[string]int{}, Unmod: map[string]int{}, AssumedNoPanic: map[string]int{}, maxDepth: 14, panicSeq: map[string]int{}, Trusted: map[string]int{}, reqSeq: map[string]int{}, Modular: map[string]int{}}
}

type execPanic struct{ msg string }

func (x *Exec) fail(pos token.Pos, format string, a ...interface{}) {
	panic(execPanic{fmt.Sprintf("%s: ", x.Pr.Pos(pos)) + fmt.Sprintf(format, a...)})
}

func (x *Exec) note(format string, a ...interface{}) {
	m := fmt.Sprintf(format, a...)
	for _, n := range x.Notes {
		if n == m {
			return
		}
	}
	x.Notes = append(x.Notes, m)
}

// ---------- panics / partial operations ----------

// requireSafe handles a partial operation whose success condition is safe.
func (x *Exec) requireSafe(s *State, safe *Term, what string, pos token.Pos) {
	if safe.Op == "true" {
		return
	}
	c := x.cur
	if x.nopanicMode && x.specMode == 0 && !x.recoverActive() {
		x.panicSeq[what]++
		name := fmt.Sprintf("%s/nopanic:%s@%d", x.fnTag, what, x.panicSeq[what])
		x.Obls = append(x.Obls, &Obligation{Name: name, Prop: x.propTag, Kind: "nopanic", Hyp: s.PC, Goal: safe, Pos: x.Pr.Pos(pos), Inputs: x.entryInputs})
		s.Assume(safe)
		return
	}
	if x.specMode > 0 {
		// contract expressions are total: partial operations keep SMT's total semantics, nothing is assumed
		return
	}
	ps := s.Clone()
	ps.Assume(Not(safe))
	x.addPanicExit(c, ps, what, pos)
	s.Assume(safe)
}

func (x *Exec) addPanicExit(c *callCtx, ps *State, why string, pos token.Pos) {
	if ps.PC.Op == "false" || x.specMode > 0 {
		return
	}
	c.exits = append(c.exits, &Exit{Kind: "panic", S: ps, Why: why, Pos: pos})
}

// ---------- variables ----------

func (x *Exec) declare(s *State, o types.Object, v *Value) {
	cell := s.Alloc(v)
	x.cur.env.Bind(o, cell)
}

func (x *Exec) lookupVar(s *State, o types.Object, pos token.Pos) *Value {
	if cell, ok := x.cur.env.Lookup(o); ok {
		return s.Heap[cell]
	}
	// package-level variable
	if v, ok := o.(*types.Var); ok && v.Pkg() != nil && v.Parent() == v.Pkg().Scope() {
		return x.globalVar(s, v, pos)
	}
	x.fail(pos, "unbound variable %s", o.Name())
	return nil
}

var globalMemo = map[*types.Var]*Value{}

func (x *Exec) globalVar(s *State, v *types.Var, pos token.Pos) *Value {
	if gv, ok := globalMemo[v]; ok {
		return gv
	}
	var res *Value
	if isErrorType(v.Type()) || implementsError(v.Type()) {
		res = &Value{K: KPrim, Typ: v.Type(), T: x.Pr.ErrConst(v.Pkg().Path() + "." + v.Name())}
		globalMemo[v] = res
		return res
	}
	if init, ok := x.Pr.VarInit[v]; ok {
		pi := x.Pr.VarPkg[v]
		// evaluate initializer in an isolated context
		saved := x.cur
		x.cur = &callCtx{info: pi.P.TypesInfo, pkg: pi, env: NewEnv(nil), depth: saved.depth + 1, parent: saved}
		func() {
			defer func() {
				if r := recover(); r != nil {
					if _, ok := r.(execPanic); ok {
						res = nil
						return
					}
					panic(r)
				}
			}()
			tmp := NewState()
			res = x.eval(tmp, init)
		}()
		x.cur = saved
	}
	if res == nil {
		res = x.freshValue(v.Type(), "global."+v.Pkg().Name()+"."+v.Name(), s)
	}
	globalMemo[v] = res
	return res
}

// freshValue creates an unconstrained symbolic value of type t (with typing facts assumed on s).
func (x *Exec) freshValue(t types.Type, name string, s *State) *Value {
	v := buildValue(t, name, nil, func(path string, srt *Sort, lt types.Type) *Term {
		tm := Fresh(path, srt)
		if s != nil && srt.Kind != "Array" {
			s.Assume(rangeFact(lt, tm))
		}
		return tm
	}, 0)
	if s != nil {
		x.assumeShapeFacts(s, v)
	}
	return x.liven(s, v)
}

// namedValue is like freshValue but with stable (non-fresh) variable names.
func (x *Exec) namedValue(t types.Type, name string, s *State) *Value {
	v := buildValue(t, name, nil, func(path string, srt *Sort, lt types.Type) *Term {
		tm := Var(path, srt)
		if s != nil && srt.Kind != "Array" {
			s.Assume(rangeFact(lt, tm))
		}
		return tm
	}, 0)
	if s != nil {
		x.assumeShapeFacts(s, v)
	}
	return x.liven(s, v)
}

// assumeShapeFacts adds len >= 0 for every slice at unlifted positions.
func (x *Exec) assumeShapeFacts(s *State, v *Value) {
	switch v.K {
	case KSlice:
		if v.Len.S == SInt {
			s.Assume(Ge(v.Len, Zero))
			x.sliceTypeAxioms(v)
		}
	case KStruct, KTuple:
		for _, f := range v.Fields {
			x.assumeShapeFacts(s, f)
		}
	case KOpt:
		if v.Inl != nil {
			x.assumeShapeFacts(s, v.Inl)
		}
	}
}

// liven converts inline optionals at top level of a live value into heap pointers.
func (x *Exec) liven(s *State, v *Value) *Value {
	if s == nil || v == nil {
		return v
	}
	switch v.K {
	case KOpt:
		if v.NilT.S != SBool {
			return v
		}
		inner := x.liven(s, v.Inl)
		cell := s.Alloc(inner)
		return &Value{K: KPtr, Typ: v.Typ, Cell: cell, NilT: v.NilT}
	case KStruct, KTuple:
		ch := false
		n := &Value{K: v.K, Typ: v.Typ, Fields: make([]*Value, len(v.Fields))}
		for i, f := range v.Fields {
			n.Fields[i] = x.liven(s, f)
			if n.Fields[i] != f {
				ch = true
			}
		}
		if ch {
			return n
		}
	}
	return v
}

// deaden converts live pointers into inline optionals (for storing / comparing / merging).
func (x *Exec) deaden(s *State, v *Value) *Value {
	if v == nil {
		return v
	}
	switch v.K {
	case KPtr:
		if v.Cell == 0 {
			z := &Value{K: KOpt, Typ: v.Typ, NilT: True}
			if p, ok := v.Typ.Underlying().(*types.Pointer); ok {
				z.Inl = x.deaden(s, zeroValue(p.Elem()))
			}
			return z
		}
		return &Value{K: KOpt, Typ: v.Typ, NilT: v.NilT, Inl: x.deaden(s, s.Heap[v.Cell])}
	case KStruct, KTuple:
		n := &Value{K: v.K, Typ: v.Typ, Fields: make([]*Value, len(v.Fields))}
		for i, f := range v.Fields {
			n.Fields[i] = x.deaden(s, f)
		}
		return n
	case KSlice:
		if v.Conc != nil {
			n := &Value{K: KSlice, Typ: v.Typ, Len: v.Len, Conc: make([]*Value, len(v.Conc))}
			for i, e := range v.Conc {
				n.Conc[i] = x.deaden(s, e)
			}
			return n
		}
	}
	return v
}

// ---------- statements ----------

func (x *Exec) execBlock(s *State, stmts []ast.Stmt) *State {
	saved := x.cur.env
	x.cur.env = NewEnv(saved)
	defer func() { x.cur.env = saved }()
	for _, st := range stmts {
		if s == nil {
			return nil
		}
		s = x.execStmt(s, st)
	}
	return s
}

// Progress describes what the engine is doing (printed by the watchdog).
var Progress string

func (x *Exec) execStmt(s *State, st ast.Stmt) *State {
	Progress = "exec " + x.Pr.Pos(st.Pos())
	x.steps++
	if x.steps > 400000 {
		x.fail(st.Pos(), "step budget exceeded")
	}
	if s.PC.Op == "false" {
		return nil
	}
	switch st := st.(type) {
	case *ast.BlockStmt:
		return x.execBlock(s, st.List)
	case *ast.ExprStmt:
		x.evalMulti(s, st.X)
		return s
	case *ast.DeclStmt:
		gd := st.Decl.(*ast.GenDecl)
		if gd.Tok != token.VAR {
			return s
		}
		for _, sp := range gd.Specs {
			vs := sp.(*ast.ValueSpec)
			var vals []*Value
			if len(vs.Values) == 1 && len(vs.Names) > 1 {
				vals = x.evalMulti(s, vs.Values[0])
			} else {
				for _, e := range vs.Values {
					vals = append(vals, x.eval(s, e))
				}
			}
			for i, n := range vs.Names {
				o := x.cur.info.Defs[n]
				if o == nil {
					continue
				}
				var v *Value
				if i < len(vals) {
					v = x.convertTo(s, vals[i], o.Type())
				} else {
					v = x.liven(s, zeroValue(o.Type()))
				}
				x.declare(s, o, v)
			}
		}
		return s
	case *ast.AssignStmt:
		return x.execAssign(s, st)
	case *ast.IncDecStmt:
		cur := x.eval(s, st.X)
		one := prim(One, cur.Typ)
		op := token.ADD
		if st.Tok == token.DEC {
			op = token.SUB
		}
		nv := x.binop(s, op, cur, one, cur.Typ, st.Pos())
		x.assignTo(s, st.X, nv)
		return s
	case *ast.ReturnStmt:
		x.execReturn(s, st)
		return nil
	case *ast.IfStmt:
		return x.execIf(s, st)
	case *ast.ForStmt:
		return x.execFor(s, st, "")
	case *ast.RangeStmt:
		return x.execRange(s, st, "")
	case *ast.SwitchStmt:
		return x.execSwitch(s, st)
	case *ast.TypeSwitchStmt:
		return x.execTypeSwitch(s, st)
	case *ast.LabeledStmt:
		switch in := st.Stmt.(type) {
		case *ast.ForStmt:
			return x.execFor(s, in, st.Label.Name)
		case *ast.RangeStmt:
			return x.execRange(s, in, st.Label.Name)
		}
		return x.execStmt(s, st.Stmt)
	case *ast.BranchStmt:
		switch st.Tok {
		case token.BREAK, token.CONTINUE:
			var lc *loopCtx
			if st.Label != nil {
				for i := len(x.cur.loops) - 1; i >= 0; i-- {
					if x.cur.loops[i].label == st.Label.Name {
						lc = x.cur.loops[i]
						break
					}
				}
			} else if len(x.cur.loops) > 0 {
				lc = x.cur.loops[len(x.cur.loops)-1]
			}
			if lc == nil {
				x.fail(st.Pos(), "break/continue outside loop")
			}
			if st.Tok == token.BREAK {
				lc.breaks = append(lc.breaks, s)
			} else {
				lc.continues = append(lc.continues, s)
			}
			return nil
		}
		x.fail(st.Pos(), "unsupported branch %s", st.Tok)
	case *ast.DeferStmt:
		return x.execDefer(s, st)
	case *ast.EmptyStmt:
		return s
	case *ast.GoStmt, *ast.SelectStmt, *ast.SendStmt:
		x.fail(st.Pos(), "concurrency statement outside the verified subset")
	}
	x.fail(st.Pos(), "unsupported statement %T", st)
	return nil
}

func (x *Exec) execDefer(s *State, st *ast.DeferStmt) *State {
	// Deferred function literals run at every exit of the function, last in first out (also when the function panics).
	// Deferred plain calls (iterator Close, telemetry) have no effect on the modelled state and are skipped.
	if lit, ok := st.Call.Fun.(*ast.FuncLit); ok {
		var args []*Value
		for _, a := range st.Call.Args {
			args = append(args, x.eval(s, a))
		}
		if containsRecover(lit.Body) {
			x.cur.recovers = true
		}
		x.cur.defers = append(x.cur.defers, &deferRec{lit: lit, args: args, env: x.cur.env})
		return s
	}
	return s
}

// runDefers executes the deferred function literals of frame c on exit e (LIFO). recover() inside them stops a panic.
func (x *Exec) runDefers(c *callCtx, e *Exit) {
	if len(c.defers) == 0 {
		return
	}
	saved := x.cur
	defer func() { x.cur = saved }()
	for i := len(c.defers) - 1; i >= 0; i-- {
		if e.S == nil || e.S.PC.Op == "false" {
			return
		}
		d := c.defers[i]
		rc := &callCtx{fi: c.fi, info: c.info, pkg: c.pkg, env: NewEnv(d.env), depth: c.depth + 1, parent: c, lit: d.lit, deferOf: e}
		x.cur = rc
		x.bindParams(e.S, rc, d.lit.Type, nil, nil, d.args, d.lit.Pos())
		end := x.execBlock(e.S, d.lit.Body.List)
		var all []*State
		if end != nil {
			all = append(all, end)
		}
		for _, ex := range rc.exits {
			if ex.Kind == "return" {
				all = append(all, ex.S)
				continue
			}
			// a panic raised inside a deferred function replaces the current outcome on that path
			if c.parent != nil {
				c.parent.exits = append(c.parent.exits, ex)
			} else {
				c.escaped = append(c.escaped, ex)
			}
		}
		m := x.mergeMany(all)
		if m == nil {
			e.S.PC = False
			return
		}
		*e.S = *m
	}
	if e.Kind == "return" && len(c.resCells) > 0 {
		// named results may have been changed by deferred functions
		vals := make([]*Value, len(c.resCells))
		for i, cell := range c.resCells {
			vals[i] = e.S.Heap[cell]
		}
		if len(vals) == len(e.Vals) || e.Vals == nil {
			e.Vals = vals
		}
	}
}

func containsRecover(n ast.Node) bool {
	found := false
	ast.Inspect(n, func(n ast.Node) bool {
		if c, ok := n.(*ast.CallExpr); ok {
			if id, ok := c.Fun.(*ast.Ident); ok && id.Name == "recover" {
				found = true
			}
		}
		return !found
	})
	return found
}

func (x *Exec) execReturn(s *State, st *ast.ReturnStmt) {
	c := x.cur
	var vals []*Value
	if len(st.Results) == 0 {
		for _, cell := range c.resCells {
			vals = append(vals, s.Heap[cell])
		}
	} else if len(st.Results) == 1 && len(c.resTypes) > 1 {
		vals = x.evalMulti(s, st.Results[0])
		for i := range vals {
			vals[i] = x.convertTo(s, vals[i], c.resTypes[i])
		}
	} else {
		for i, e := range st.Results {
			v := x.eval(s, e)
			if i < len(c.resTypes) {
				v = x.convertTo(s, v, c.resTypes[i])
			}
			vals = append(vals, v)
		}
	}
	if s.PC.Op == "false" {
		return
	}
	c.exits = append(c.exits, &Exit{Kind: "return", S: s, Vals: vals, Pos: st.Pos()})
}

func (x *Exec) execIf(s *State, st *ast.IfStmt) *State {
	saved := x.cur.env
	x.cur.env = NewEnv(saved)
	defer func() { x.cur.env = saved }()
	if st.Init != nil {
		s = x.execStmt(s, st.Init)
		if s == nil {
			return nil
		}
	}
	cv := x.eval(s, st.Cond)
	c := cv.T
	if c.Op == "true" {
		return x.execBlock(s, st.Body.List)
	}
	if c.Op == "false" {
		if st.Else != nil {
			return x.execStmt(s, st.Else)
		}
		return s
	}
	if x.pruneMode && x.cur.top {
		if x.infeasible(And(s.PC, c)) {
			s.Assume(Not(c))
			if st.Else != nil {
				return x.execStmt(s, st.Else)
			}
			return s
		}
		if x.infeasible(And(s.PC, Not(c))) {
			s.Assume(c)
			return x.execBlock(s, st.Body.List)
		}
	}
	sa := s.Clone()
	sa.Assume(c)
	sb := s
	sb.Assume(Not(c))
	ra := x.execBlock(sa, st.Body.List)
	var rb *State
	if st.Else != nil {
		rb = x.execStmt(sb, st.Else)
	} else {
		rb = sb
	}
	return x.merge(c, ra, rb)
}

func (x *Exec) merge(c *Term, a, b *State) *State {
	if a != nil && a.PC.Op == "false" {
		a = nil
	}
	if b != nil && b.PC.Op == "false" {
		b = nil
	}
	return mergeStates(c, a, b)
}

// mergeMany merges mutually exclusive states using their own path conditions as selectors.
func (x *Exec) mergeMany(states []*State) *State {
	var acc *State
	for _, st := range states {
		if st == nil || st.PC.Op == "false" {
			continue
		}
		if acc == nil {
			acc = st
			continue
		}
		acc = mergeStates(relCond(st.PC, acc.PC), st, acc)
	}
	return acc
}

func (x *Exec) execSwitch(s *State, st *ast.SwitchStmt) *State {
	saved := x.cur.env
	x.cur.env = NewEnv(saved)
	defer func() { x.cur.env = saved }()
	if st.Init != nil {
		s = x.execStmt(s, st.Init)
		if s == nil {
			return nil
		}
	}
	var tag *Value
	if st.Tag != nil {
		tag = x.eval(s, st.Tag)
	}
	lc := &loopCtx{label: "\x00switch"}
	// break inside switch exits the switch: use a pseudo loop ctx
	x.cur.loops = append(x.cur.loops, lc)
	defer func() { x.cur.loops = x.cur.loops[:len(x.cur.loops)-1] }()
	var outs []*State
	rest := s
	var deflt *ast.CaseClause
	for _, cc := range st.Body.List {
		cl := cc.(*ast.CaseClause)
		if cl.List == nil {
			deflt = cl
			continue
		}
		if rest == nil {
			break
		}
		cond := False
		for _, e := range cl.List {
			v := x.eval(rest, e)
			if tag != nil {
				eq := x.equalValues(rest, tag, v, e.Pos())
				cond = Or(cond, eq)
			} else {
				cond = Or(cond, v.T)
			}
		}
		sa := rest.Clone()
		sa.Assume(cond)
		rest.Assume(Not(cond))
		if sa.PC.Op != "false" {
			if hasFallthrough(cl.Body) {
				x.fail(cl.Pos(), "fallthrough unsupported")
			}
			r := x.execBlock(sa, cl.Body)
			if r != nil {
				outs = append(outs, r)
			}
		}
		if rest.PC.Op == "false" {
			rest = nil
		}
	}
	if rest != nil {
		if deflt != nil {
			r := x.execBlock(rest, deflt.Body)
			if r != nil {
				outs = append(outs, r)
			}
		} else {
			outs = append(outs, rest)
		}
	}
	outs = append(outs, lc.breaks...)
	// continues inside a switch belong to the enclosing loop
	if len(lc.continues) > 0 {
		if len(x.cur.loops) >= 2 {
			outer := x.cur.loops[len(x.cur.loops)-2]
			outer.continues = append(outer.continues, lc.continues...)
		} else {
			x.fail(st.Pos(), "continue outside loop")
		}
	}
	return x.mergeMany(outs)
}

func hasFallthrough(body []ast.Stmt) bool {
	for _, b := range body {
		if br, ok := b.(*ast.BranchStmt); ok && br.Tok == token.FALLTHROUGH {
			return true
		}
	}
	return false
}

func (x *Exec) execTypeSwitch(s *State, st *ast.TypeSwitchStmt) *State {
	// Only supported when the dynamic type of the operand is known.
	var operand ast.Expr
	var bindName *ast.Ident
	switch a := st.Assign.(type) {
	case *ast.AssignStmt:
		bindName = a.Lhs[0].(*ast.Ident)
		operand = a.Rhs[0].(*ast.TypeAssertExpr).X
	case *ast.ExprStmt:
		operand = a.X.(*ast.TypeAssertExpr).X
	}
	v := x.eval(s, operand)
	dyn := v
	if v.Dyn != nil {
		dyn = v.Dyn
	}
	if dyn.K == KOpaque || dyn.Typ == nil {
		// unknown dynamic type: every clause may be taken (sound over-approximation)
		var outs []*State
		rest := s
		for _, cc := range st.Body.List {
			cl := cc.(*ast.CaseClause)
			if rest == nil {
				break
			}
			sel := Fresh("typeswitch", SBool)
			sa := rest.Clone()
			sa.Assume(sel)
			rest.Assume(Not(sel))
			var bv *Value
			if len(cl.List) == 1 {
				if tt := x.cur.info.TypeOf(cl.List[0]); tt != nil {
					if _, isIface := tt.Underlying().(*types.Interface); isIface {
						bv = &Value{K: KOpaque, Typ: tt}
					} else {
						bv = x.freshValue(tt, "typeswitch.val", sa)
					}
				}
			}
			if bv == nil {
				bv = v
			}
			if r := x.execTypeCase(sa, cl, bindName, bv); r != nil {
				outs = append(outs, r)
			}
		}
		if rest != nil {
			outs = append(outs, rest)
		}
		return x.mergeMany(outs)
	}
	var deflt *ast.CaseClause
	for _, cc := range st.Body.List {
		cl := cc.(*ast.CaseClause)
		if cl.List == nil {
			deflt = cl
			continue
		}
		for _, te := range cl.List {
			tt := x.cur.info.TypeOf(te)
			if tt != nil && types.Identical(tt, dyn.Typ) {
				return x.execTypeCase(s, cl, bindName, dyn)
			}
		}
	}
	if deflt != nil {
		return x.execTypeCase(s, deflt, bindName, v)
	}
	return s
}

func (x *Exec) execTypeCase(s *State, cl *ast.CaseClause, bind *ast.Ident, v *Value) *State {
	saved := x.cur.env
	x.cur.env = NewEnv(saved)
	defer func() { x.cur.env = saved }()
	if bind != nil {
		if o := x.cur.info.Implicits[cl]; o != nil {
			x.declare(s, o, v)
		}
	}
	return x.execBlock(s, cl.Body)
}

// ---------- assignment ----------

func (x *Exec) execAssign(s *State, st *ast.AssignStmt) *State {
	if st.Tok != token.ASSIGN && st.Tok != token.DEFINE {
		// op-assign
		var op token.Token
		switch st.Tok {
		case token.ADD_ASSIGN:
			op = token.ADD
		case token.SUB_ASSIGN:
			op = token.SUB
		case token.MUL_ASSIGN:
			op = token.MUL
		case token.QUO_ASSIGN:
			op = token.QUO
		case token.REM_ASSIGN:
			op = token.REM
		default:
			x.fail(st.Pos(), "unsupported assignment operator %s", st.Tok)
		}
		l := x.eval(s, st.Lhs[0])
		r := x.eval(s, st.Rhs[0])
		nv := x.binop(s, op, l, x.convertTo(s, r, l.Typ), l.Typ, st.Pos())
		x.assignTo(s, st.Lhs[0], nv)
		return s
	}
	var vals []*Value
	if len(st.Rhs) == 1 && len(st.Lhs) > 1 {
		vals = x.evalMulti(s, st.Rhs[0])
		if len(vals) != len(st.Lhs) {
			x.fail(st.Pos(), "assignment arity mismatch: %d vs %d", len(vals), len(st.Lhs))
		}
	} else {
		for _, e := range st.Rhs {
			vals = append(vals, x.eval(s, e))
		}
	}
	for i, l := range st.Lhs {
		if id, ok := l.(*ast.Ident); ok {
			if id.Name == "_" {
				continue
			}
			if st.Tok == token.DEFINE {
				if o := x.cur.info.Defs[id]; o != nil {
					x.declare(s, o, x.convertTo(s, vals[i], o.Type()))
					continue
				}
			}
		}
		x.assignTo(s, l, vals[i])
	}
	return s
}

// assignTo stores v into the lvalue expression l.
func (x *Exec) assignTo(s *State, l ast.Expr, v *Value) {
	switch l := l.(type) {
	case *ast.ParenExpr:
		x.assignTo(s, l.X, v)
	case *ast.Ident:
		if l.Name == "_" {
			return
		}
		o := x.cur.info.ObjectOf(l)
		cell, ok := x.cur.env.Lookup(o)
		if !ok {
			x.fail(l.Pos(), "assignment to unbound/global variable %s", l.Name)
		}
		s.Heap[cell] = x.convertTo(s, v, o.Type())
	case *ast.SelectorExpr:
		sel := x.cur.info.Selections[l]
		if sel == nil {
			x.fail(l.Pos(), "assignment to package-level selector")
		}
		base := x.eval(s, l.X)
		idx := sel.Index()
		ft := sel.Obj().Type()
		v = x.convertTo(s, v, ft)
		// pointer base: write through the cell
		if base.K == KPtr {
			x.requireSafe(s, Not(base.NilT), "nil-deref", l.Pos())
			s.Heap[base.Cell] = x.setFieldPath(s, s.Heap[base.Cell], idx, v, l.Pos())
			return
		}
		nb := x.setFieldPath(s, base, idx, v, l.Pos())
		x.assignTo(s, l.X, nb)
	case *ast.IndexExpr:
		base := x.eval(s, l.X)
		idx := x.eval(s, l.Index)
		switch base.K {
		case KSlice:
			x.requireSafe(s, And(Le(Zero, idx.T), Lt(idx.T, base.Len)), "index", l.Pos())
			nb := x.sliceSet(s, base, idx.T, v)
			x.assignTo(s, l.X, nb)
		case KMap:
			nb := x.mapSet(s, base, idx, v)
			x.assignTo(s, l.X, nb)
		default:
			x.fail(l.Pos(), "index assignment on %s", base.K)
		}
	case *ast.StarExpr:
		p := x.eval(s, l.X)
		if p.K != KPtr {
			x.fail(l.Pos(), "store through non-pointer %s", p.K)
		}
		x.requireSafe(s, Not(p.NilT), "nil-deref", l.Pos())
		s.Heap[p.Cell] = v
	default:
		x.fail(l.Pos(), "unsupported lvalue %T", l)
	}
}

func (x *Exec) setFieldPath(s *State, base *Value, idx []int, v *Value, pos token.Pos) *Value {
	if len(idx) == 0 {
		return v
	}
	if base.K == KPtr {
		// embedded pointer
		s.Heap[base.Cell] = x.setFieldPath(s, s.Heap[base.Cell], idx, v, pos)
		return base
	}
	if base.K != KStruct {
		x.fail(pos, "field assignment on %s", base.K)
	}
	n := &Value{K: KStruct, Typ: base.Typ, Fields: append([]*Value{}, base.Fields...)}
	n.Fields[idx[0]] = x.setFieldPath(s, base.Fields[idx[0]], idx[1:], v, pos)
	return n
}

func (x *Exec) sliceSet(s *State, base *Value, i *Term, v *Value) *Value {
	v = x.deaden(s, v)
	if base.Conc != nil && i.IsInt() && i.Val.IsInt64() && int(i.Val.Int64()) < len(base.Conc) && i.Val.Sign() >= 0 {
		n := &Value{K: KSlice, Typ: base.Typ, Len: base.Len, Conc: append([]*Value{}, base.Conc...)}
		n.Conc[i.Val.Int64()] = v
		return n
	}
	el := sliceElem(base)
	ne, ok := storeV(el, i, v)
	if !ok {
		x.note("slice element store with mismatching shape; slice havocked")
		return x.freshValue(base.Typ, "havoc.slice", s)
	}
	return &Value{K: KSlice, Typ: base.Typ, Len: base.Len, Elem: ne}
}

func (x *Exec) mapSet(s *State, base *Value, k *Value, v *Value) *Value {
	v = x.deaden(s, v)
	kt := x.keyTerm(k)
	ne, ok := storeV(base.Elem, kt, v)
	if !ok {
		x.note("map element store with mismatching shape; map havocked")
		return x.freshValue(base.Typ, "havoc.map", s)
	}
	return &Value{K: KMap, Typ: base.Typ, Has: Store(base.Has, kt, True), Elem: ne}
}

func (x *Exec) keyTerm(k *Value) *Term {
	switch k.K {
	case KPrim:
		if k.T.S == SBool {
			return Ite(k.T, One, Zero)
		}
		return k.T
	case KOpaque:
		if k.T != nil {
			return k.T
		}
	}
	return Fresh("mapkey", SInt)
}

// ---------- constants ----------

func (x *Exec) constValue(cv constant.Value, t types.Type, pos token.Pos) *Value {
	switch cv.Kind() {
	case constant.Bool:
		return prim(BoolC(constant.BoolVal(cv)), t)
	case constant.Int:
		bi, ok := constant.Val(cv).(interface{ String() string })
		_ = bi
		_ = ok
		s := cv.ExactString()
		v, ok2 := newBig(s)
		if !ok2 {
			x.fail(pos, "bad int constant %s", s)
		}
		return prim(BigC(v), t)
	case constant.String:
		return prim(x.Pr.Str(constant.StringVal(cv)), t)
	case constant.Float:
		// floats are not modelled: integral floats keep their value, others are opaque
		if constant.ToInt(cv).Kind() == constant.Int {
			v, _ := newBig(constant.ToInt(cv).ExactString())
			return prim(App("float.of_int", SInt, BigC(v)), t)
		}
		return prim(App("float.const_"+sanitize(cv.ExactString()), SInt), t)
	}
	x.fail(pos, "unsupported constant kind")
	return nil
}

func basicKindName(t types.Type) string {
	if b, ok := t.Underlying().(*types.Basic); ok {
		return b.Name()
	}
	return strings.ReplaceAll(t.String(), " ", "")
}

// sliceTypeAxioms records, as quantified axioms (used only in phase 2 of solving), that every element of a
// slice of machine integers lies in the range of its Go type. This is a typing fact, not an assumption about the program.
func (x *Exec) sliceTypeAxioms(v *Value) {
	if v.Conc != nil || v.Elem == nil {
		return
	}
	if x.typeAxSeen == nil {
		x.typeAxSeen = map[*Term]bool{}
	}
	add := func(leaf *Value) {
		if leaf.K != KPrim || leaf.Typ == nil || leaf.T.S != SArr(SInt, SInt) {
			return
		}
		if x.typeAxSeen[leaf.T] {
			return
		}
		i := Var("tyax.i", SInt)
		f := rangeFact(leaf.Typ, Select(leaf.T, i))
		if f.Op == "true" {
			return
		}
		x.typeAxSeen[leaf.T] = true
		bs := []*Term{i}
		// quantifier-bound variables of contract expressions occurring in the array term are generalised too
		seen := map[*Term]bool{}
		var walk func(t *Term)
		walk = func(t *Term) {
			if seen[t] {
				return
			}
			seen[t] = true
			if x.qVars[t] {
				bs = append(bs, t)
			}
			for _, a := range t.Args {
				walk(a)
			}
		}
		walk(leaf.T)
		x.typeAxioms = append(x.typeAxioms, Forall(bs, f))
	}
	switch v.Elem.K {
	case KPrim:
		add(v.Elem)
	case KStruct:
		for _, f := range v.Elem.Fields {
			add(f)
		}
	}
}

var errorIface = types.Universe.Lookup("error").Type().Underlying().(*types.Interface)

func implementsError(t types.Type) bool {
	if _, ok := t.Underlying().(*types.Interface); ok {
		return false
	}
	return types.Implements(t, errorIface)
}

// recoverActive reports whether a deferred recover() is installed in the current call chain
// (a panic is then not fatal: it becomes a path through the recover handler).
func (x *Exec) recoverActive() bool {
	for c := x.cur; c != nil; c = c.parent {
		if c.recovers {
			return true
		}
	}
	return false
}

// infeasible asks the solvers (1 s) whether t is unsatisfiable. Used only to skip branches of the function under
// contract that its precondition excludes (`prune`): skipping an unsatisfiable path is sound.
func (x *Exec) infeasible(t *Term) bool {
	if t.Op == "false" {
		return true
	}
	if t.Op == "true" {
		return false
	}
	if x.pruneMemo == nil {
		x.pruneMemo = map[*Term]bool{}
	}
	if v, ok := x.pruneMemo[t]; ok {
		return v
	}
	f := triggerInstantiate(t)
	f = And(f, modaddrFacts(f))
	memo := map[*Term]*Term{}
	f = relaxNL(dropQuantAsserted(f, true), memo)
	script := SMTScript([]*Term{f}, false, "; branch feasibility\n")
	dir := filepath.Join(os.TempDir(), fmt.Sprintf("govc-prune-%d", os.Getpid()))
	r := Solve(dir, fmt.Sprintf("b%d", len(x.pruneMemo)), script, 1, []string{"z3-new"})
	res := r.Status == "unsat"
	x.pruneMemo[t] = res
	if res {
		x.Pruned++
	}
	return res
}

func (x *Exec) noteIter(mod string, prefix []KeySeg) {
	if x.dryRun == nil {
		return
	}
	if x.iterMods == nil {
		x.iterMods = map[string]bool{}
	}
	var sb strings.Builder
	sb.WriteString(mod + "/")
	for _, sg := range prefix {
		if sg.T != nil {
			break // only the leading constant part identifies the families covered
		}
		sb.WriteString(hex.EncodeToString(sg.Const))
	}
	x.iterMods[mod+"\x00"+sb.String()] = true
}
