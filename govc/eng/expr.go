package eng

import (
	"go/ast"
	"go/token"
	"go/types"
	"math/big"
)

func (x *Exec) eval(s *State, e ast.Expr) *Value {
	vs := x.evalMulti(s, e)
	if len(vs) == 0 {
		return &Value{K: KTuple}
	}
	return vs[0]
}

func (x *Exec) typeOf(e ast.Expr) types.Type {
	return x.cur.info.TypeOf(e)
}

func (x *Exec) evalMulti(s *State, e ast.Expr) []*Value {
	info := x.cur.info
	// constants first
	if tv, ok := info.Types[e]; ok && tv.Value != nil {
		return []*Value{x.constValue(tv.Value, tv.Type, e.Pos())}
	}
	switch e := e.(type) {
	case *ast.ParenExpr:
		return x.evalMulti(s, e.X)
	case *ast.Ident:
		if e.Name == "nil" {
			t := x.typeOf(e)
			return []*Value{x.nilValue(t)}
		}
		if e.Name == "true" || e.Name == "false" {
			return []*Value{prim(BoolC(e.Name == "true"), types.Typ[types.Bool])}
		}
		o := info.ObjectOf(e)
		switch o := o.(type) {
		case *types.Var:
			return []*Value{x.lookupVar(s, o, e.Pos())}
		case *types.Func:
			fi := x.Pr.Funcs[o]
			return []*Value{{K: KFunc, Typ: o.Type(), Fn: &Closure{Decl: fi}, T: nil, Dyn: &Value{K: KOpaque, Typ: o.Type(), B: nil, Module: o.FullName()}}}
		case *types.Nil:
			return []*Value{x.nilValue(x.typeOf(e))}
		}
		x.fail(e.Pos(), "unsupported identifier %s (%T)", e.Name, o)
	case *ast.BasicLit:
		x.fail(e.Pos(), "non-constant literal")
	case *ast.SelectorExpr:
		return []*Value{x.evalSelector(s, e)}
	case *ast.StarExpr:
		p := x.eval(s, e.X)
		if p.K == KOpt && p.Inl != nil {
			if p.NilT != nil && p.NilT.S == SBool {
				x.requireSafe(s, Not(p.NilT), "nil-deref", e.Pos())
			}
			return []*Value{p.Inl}
		}
		if p.K == KPrim {
			// pointer to a scalar that the model keeps inline (e.g. *sdk.Dec fields of stored records): nil-ness is not tracked
			x.note("A-PTRPRIM: dereference of an inline scalar pointer at %s (nil-ness not tracked)", x.Pr.Pos(e.Pos()))
			return []*Value{p}
		}
		if p.K != KPtr {
			x.fail(e.Pos(), "dereference of %s", p.K)
		}
		x.requireSafe(s, Not(p.NilT), "nil-deref", e.Pos())
		return []*Value{s.Heap[p.Cell]}
	case *ast.UnaryExpr:
		return []*Value{x.evalUnary(s, e)}
	case *ast.BinaryExpr:
		return []*Value{x.evalBinary(s, e)}
	case *ast.CallExpr:
		return x.evalCall(s, e)
	case *ast.IndexExpr:
		return x.evalIndex(s, e)
	case *ast.SliceExpr:
		return []*Value{x.evalSlice(s, e)}
	case *ast.CompositeLit:
		return []*Value{x.evalComposite(s, e)}
	case *ast.FuncLit:
		return []*Value{{K: KFunc, Typ: x.typeOf(e), Fn: &Closure{Lit: e, Env: x.cur.env, Info: x.cur.info, Pkg: x.cur.pkg}}}
	case *ast.TypeAssertExpr:
		v := x.eval(s, e.X)
		tt := x.typeOf(e.Type)
		dyn := v
		if v.Dyn != nil && v.Dyn.K != KOpaque {
			dyn = v.Dyn
		}
		if dyn.Typ != nil && tt != nil && types.Identical(dyn.Typ, tt) {
			if tv, ok := info.Types[e]; ok {
				if tup, ok := tv.Type.(*types.Tuple); ok && tup.Len() == 2 {
					return []*Value{dyn, prim(True, types.Typ[types.Bool])}
				}
			}
			return []*Value{dyn}
		}
		// unknown dynamic type: the assertion may succeed or fail; on success the value is an unconstrained value of the
		// asserted type (sound over-approximation: nothing is assumed about its contents)
		okT := Fresh("typeassert.ok", SBool)
		var res *Value
		if tt != nil {
			res = x.namedValue(tt, Fresh("typeassert.val", SInt).Name, s)
		} else {
			res = &Value{K: KOpaque, Typ: tt}
		}
		x.note("TYPEASSERT: assertion on a value of unknown dynamic type at %s: both outcomes explored, asserted value unconstrained", x.Pr.Pos(e.Pos()))
		if tv, ok := info.Types[e]; ok {
			if tup, ok := tv.Type.(*types.Tuple); ok && tup.Len() == 2 {
				return []*Value{res, prim(okT, types.Typ[types.Bool])}
			}
		}
		x.requireSafe(s, okT, "type-assertion", e.Pos())
		return []*Value{res}
	case *ast.KeyValueExpr:
		x.fail(e.Pos(), "stray key-value expr")
	}
	x.fail(e.Pos(), "unsupported expression %T", e)
	return nil
}

func (x *Exec) nilValue(t types.Type) *Value {
	if t == nil {
		return &Value{K: KOpaque}
	}
	if isErrorType(t) {
		return prim(Zero, t)
	}
	switch u := t.Underlying().(type) {
	case *types.Pointer:
		return &Value{K: KPtr, Typ: t, Cell: 0, NilT: True}
	case *types.Slice:
		if b, ok := u.Elem().Underlying().(*types.Basic); ok && b.Kind() == types.Uint8 {
			if _, isP := primNamed(t); isP {
				return prim(Zero, t)
			}
			return &Value{K: KBytes, Typ: t, B: &Bytes{Kind: "key", NilT: True}}
		}
		return zeroValue(t)
	case *types.Map:
		return zeroValue(t)
	case *types.Interface:
		return &Value{K: KOpaque, Typ: t, T: Zero}
	case *types.Signature:
		return &Value{K: KFunc, Typ: t}
	case *types.Basic:
		if u.Kind() == types.UntypedNil {
			return &Value{K: KOpaque, Typ: t, T: Zero}
		}
	}
	return &Value{K: KOpaque, Typ: t, T: Zero}
}

func (x *Exec) evalSelector(s *State, e *ast.SelectorExpr) *Value {
	info := x.cur.info
	sel := info.Selections[e]
	if sel == nil {
		// qualified identifier pkg.Name
		o := info.ObjectOf(e.Sel)
		switch o := o.(type) {
		case *types.Var:
			return x.lookupVar(s, o, e.Pos())
		case *types.Func:
			return &Value{K: KFunc, Typ: o.Type(), Fn: &Closure{Decl: x.Pr.Funcs[o]}, Dyn: &Value{K: KOpaque, Module: o.FullName()}}
		}
		x.fail(e.Pos(), "unsupported qualified identifier %s", e.Sel.Name)
	}
	switch sel.Kind() {
	case types.FieldVal:
		base := x.eval(s, e.X)
		return x.fieldPath(s, base, sel.Index(), sel.Obj().Type(), e.Pos())
	case types.MethodVal:
		// method value (not call): closure over receiver
		recv := x.eval(s, e.X)
		f := sel.Obj().(*types.Func)
		return &Value{K: KFunc, Typ: sel.Type(), Fn: &Closure{Decl: x.Pr.Funcs[f], Recv: recv}, Dyn: &Value{K: KOpaque, Module: f.FullName()}}
	}
	x.fail(e.Pos(), "unsupported selection kind")
	return nil
}

func (x *Exec) fieldPath(s *State, base *Value, idx []int, ft types.Type, pos token.Pos) *Value {
	cur := base
	for _, i := range idx {
		if cur.K == KPtr {
			x.requireSafe(s, Not(cur.NilT), "nil-deref", pos)
			if cur.Cell == 0 {
				return x.liven(s, zeroValue(ft))
			}
			cur = s.Heap[cur.Cell]
		}
		switch cur.K {
		case KStruct:
			cur = cur.Fields[i]
		case KOpaque:
			// field of an opaque struct (keepers etc.)
			st, ok := derefStruct(cur.Typ)
			if !ok {
				x.fail(pos, "field of opaque non-struct")
			}
			cur = &Value{K: KOpaque, Typ: st.Field(i).Type(), Module: st.Field(i).Name()}
		default:
			x.fail(pos, "field selection on %s", cur.K)
		}
	}
	return cur
}

func derefStruct(t types.Type) (*types.Struct, bool) {
	if t == nil {
		return nil, false
	}
	if p, ok := t.Underlying().(*types.Pointer); ok {
		t = p.Elem()
	}
	st, ok := t.Underlying().(*types.Struct)
	return st, ok
}

func (x *Exec) evalUnary(s *State, e *ast.UnaryExpr) *Value {
	switch e.Op {
	case token.NOT:
		v := x.eval(s, e.X)
		return prim(Not(v.T), v.Typ)
	case token.SUB:
		v := x.eval(s, e.X)
		t := x.typeOf(e)
		return x.binop(s, token.SUB, prim(Zero, t), v, t, e.Pos())
	case token.ADD:
		return x.eval(s, e.X)
	case token.AND:
		// address-of
		switch in := e.X.(type) {
		case *ast.CompositeLit:
			v := x.evalComposite(s, in)
			cell := s.Alloc(v)
			return &Value{K: KPtr, Typ: x.typeOf(e), Cell: cell, NilT: False}
		case *ast.Ident:
			o := x.cur.info.ObjectOf(in)
			if cell, ok := x.cur.env.Lookup(o); ok {
				return &Value{K: KPtr, Typ: x.typeOf(e), Cell: cell, NilT: False}
			}
			x.fail(e.Pos(), "address of global %s", in.Name)
		default:
			// &x.f, &a[i]: copy into a fresh cell (loses aliasing; noted)
			v := x.eval(s, e.X)
			x.note("A-ALIAS: address of non-variable expression at %s copied into a fresh cell", x.Pr.Pos(e.Pos()))
			cell := s.Alloc(v)
			return &Value{K: KPtr, Typ: x.typeOf(e), Cell: cell, NilT: False}
		}
	}
	x.fail(e.Pos(), "unsupported unary %s", e.Op)
	return nil
}

func hasSideEffectsOrPartial(e ast.Expr) bool {
	found := false
	ast.Inspect(e, func(n ast.Node) bool {
		switch n := n.(type) {
		case *ast.CallExpr, *ast.IndexExpr, *ast.SliceExpr, *ast.StarExpr:
			found = true
		case *ast.BinaryExpr:
			if n.Op == token.QUO || n.Op == token.REM {
				found = true
			}
		case *ast.SelectorExpr:
			_ = n
		}
		return !found
	})
	return found
}

func (x *Exec) evalBinary(s *State, e *ast.BinaryExpr) *Value {
	bt := types.Typ[types.Bool]
	if e.Op == token.LAND || e.Op == token.LOR {
		l := x.eval(s, e.X)
		if !hasSideEffectsOrPartial(e.Y) {
			r := x.eval(s, e.Y)
			if e.Op == token.LAND {
				return prim(And(l.T, r.T), bt)
			}
			return prim(Or(l.T, r.T), bt)
		}
		// evaluate rhs under the guard, in a forked state, then merge
		guard := l.T
		if e.Op == token.LOR {
			guard = Not(l.T)
		}
		if guard.Op == "false" {
			return prim(BoolC(e.Op == token.LOR), bt)
		}
		sr := s.Clone()
		sr.Assume(guard)
		r := x.eval(sr, e.Y)
		skip := s.Clone()
		skip.Assume(Not(guard))
		m := x.merge(guard, sr, skip)
		if m == nil {
			s.PC = False
			return prim(False, bt)
		}
		*s = *m
		if e.Op == token.LAND {
			return prim(And(l.T, r.T), bt)
		}
		return prim(Or(l.T, r.T), bt)
	}
	l := x.eval(s, e.X)
	r := x.eval(s, e.Y)
	switch e.Op {
	case token.EQL:
		return prim(x.equalValues(s, l, r, e.Pos()), bt)
	case token.NEQ:
		return prim(Not(x.equalValues(s, l, r, e.Pos())), bt)
	}
	// operand type: use the non-constant side's type
	ot := x.typeOf(e.X)
	if tv, ok := x.cur.info.Types[e.X]; ok && tv.Value != nil {
		ot = x.typeOf(e.Y)
	}
	if b, ok := ot.Underlying().(*types.Basic); ok && b.Info()&types.IsUntyped != 0 {
		ot = x.typeOf(e)
	}
	switch e.Op {
	case token.LSS, token.LEQ, token.GTR, token.GEQ:
		if isFloat(ot) {
			return prim(App("float.cmp_"+e.Op.String(), SBool, l.T, r.T), bt)
		}
		if l.K != KPrim || r.K != KPrim {
			x.fail(e.Pos(), "comparison of non-primitive values (%s of %v, %s of %v)", l.K, l.Typ, r.K, r.Typ)
		}
		switch e.Op {
		case token.LSS:
			return prim(Lt(l.T, r.T), bt)
		case token.LEQ:
			return prim(Le(l.T, r.T), bt)
		case token.GTR:
			return prim(Gt(l.T, r.T), bt)
		default:
			return prim(Ge(l.T, r.T), bt)
		}
	}
	return x.binop(s, e.Op, l, r, x.typeOf(e), e.Pos())
}

func isFloat(t types.Type) bool {
	if t == nil {
		return false
	}
	b, ok := t.Underlying().(*types.Basic)
	return ok && b.Info()&types.IsFloat != 0
}

func isString(t types.Type) bool {
	if t == nil {
		return false
	}
	b, ok := t.Underlying().(*types.Basic)
	return ok && b.Info()&types.IsString != 0
}

// wrapInt applies Go's modular arithmetic for type t to the mathematical value v.
func wrapInt(t types.Type, v *Term) *Term {
	b, ok := t.Underlying().(*types.Basic)
	if !ok {
		return v
	}
	lo, hi, ok := intRange(b)
	if !ok {
		return v
	}
	if v.IsInt() {
		if v.Val.Cmp(lo) >= 0 && v.Val.Cmp(hi) <= 0 {
			return v
		}
	}
	size := new(big.Int).Add(new(big.Int).Sub(hi, lo), big.NewInt(1))
	if lo.Sign() == 0 {
		return Mod(v, BigC(size))
	}
	// signed: ((v - lo) mod size) + lo
	return Add(Mod(Sub(v, BigC(lo)), BigC(size)), BigC(lo))
}

// binop performs Go arithmetic on machine integers (exact wrap-around), floats (uninterpreted) and strings.
func (x *Exec) binop(s *State, op token.Token, l, r *Value, t types.Type, pos token.Pos) *Value {
	if l.K != KPrim || r.K != KPrim {
		x.fail(pos, "arithmetic on non-primitive values (%s %s %s)", l.K, op, r.K)
	}
	if isFloat(t) {
		return prim(App("float."+opName(op), SInt, l.T, r.T), t)
	}
	if isString(t) {
		if op == token.ADD {
			return prim(App("str.concat", SInt, l.T, r.T), t)
		}
		x.fail(pos, "unsupported string operator %s", op)
	}
	var res *Term
	switch op {
	case token.ADD:
		res = wrapInt(t, Add(l.T, r.T))
	case token.SUB:
		res = wrapInt(t, Sub(l.T, r.T))
	case token.MUL:
		res = wrapInt(t, Mul(l.T, r.T))
	case token.QUO:
		x.requireSafe(s, Neq(r.T, Zero), "div-by-zero", pos)
		res = wrapInt(t, TDiv(l.T, r.T))
	case token.REM:
		x.requireSafe(s, Neq(r.T, Zero), "div-by-zero", pos)
		res = TRem(l.T, r.T)
	case token.SHL:
		if r.T.IsInt() && r.T.Val.IsInt64() && r.T.Val.Int64() < 256 {
			res = wrapInt(t, Mul(l.T, BigC(Pow2(int(r.T.Val.Int64())))))
		} else {
			res = wrapInt(t, App("shl", SInt, l.T, r.T))
		}
	case token.SHR:
		if r.T.IsInt() && r.T.Val.IsInt64() && r.T.Val.Int64() < 256 {
			res = Div(l.T, BigC(Pow2(int(r.T.Val.Int64()))))
		} else {
			res = App("shr", SInt, l.T, r.T)
		}
	case token.AND, token.OR, token.XOR, token.AND_NOT:
		res = App("bit."+opName(op), SInt, l.T, r.T)
		s.Assume(rangeFact(t, res))
	default:
		x.fail(pos, "unsupported binary operator %s", op)
	}
	return prim(res, t)
}

func opName(op token.Token) string {
	switch op {
	case token.ADD:
		return "add"
	case token.SUB:
		return "sub"
	case token.MUL:
		return "mul"
	case token.QUO:
		return "div"
	case token.REM:
		return "rem"
	case token.AND:
		return "and"
	case token.OR:
		return "or"
	case token.XOR:
		return "xor"
	case token.AND_NOT:
		return "andnot"
	}
	return op.String()
}

// equalValues models Go's == on two values.
func (x *Exec) equalValues(s *State, l, r *Value, pos token.Pos) *Term {
	// nil comparisons
	if isNilLit(r) {
		return x.isNil(s, l, pos)
	}
	if isNilLit(l) {
		return x.isNil(s, r, pos)
	}
	// sdk.Dec / sdk.Int struct comparison compares pointers: unconstrained
	if l.Typ != nil {
		if k, ok := primNamed(l.Typ); ok && (k == "dec" || k == "sdkint" || k == "sdkuint" || k == "bigint") {
			x.note("struct comparison (==/!=) of %s values at %s is modelled as an unconstrained Boolean (pointer comparison)", k, x.Pr.Pos(pos))
			return Fresh("ptrcmp", SBool)
		}
	}
	if l.K == KPrim && r.K == KPrim {
		if l.T.S != r.T.S {
			x.fail(pos, "comparison of different sorts")
		}
		return Eq(l.T, r.T)
	}
	if l.K == KPtr && r.K == KPtr {
		if l.Cell == r.Cell {
			return Or(And(l.NilT, r.NilT), And(Not(l.NilT), Not(r.NilT)))
		}
		return And(l.NilT, r.NilT)
	}
	if l.K == KOpaque && r.K == KOpaque && l.T != nil && r.T != nil {
		return Eq(l.T, r.T)
	}
	t, ok := eqV(x.deaden(s, l), x.deaden(s, r))
	if !ok {
		x.note("comparison of values with different shapes at %s: unconstrained", x.Pr.Pos(pos))
		return Fresh("cmp", SBool)
	}
	return t
}

func isNilLit(v *Value) bool {
	if v == nil {
		return false
	}
	switch v.K {
	case KPtr:
		return v.Cell == 0 && v.NilT == True
	case KOpaque:
		return v.T == Zero && v.Dyn == nil && v.Module == ""
	case KBytes:
		return v.B != nil && v.B.Kind == "key" && len(v.B.Segs) == 0 && v.B.NilT == True
	case KFunc:
		return v.Fn == nil
	}
	return false
}

func (x *Exec) isNil(s *State, v *Value, pos token.Pos) *Term {
	switch v.K {
	case KPrim:
		if isErrorType(v.Typ) || v.T.S == SInt {
			return Eq(v.T, Zero)
		}
	case KPtr:
		return v.NilT
	case KOpt:
		return v.NilT
	case KBytes:
		if v.B.NilT != nil {
			return v.B.NilT
		}
		if v.B.Kind == "opaque" {
			return App("bytes.isnil", SBool, bytesIdent(v.B))
		}
		return False
	case KSlice:
		// nil slice: len == 0 (we do not distinguish nil from empty)
		return Eq(v.Len, Zero)
	case KMap:
		return False
	case KOpaque:
		if v.T != nil {
			return Eq(v.T, Zero)
		}
		if v.Dyn != nil {
			return x.isNil(s, v.Dyn, pos)
		}
		return Fresh("isnil", SBool)
	case KFunc:
		return BoolC(v.Fn == nil)
	}
	x.fail(pos, "nil comparison on %s", v.K)
	return nil
}

func (x *Exec) evalIndex(s *State, e *ast.IndexExpr) []*Value {
	// generic instantiation?
	if tv, ok := x.cur.info.Types[e.X]; ok && tv.IsType() {
		x.fail(e.Pos(), "generic type expression")
	}
	base := x.eval(s, e.X)
	if base.K == KFunc {
		return []*Value{base} // generic function instantiation
	}
	idx := x.eval(s, e.Index)
	if base.K == KPtr {
		base = s.Heap[base.Cell]
	}
	switch base.K {
	case KSlice:
		x.requireSafe(s, And(Le(Zero, idx.T), Lt(idx.T, base.Len)), "index", e.Pos())
		if base.Conc != nil && idx.T.IsInt() && idx.T.Val.IsInt64() {
			i := int(idx.T.Val.Int64())
			if i >= 0 && i < len(base.Conc) {
				return []*Value{x.liven(s, base.Conc[i])}
			}
		}
		v := x.liven(s, selectV(sliceElem(base), idx.T))
		x.assumeElemFacts(s, v)
		return []*Value{v}
	case KMap:
		kt := x.keyTerm(idx)
		has := Select(base.Has, kt)
		mt := base.Typ.Underlying().(*types.Map)
		stored := selectV(base.Elem, kt)
		zero := inlineForStore(zeroValue(mt.Elem()))
		v, ok := iteV(has, stored, zero)
		if !ok {
			v = stored
		}
		v = x.liven(s, v)
		x.assumeElemFacts(s, v)
		if tv, ok := x.cur.info.Types[e]; ok {
			if tup, ok := tv.Type.(*types.Tuple); ok && tup.Len() == 2 {
				return []*Value{v, prim(has, types.Typ[types.Bool])}
			}
		}
		return []*Value{v}
	case KPrim:
		if isString(base.Typ) {
			return []*Value{prim(App("str.at", SInt, base.T, idx.T), types.Typ[types.Uint8])}
		}
	case KBytes:
		r := App("bytes.at", SInt, bytesIdent(base.B), idx.T)
		s.Assume(And(Le(Zero, r), Lt(r, IntC(256))))
		return []*Value{prim(r, types.Typ[types.Uint8])}
	}
	x.fail(e.Pos(), "index on %s", base.K)
	return nil
}

func (x *Exec) evalSlice(s *State, e *ast.SliceExpr) *Value {
	base := x.eval(s, e.X)
	var lo, hi *Term
	if e.Low != nil {
		lo = x.eval(s, e.Low).T
	} else {
		lo = Zero
	}
	switch base.K {
	case KSlice:
		if e.High != nil {
			hi = x.eval(s, e.High).T
		} else {
			hi = base.Len
		}
		// Go checks 0 <= lo <= hi <= cap; we use len as cap (conservative: flags a[:n] with len < n <= cap)
		x.requireSafe(s, And(Le(Zero, lo), Le(lo, hi), Le(hi, base.Len)), "slice-bounds", e.Pos())
		if base.Conc != nil && lo.IsInt() && hi.IsInt() && lo.Val.IsInt64() && hi.Val.IsInt64() {
			l, h := int(lo.Val.Int64()), int(hi.Val.Int64())
			if l >= 0 && h <= len(base.Conc) && l <= h {
				return &Value{K: KSlice, Typ: base.Typ, Len: IntC(int64(h - l)), Conc: append([]*Value{}, base.Conc[l:h]...)}
			}
		}
		el := sliceElem(base)
		if lo == Zero || (lo.IsInt() && lo.Val.Sign() == 0) {
			return &Value{K: KSlice, Typ: base.Typ, Len: hi, Elem: el}
		}
		// shifted view: new[i] = old[i+lo], expressed with a fresh array constrained pointwise via lambda-free axiom
		sh := mapLeaves(el, func(t *Term) *Term {
			return App("arr.shift."+sortTag(t.S), t.S, t, lo)
		})
		x.needShiftAxioms = true
		return &Value{K: KSlice, Typ: base.Typ, Len: Sub(hi, lo), Elem: sh}
	case KPrim:
		if isString(base.Typ) {
			if e.High != nil {
				hi = x.eval(s, e.High).T
			} else {
				hi = App("str.len", SInt, base.T)
			}
			return prim(App("str.sub", SInt, base.T, lo, hi), base.Typ)
		}
	case KBytes:
		return &Value{K: KBytes, Typ: base.Typ, B: &Bytes{Kind: "opaque", T: Fresh("bytes.slice", SInt)}}
	}
	x.fail(e.Pos(), "slice expression on %s", base.K)
	return nil
}

func sortTag(s *Sort) string {
	if s.Kind == "Array" {
		return "A" + sortTag(s.Idx) + sortTag(s.Elem)
	}
	return s.Kind[:1]
}

func (x *Exec) evalComposite(s *State, e *ast.CompositeLit) *Value {
	t := x.typeOf(e)
	switch u := t.Underlying().(type) {
	case *types.Struct:
		v := x.liven(s, zeroValue(t))
		if v.K != KStruct {
			// prim-named struct types (sdk.Int{} / sdk.Dec{}): nil value, modelled as 0
			x.note("zero-value composite literal of %s at %s modelled as 0 (nil big.Int not distinguished)", t.String(), x.Pr.Pos(e.Pos()))
			return v
		}
		n := &Value{K: KStruct, Typ: t, Fields: append([]*Value{}, v.Fields...)}
		for i, el := range e.Elts {
			if kv, ok := el.(*ast.KeyValueExpr); ok {
				name := kv.Key.(*ast.Ident).Name
				for j := 0; j < u.NumFields(); j++ {
					if u.Field(j).Name() == name {
						n.Fields[j] = x.convertTo(s, x.eval(s, kv.Value), u.Field(j).Type())
					}
				}
			} else {
				n.Fields[i] = x.convertTo(s, x.eval(s, el), u.Field(i).Type())
			}
		}
		return n
	case *types.Slice:
		if b, ok := u.Elem().Underlying().(*types.Basic); ok && b.Kind() == types.Uint8 {
			var bs []byte
			for _, el := range e.Elts {
				v := x.eval(s, el)
				if !v.T.IsInt() {
					return &Value{K: KBytes, Typ: t, B: &Bytes{Kind: "opaque", T: Fresh("bytes.lit", SInt)}}
				}
				bs = append(bs, byte(v.T.Val.Int64()))
			}
			return &Value{K: KBytes, Typ: t, B: &Bytes{Kind: "key", Segs: []KeySeg{{Const: bs}}}}
		}
		v := &Value{K: KSlice, Typ: t, Conc: []*Value{}}
		for _, el := range e.Elts {
			if kv, ok := el.(*ast.KeyValueExpr); ok {
				el = kv.Value
			}
			var ev *Value
			if cl, ok := el.(*ast.CompositeLit); ok && cl.Type == nil {
				ev = x.evalCompositeTyped(s, cl, u.Elem())
			} else {
				ev = x.convertTo(s, x.eval(s, el), u.Elem())
			}
			v.Conc = append(v.Conc, x.deaden(s, ev))
		}
		v.Len = IntC(int64(len(v.Conc)))
		return v
	case *types.Array:
		v := &Value{K: KSlice, Typ: t, Conc: []*Value{}}
		for _, el := range e.Elts {
			v.Conc = append(v.Conc, x.deaden(s, x.convertTo(s, x.eval(s, el), u.Elem())))
		}
		for int64(len(v.Conc)) < u.Len() {
			v.Conc = append(v.Conc, zeroValue(u.Elem()))
		}
		v.Len = IntC(u.Len())
		return v
	case *types.Map:
		v := zeroValue(t)
		for _, el := range e.Elts {
			kv := el.(*ast.KeyValueExpr)
			v = x.mapSet(s, v, x.eval(s, kv.Key), x.convertTo(s, x.eval(s, kv.Value), u.Elem()))
		}
		return v
	}
	x.fail(e.Pos(), "unsupported composite literal of %s", t)
	return nil
}

func (x *Exec) evalCompositeTyped(s *State, e *ast.CompositeLit, t types.Type) *Value {
	// elided type inside slice literal
	if p, ok := t.Underlying().(*types.Pointer); ok {
		inner := x.evalCompositeTyped(s, e, p.Elem())
		return &Value{K: KPtr, Typ: t, Cell: s.Alloc(inner), NilT: False}
	}
	saved := x.cur.info.Types[e]
	_ = saved
	return x.evalComposite(s, e)
}

// convertTo adapts a value to a static target type (interface boxing, untyped nil, named conversions).
func (x *Exec) convertTo(s *State, v *Value, t types.Type) *Value {
	if v == nil || t == nil {
		return v
	}
	if isNilLit(v) && v.K == KOpaque {
		return x.nilValue(t)
	}
	if _, isIface := t.Underlying().(*types.Interface); isIface {
		if isErrorType(t) {
			if v.K == KPrim {
				return v
			}
			if v.K == KPtr { // pointer to an error struct
				return prim(Ite(v.NilT, Zero, Fresh("err.boxed", SInt)), t)
			}
			e := Fresh("err.dyn", SInt)
			return prim(e, t)
		}
		if v.K == KOpaque && v.Dyn == nil {
			return v
		}
		if v.Typ != nil {
			if _, already := v.Typ.Underlying().(*types.Interface); already {
				return v
			}
		}
		return &Value{K: KOpaque, Typ: t, Dyn: v}
	}
	if v.K == KOpaque && v.Dyn != nil && v.Dyn.Typ != nil && types.Identical(v.Dyn.Typ, t) {
		return v.Dyn
	}
	if v.K == KPrim && v.Typ != t {
		return &Value{K: KPrim, Typ: t, T: v.T}
	}
	return v
}
