package eng

import (
	"go/ast"
	"go/types"
	"strings"
)

// WriteSet: module names whose stores may be written, "bank", or "*".
type WriteSet map[string]bool

func moduleOf(pkgPath string) string {
	if i := strings.Index(pkgPath, "/x/"); i >= 0 {
		rest := pkgPath[i+3:]
		if j := strings.IndexByte(rest, '/'); j >= 0 {
			return rest[:j]
		}
		return rest
	}
	parts := strings.Split(pkgPath, "/")
	return parts[len(parts)-1]
}

var bankWriteMethods = map[string]bool{
	"SendCoins": true, "SendCoinsFromModuleToAccount": true, "SendCoinsFromAccountToModule": true, "SendCoinsFromModuleToModule": true,
	"MintCoins": true, "BurnCoins": true, "InputOutputCoins": true, "DelegateCoins": true, "UndelegateCoins": true,
	"DelegateCoinsFromAccountToModule": true, "UndelegateCoinsFromModuleToAccount": true, "SetDenomMetaData": true,
}

var fwMemo = map[*FuncInfo]WriteSet{}

func (x *Exec) funcWrites(fi *FuncInfo) WriteSet {
	if ws, ok := fwMemo[fi]; ok {
		return ws
	}
	ws := WriteSet{}
	if fi.Decl.Body != nil {
		x.collectWrites(fi.Decl.Body, fi.Pkg.P.TypesInfo, fi.Pkg, ws, map[*FuncInfo]bool{fi: true})
	}
	fwMemo[fi] = ws
	return ws
}

func (x *Exec) collectWrites(n ast.Node, info *types.Info, pkg *PkgInfo, ws WriteSet, visiting map[*FuncInfo]bool) {
	ast.Inspect(n, func(n ast.Node) bool {
		call, ok := n.(*ast.CallExpr)
		if !ok {
			return true
		}
		if x.skipWrapped {
			// frame of the un-wrapped part of a hook: the literal passed to ApplyFuncIfNoError is all-or-nothing by that
			// function's contract and is not part of the caller's own (unprotected) writes
			if se, ok := call.Fun.(*ast.SelectorExpr); ok && se.Sel.Name == "ApplyFuncIfNoError" && len(call.Args) == 2 {
				if _, isLit := call.Args[1].(*ast.FuncLit); isLit {
					return false
				}
			}
		}
		var obj types.Object
		var hint string
		switch f := unparen(call.Fun).(type) {
		case *ast.Ident:
			obj = info.Uses[f]
		case *ast.SelectorExpr:
			if sel := info.Selections[f]; sel != nil {
				obj = sel.Obj()
				if in, ok := f.X.(*ast.SelectorExpr); ok {
					hint = in.Sel.Name
				}
			} else {
				obj = info.Uses[f.Sel]
			}
		}
		fn, ok := obj.(*types.Func)
		if !ok {
			return true
		}
		sig := fn.Type().(*types.Signature)
		if sig.Recv() != nil {
			rt := sig.Recv().Type()
			rp := namedPath(rt)
			if _, isIface := rt.Underlying().(*types.Interface); isIface {
				iname := ""
				if nn, ok := rt.(*types.Named); ok {
					iname = nn.Obj().Name()
				}
				switch {
				case rp == "github.com/cosmos/cosmos-sdk/store/types.KVStore" || iname == "KVStore" || iname == "BasicKVStore":
					if fn.Name() == "Set" || fn.Name() == "Delete" {
						ws[moduleOf(pkg.Path)] = true
					}
					return true
				case strings.Contains(strings.ToLower(iname), "bank"):
					if bankWriteMethods[fn.Name()] {
						ws["bank"] = true
					}
					return true
				}
				if fi := x.Pr.ResolveIfaceMethod(rt, fn.Name(), hint); fi != nil {
					x.mergeFuncWrites(fi, ws, visiting)
				}
				return true
			}
			if strings.HasSuffix(rp, "prefix.Store") && (fn.Name() == "Set" || fn.Name() == "Delete") {
				ws[moduleOf(pkg.Path)] = true
				return true
			}
			if strings.Contains(rp, "/x/bank/keeper.") && bankWriteMethods[fn.Name()] {
				ws["bank"] = true
				return true
			}
		}
		if fi, ok := x.Pr.Funcs[fn]; ok {
			x.mergeFuncWrites(fi, ws, visiting)
		} else if fi, ok := x.Pr.Funcs[fn.Origin()]; ok {
			x.mergeFuncWrites(fi, ws, visiting)
		}
		return true
	})
}

func (x *Exec) mergeFuncWrites(fi *FuncInfo, ws WriteSet, visiting map[*FuncInfo]bool) {
	if cached, ok := fwMemo[fi]; ok {
		for k := range cached {
			ws[k] = true
		}
		return
	}
	if visiting[fi] || fi.Decl.Body == nil {
		return
	}
	visiting[fi] = true
	sub := WriteSet{}
	x.collectWrites(fi.Decl.Body, fi.Pkg.P.TypesInfo, fi.Pkg, sub, visiting)
	delete(visiting, fi)
	if len(visiting) <= 1 {
		fwMemo[fi] = sub
	}
	for k := range sub {
		ws[k] = true
	}
}
