package eng

// Quantifier support for obligations: universally quantified goals are skolemised, and universally quantified
// hypotheses are additionally instantiated at the skolem constants (and at the index terms that occur in the goal).
// Both steps preserve validity of  Hyp ==> Goal  in the direction we need: the transformed formula implies the original.

func skolemizePos(t *Term, pos bool, sks *[]*Term) *Term {
	switch t.Op {
	case "and", "or":
		args := make([]*Term, len(t.Args))
		ch := false
		for i, a := range t.Args {
			args[i] = skolemizePos(a, pos, sks)
			if args[i] != a {
				ch = true
			}
		}
		if !ch {
			return t
		}
		if t.Op == "and" {
			return And(args...)
		}
		return Or(args...)
	case "not":
		a := skolemizePos(t.Args[0], !pos, sks)
		if a == t.Args[0] {
			return t
		}
		return Not(a)
	case "forall":
		if pos {
			m := map[*Term]*Term{}
			for _, b := range t.Bound {
				sk := Fresh("sk."+b.Name, b.S)
				m[b] = sk
				*sks = append(*sks, sk)
			}
			return skolemizePos(Subst(t.Args[0], m), pos, sks)
		}
	case "exists":
		if !pos {
			m := map[*Term]*Term{}
			for _, b := range t.Bound {
				sk := Fresh("sk."+b.Name, b.S)
				m[b] = sk
				*sks = append(*sks, sk)
			}
			return skolemizePos(Subst(t.Args[0], m), pos, sks)
		}
	}
	return t
}

func instantiateNeg(t *Term, pos bool, cands []*Term, depth int) *Term {
	switch t.Op {
	case "and", "or":
		args := make([]*Term, len(t.Args))
		ch := false
		for i, a := range t.Args {
			args[i] = instantiateNeg(a, pos, cands, depth)
			if args[i] != a {
				ch = true
			}
		}
		if !ch {
			return t
		}
		if t.Op == "and" {
			return And(args...)
		}
		return Or(args...)
	case "not":
		a := instantiateNeg(t.Args[0], !pos, cands, depth)
		if a == t.Args[0] {
			return t
		}
		return Not(a)
	case "forall":
		if !pos && len(t.Bound) == 1 && t.Bound[0].S == SInt && depth < 2 {
			out := []*Term{t}
			for _, c := range cands {
				inst := Subst(t.Args[0], map[*Term]*Term{t.Bound[0]: c})
				out = append(out, instantiateNeg(inst, pos, cands, depth+1))
			}
			return And(out...)
		}
	}
	return t
}

// prepareQuantified returns hypothesis and goal strengthened with skolemisation and instances.
func prepareQuantified(hyp, goal *Term) (*Term, *Term) {
	if !hasQuant(hyp) && !hasQuant(goal) {
		return hyp, goal
	}
	var sks []*Term
	g := skolemizePos(goal, true, &sks)
	h := skolemizePos(hyp, false, &sks)
	if len(sks) == 0 {
		return h, g
	}
	var cands []*Term
	for _, s := range sks {
		if s.S == SInt {
			cands = append(cands, s)
		}
	}
	if len(cands) > 4 {
		cands = cands[:4]
	}
	h = instantiateNeg(h, false, cands, 0)
	g = instantiateNeg(g, true, cands, 0)
	return h, g
}

var quantMemo = map[*Term]bool{}

func hasQuant(t *Term) bool {
	if v, ok := quantMemo[t]; ok {
		return v
	}
	r := t.Op == "forall" || t.Op == "exists"
	if !r {
		for _, a := range t.Args {
			if hasQuant(a) {
				r = true
				break
			}
		}
	}
	quantMemo[t] = r
	return r
}
