package eng

import "fmt"

// Quantifier support for obligations: universally quantified goals are skolemised, and universally quantified
// hypotheses are additionally instantiated at the skolem constants (and at the index terms that occur in the goal).
// Both steps preserve validity of  Hyp ==> Goal  in the direction we need: the transformed formula implies the original.

func skolemizePos(t *Term, pos bool, sks *[]*Term) *Term {
	switch t.Op {
	case "and", "or":
		args := make([]*Term, len(t.Args))
		ch := false
		for i, a := range t.Args {
			args[i] = skolemizePos(a, pos, sks)
			if args[i] != a {
				ch = true
			}
		}
		if !ch {
			return t
		}
		if t.Op == "and" {
			return And(args...)
		}
		return Or(args...)
	case "not":
		a := skolemizePos(t.Args[0], !pos, sks)
		if a == t.Args[0] {
			return t
		}
		return Not(a)
	case "forall":
		if pos {
			m := map[*Term]*Term{}
			for _, b := range t.Bound {
				sk := Fresh("sk."+b.Name, b.S)
				m[b] = sk
				*sks = append(*sks, sk)
			}
			return skolemizePos(Subst(t.Args[0], m), pos, sks)
		}
	case "exists":
		if !pos {
			m := map[*Term]*Term{}
			for _, b := range t.Bound {
				sk := Fresh("sk."+b.Name, b.S)
				m[b] = sk
				*sks = append(*sks, sk)
			}
			return skolemizePos(Subst(t.Args[0], m), pos, sks)
		}
	}
	return t
}

func instantiateNeg(t *Term, pos bool, cands []*Term, depth int) *Term {
	switch t.Op {
	case "and", "or":
		args := make([]*Term, len(t.Args))
		ch := false
		for i, a := range t.Args {
			args[i] = instantiateNeg(a, pos, cands, depth)
			if args[i] != a {
				ch = true
			}
		}
		if !ch {
			return t
		}
		if t.Op == "and" {
			return And(args...)
		}
		return Or(args...)
	case "not":
		a := instantiateNeg(t.Args[0], !pos, cands, depth)
		if a == t.Args[0] {
			return t
		}
		return Not(a)
	case "forall":
		if !pos && len(t.Bound) == 1 && t.Bound[0].S == SInt && depth < 2 {
			out := []*Term{t}
			for _, c := range cands {
				inst := Subst(t.Args[0], map[*Term]*Term{t.Bound[0]: c})
				out = append(out, instantiateNeg(inst, pos, cands, depth+1))
			}
			return And(out...)
		}
	}
	return t
}

// prepareQuantified returns hypothesis and goal strengthened with skolemisation and instances.
func prepareQuantified(hyp, goal *Term) (*Term, *Term) {
	if !hasQuant(hyp) && !hasQuant(goal) {
		return hyp, goal
	}
	var sks []*Term
	g := skolemizePos(goal, true, &sks)
	h := skolemizePos(hyp, false, &sks)
	if len(sks) == 0 {
		return h, g
	}
	var cands []*Term
	for _, s := range sks {
		if s.S == SInt {
			cands = append(cands, s)
		}
	}
	if len(cands) > 4 {
		cands = cands[:4]
	}
	h = instantiateNeg(h, false, cands, 0)
	g = instantiateNeg(g, true, cands, 0)
	return h, g
}

var quantMemo = map[*Term]bool{}

func hasQuant(t *Term) bool {
	if v, ok := quantMemo[t]; ok {
		return v
	}
	r := t.Op == "forall" || t.Op == "exists"
	if !r {
		for _, a := range t.Args {
			if hasQuant(a) {
				r = true
				break
			}
		}
	}
	quantMemo[t] = r
	return r
}

// relaxNL abstracts non-linear arithmetic (products of two non-constants, division/modulo by a non-constant) by
// uninterpreted functions. The relaxed formula is weaker, so relaxed-unsat implies unsat (sound for proofs);
// a relaxed model is only a candidate counterexample.
func relaxNL(t *Term, memo map[*Term]*Term) *Term {
	if r, ok := memo[t]; ok {
		return r
	}
	var r *Term
	if len(t.Args) == 0 {
		r = t
	} else {
		args := make([]*Term, len(t.Args))
		ch := false
		for i, a := range t.Args {
			args[i] = relaxNL(a, memo)
			if args[i] != a {
				ch = true
			}
		}
		switch {
		case t.Op == "*" && !args[0].IsInt() && !args[1].IsInt():
			a, b := args[0], args[1]
			if a.ID > b.ID {
				a, b = b, a
			}
			r = App("nl.mul", SInt, a, b)
		case (t.Op == "div" || t.Op == "mod") && !args[1].IsInt():
			r = App("nl."+t.Op, SInt, args[0], args[1])
		case ch:
			if t.Op == "forall" || t.Op == "exists" {
				if t.Op == "forall" {
					r = Forall(t.Bound, args[0])
				} else {
					r = Exists(t.Bound, args[0])
				}
			} else {
				r = rebuild(t, args)
			}
		default:
			r = t
		}
	}
	memo[t] = r
	return r
}

func hasNL(t *Term, memo map[*Term]bool) bool {
	if v, ok := memo[t]; ok {
		return v
	}
	r := false
	switch {
	case t.Op == "*" && !t.Args[0].IsInt() && !t.Args[1].IsInt():
		r = true
	case (t.Op == "div" || t.Op == "mod") && !t.Args[1].IsInt():
		r = true
	default:
		for _, a := range t.Args {
			if hasNL(a, memo) {
				r = true
				break
			}
		}
	}
	memo[t] = r
	return r
}

// nlFacts returns ground facts about the uninterpreted abstractions of non-linear operations occurring in ts
// (sign, zero, monotonicity and Euclidean division bounds). They are consequences of the real operations,
// so adding them keeps the relaxed query weaker than the exact one.
func nlFacts(ts ...*Term) *Term {
	seen := map[*Term]bool{}
	var out []*Term
	var walk func(t *Term)
	walk = func(t *Term) {
		if seen[t] {
			return
		}
		seen[t] = true
		if t.Op == "uf" && len(t.Args) == 2 {
			a, b := t.Args[0], t.Args[1]
			switch t.Name {
			case "nl.mul":
				out = append(out,
					Implies(And(Ge(a, Zero), Ge(b, Zero)), Ge(t, Zero)),
					Implies(Or(Eq(a, Zero), Eq(b, Zero)), Eq(t, Zero)),
					Implies(And(Ge(a, Zero), Ge(b, One)), Ge(t, a)),
					Implies(And(Ge(b, Zero), Ge(a, One)), Ge(t, b)),
					Implies(Eq(a, One), Eq(t, b)),
					Implies(Eq(b, One), Eq(t, a)),
					// rates bounded by 1.0 (10^18): x * rate <= x * 10^18
					Implies(And(Ge(a, Zero), Le(b, ONE)), Le(t, Mul(a, ONE))),
					Implies(And(Ge(b, Zero), Le(a, ONE)), Le(t, Mul(b, ONE))))
			case "nl.div":
				out = append(out,
					Implies(And(Gt(b, Zero), Ge(a, Zero)), And(Ge(t, Zero), Le(t, a))),
					Implies(And(Gt(b, Zero), Lt(a, b), Ge(a, Zero)), Eq(t, Zero)))
			case "nl.mod":
				out = append(out, Implies(Gt(b, Zero), And(Ge(t, Zero), Lt(t, b))))
			}
		}
		for _, x := range t.Args {
			walk(x)
		}
	}
	for _, t := range ts {
		walk(t)
	}
	return And(out...)
}

// ---------- trigger-based instantiation of quantified hypotheses ----------
//
// A universally quantified hypothesis whose body reads arrays at its bound variables (select(select(X, a), d) ...)
// is instantiated at every index tuple at which an array of the same sort is read in the ground part of the query
// (one round of eager E-matching, repeated a few times because instances create new reads). Instances are consequences
// of the hypothesis, so adding them is sound; groundOnly then drops what remains quantified (weaker hypotheses:
// unsat is still a proof).

type selKey struct {
	s *Sort
	k int
}

func containsAny(t *Term, set map[*Term]bool, memo map[*Term]bool) bool {
	if len(set) == 0 {
		return false
	}
	if v, ok := memo[t]; ok {
		return v
	}
	r := set[t]
	if !r {
		for _, a := range t.Args {
			if containsAny(a, set, memo) {
				r = true
				break
			}
		}
	}
	memo[t] = r
	return r
}

// chainOf returns head and indices of a maximal select chain rooted at t (t.Op == "select").
func chainOf(t *Term) (*Term, []*Term) {
	var idx []*Term
	for t.Op == "select" {
		idx = append([]*Term{t.Args[1]}, idx...)
		t = t.Args[0]
	}
	return t, idx
}

func collectTuples(t *Term, out map[selKey][][]*Term, seen map[*Term]bool, dedupe map[selKey]map[string]bool) {
	if seen[t] {
		return
	}
	seen[t] = true
	if t.Op == "forall" || t.Op == "exists" {
		return
	}
	if t.Op == "select" {
		head, idx := chainOf(t)
		// all contiguous sub-chains
		s := head.S
		for p := 0; p < len(idx); p++ {
			ss := s
			for k := 1; p+k <= len(idx); k++ {
				key := selKey{s, k}
				tup := idx[p : p+k]
				sig := ""
				for _, x := range tup {
					sig += fmt.Sprintf("%d,", x.ID)
				}
				if dedupe[key] == nil {
					dedupe[key] = map[string]bool{}
				}
				if !dedupe[key][sig] {
					dedupe[key][sig] = true
					out[key] = append(out[key], tup)
				}
				ss = ss.Elem
				if ss == nil || ss.Kind != "Array" {
					break
				}
			}
			if s.Kind != "Array" {
				break
			}
			s = s.Elem
		}
	}
	for _, a := range t.Args {
		collectTuples(a, out, seen, dedupe)
	}
}

// patternsOf finds select chains in the body of a forall whose indices are exactly its bound variables (in some order).
func patternsOf(q *Term) (pats [][2]interface{}) {
	bset := map[*Term]bool{}
	for _, b := range q.Bound {
		bset[b] = true
	}
	memo := map[*Term]bool{}
	seen := map[*Term]bool{}
	var walk func(t *Term)
	walk = func(t *Term) {
		if seen[t] {
			return
		}
		seen[t] = true
		if t.Op == "select" {
			head, idx := chainOf(t)
			// look for a contiguous run of distinct bound variables covering all of them, with a bound-free prefix
			for p := 0; p+len(q.Bound) <= len(idx); p++ {
				run := idx[p : p+len(q.Bound)]
				ok := true
				used := map[*Term]bool{}
				for _, x := range run {
					if !bset[x] || used[x] {
						ok = false
						break
					}
					used[x] = true
				}
				if !ok {
					continue
				}
				pre := head
				for _, x := range idx[:p] {
					pre = Select(pre, x)
				}
				if containsAny(pre, bset, memo) {
					continue
				}
				pats = append(pats, [2]interface{}{pre.S, append([]*Term{}, run...)})
			}
		}
		for _, a := range t.Args {
			walk(a)
		}
	}
	walk(q.Args[0])
	return
}

type instState struct {
	done map[*Term]map[string]bool
	n    int
}

func (st *instState) instantiate(t *Term, asserted bool, tuples map[selKey][][]*Term) *Term {
	pos := !asserted
	switch t.Op {
	case "and", "or":
		args := make([]*Term, len(t.Args))
		ch := false
		for i, a := range t.Args {
			args[i] = st.instantiate(a, pos, tuples)
			if args[i] != a {
				ch = true
			}
		}
		if !ch {
			return t
		}
		if t.Op == "and" {
			return And(args...)
		}
		return Or(args...)
	case "not":
		a := st.instantiate(t.Args[0], !pos, tuples)
		if a == t.Args[0] {
			return t
		}
		return Not(a)
	case "forall":
		if pos || len(t.Bound) > 3 {
			return t
		}
		if st.done[t] == nil {
			st.done[t] = map[string]bool{}
		}
		out := []*Term{t}
		for _, p := range patternsOf(t) {
			s := p[0].(*Sort)
			run := p[1].([]*Term)
			for _, tup := range tuples[selKey{s, len(run)}] {
				if st.n > 400 {
					break
				}
				sig := ""
				m := map[*Term]*Term{}
				for i, b := range run {
					m[b] = tup[i]
				}
				for _, b := range t.Bound {
					sig += fmt.Sprintf("%d,", m[b].ID)
				}
				if st.done[t][sig] {
					continue
				}
				st.done[t][sig] = true
				st.n++
				out = append(out, Subst(t.Args[0], m))
			}
		}
		if len(out) == 1 {
			return t
		}
		return And(out...)
	}
	return t
}

// triggerInstantiate adds ground instances of the universally quantified subformulas that occur asserted
// (positive polarity) in the query formula f = hyp && !goal (three rounds).
func triggerInstantiate(f *Term) *Term {
	if !hasQuant(f) {
		return f
	}
	st := &instState{done: map[*Term]map[string]bool{}}
	for round := 0; round < 3; round++ {
		tuples := map[selKey][][]*Term{}
		collectTuples(f, tuples, map[*Term]bool{}, map[selKey]map[string]bool{})
		nf := st.instantiate(f, true, tuples)
		if nf == f {
			break
		}
		f = nf
	}
	return f
}

// dropQuantAsserted replaces every asserted universal quantifier of the query formula by true (weakening the
// query: unsat of the result is still a proof of the obligation).
func dropQuantAsserted(t *Term, asserted bool) *Term {
	switch t.Op {
	case "and", "or":
		args := make([]*Term, len(t.Args))
		for i, a := range t.Args {
			args[i] = dropQuantAsserted(a, asserted)
		}
		if t.Op == "and" {
			return And(args...)
		}
		return Or(args...)
	case "not":
		return Not(dropQuantAsserted(t.Args[0], !asserted))
	case "forall":
		if asserted {
			return True
		}
	case "exists":
		if !asserted {
			return False
		}
	}
	return t
}

// modaddrFacts: module accounts of distinct module names have distinct addresses (addresses are the first 20 bytes of
// SHA-256 of the name; no collision among the chain's module names). Ground facts for the modaddr terms of the query.
func modaddrFacts(f *Term) *Term {
	seen := map[*Term]bool{}
	var mods []*Term
	var walk func(t *Term)
	walk = func(t *Term) {
		if seen[t] {
			return
		}
		seen[t] = true
		if t.Op == "uf" && t.Name == "modaddr" && len(t.Args) == 1 && t.Args[0].IsInt() {
			mods = append(mods, t)
		}
		for _, a := range t.Args {
			walk(a)
		}
	}
	walk(f)
	var out []*Term
	for i := 0; i < len(mods); i++ {
		for j := i + 1; j < len(mods); j++ {
			if mods[i].Args[0].Val.Cmp(mods[j].Args[0].Val) != 0 {
				out = append(out, Not(Eq(mods[i], mods[j])))
			}
		}
	}
	return And(out...)
}
