package eng

// Quantifier support for obligations: universally quantified goals are skolemised, and universally quantified
// hypotheses are additionally instantiated at the skolem constants (and at the index terms that occur in the goal).
// Both steps preserve validity of  Hyp ==> Goal  in the direction we need: the transformed formula implies the original.

func skolemizePos(t *Term, pos bool, sks *[]*Term) *Term {
	switch t.Op {
	case "and", "or":
		args := make([]*Term, len(t.Args))
		ch := false
		for i, a := range t.Args {
			args[i] = skolemizePos(a, pos, sks)
			if args[i] != a {
				ch = true
			}
		}
		if !ch {
			return t
		}
		if t.Op == "and" {
			return And(args...)
		}
		return Or(args...)
	case "not":
		a := skolemizePos(t.Args[0], !pos, sks)
		if a == t.Args[0] {
			return t
		}
		return Not(a)
	case "forall":
		if pos {
			m := map[*Term]*Term{}
			for _, b := range t.Bound {
				sk := Fresh("sk."+b.Name, b.S)
				m[b] = sk
				*sks = append(*sks, sk)
			}
			return skolemizePos(Subst(t.Args[0], m), pos, sks)
		}
	case "exists":
		if !pos {
			m := map[*Term]*Term{}
			for _, b := range t.Bound {
				sk := Fresh("sk."+b.Name, b.S)
				m[b] = sk
				*sks = append(*sks, sk)
			}
			return skolemizePos(Subst(t.Args[0], m), pos, sks)
		}
	}
	return t
}

func instantiateNeg(t *Term, pos bool, cands []*Term, depth int) *Term {
	switch t.Op {
	case "and", "or":
		args := make([]*Term, len(t.Args))
		ch := false
		for i, a := range t.Args {
			args[i] = instantiateNeg(a, pos, cands, depth)
			if args[i] != a {
				ch = true
			}
		}
		if !ch {
			return t
		}
		if t.Op == "and" {
			return And(args...)
		}
		return Or(args...)
	case "not":
		a := instantiateNeg(t.Args[0], !pos, cands, depth)
		if a == t.Args[0] {
			return t
		}
		return Not(a)
	case "forall":
		if !pos && len(t.Bound) == 1 && t.Bound[0].S == SInt && depth < 2 {
			out := []*Term{t}
			for _, c := range cands {
				inst := Subst(t.Args[0], map[*Term]*Term{t.Bound[0]: c})
				out = append(out, instantiateNeg(inst, pos, cands, depth+1))
			}
			return And(out...)
		}
	}
	return t
}

// prepareQuantified returns hypothesis and goal strengthened with skolemisation and instances.
func prepareQuantified(hyp, goal *Term) (*Term, *Term) {
	if !hasQuant(hyp) && !hasQuant(goal) {
		return hyp, goal
	}
	var sks []*Term
	g := skolemizePos(goal, true, &sks)
	h := skolemizePos(hyp, false, &sks)
	if len(sks) == 0 {
		return h, g
	}
	var cands []*Term
	for _, s := range sks {
		if s.S == SInt {
			cands = append(cands, s)
		}
	}
	if len(cands) > 4 {
		cands = cands[:4]
	}
	h = instantiateNeg(h, false, cands, 0)
	g = instantiateNeg(g, true, cands, 0)
	return h, g
}

var quantMemo = map[*Term]bool{}

func hasQuant(t *Term) bool {
	if v, ok := quantMemo[t]; ok {
		return v
	}
	r := t.Op == "forall" || t.Op == "exists"
	if !r {
		for _, a := range t.Args {
			if hasQuant(a) {
				r = true
				break
			}
		}
	}
	quantMemo[t] = r
	return r
}

// relaxNL abstracts non-linear arithmetic (products of two non-constants, division/modulo by a non-constant) by
// uninterpreted functions. The relaxed formula is weaker, so relaxed-unsat implies unsat (sound for proofs);
// a relaxed model is only a candidate counterexample.
func relaxNL(t *Term, memo map[*Term]*Term) *Term {
	if r, ok := memo[t]; ok {
		return r
	}
	var r *Term
	if len(t.Args) == 0 {
		r = t
	} else {
		args := make([]*Term, len(t.Args))
		ch := false
		for i, a := range t.Args {
			args[i] = relaxNL(a, memo)
			if args[i] != a {
				ch = true
			}
		}
		switch {
		case t.Op == "*" && !args[0].IsInt() && !args[1].IsInt():
			a, b := args[0], args[1]
			if a.ID > b.ID {
				a, b = b, a
			}
			r = App("nl.mul", SInt, a, b)
		case (t.Op == "div" || t.Op == "mod") && !args[1].IsInt():
			r = App("nl."+t.Op, SInt, args[0], args[1])
		case ch:
			if t.Op == "forall" || t.Op == "exists" {
				if t.Op == "forall" {
					r = Forall(t.Bound, args[0])
				} else {
					r = Exists(t.Bound, args[0])
				}
			} else {
				r = rebuild(t, args)
			}
		default:
			r = t
		}
	}
	memo[t] = r
	return r
}

func hasNL(t *Term, memo map[*Term]bool) bool {
	if v, ok := memo[t]; ok {
		return v
	}
	r := false
	switch {
	case t.Op == "*" && !t.Args[0].IsInt() && !t.Args[1].IsInt():
		r = true
	case (t.Op == "div" || t.Op == "mod") && !t.Args[1].IsInt():
		r = true
	default:
		for _, a := range t.Args {
			if hasNL(a, memo) {
				r = true
				break
			}
		}
	}
	memo[t] = r
	return r
}

// nlFacts returns ground facts about the uninterpreted abstractions of non-linear operations occurring in ts
// (sign, zero, monotonicity and Euclidean division bounds). They are consequences of the real operations,
// so adding them keeps the relaxed query weaker than the exact one.
func nlFacts(ts ...*Term) *Term {
	seen := map[*Term]bool{}
	var out []*Term
	var walk func(t *Term)
	walk = func(t *Term) {
		if seen[t] {
			return
		}
		seen[t] = true
		if t.Op == "uf" && len(t.Args) == 2 {
			a, b := t.Args[0], t.Args[1]
			switch t.Name {
			case "nl.mul":
				out = append(out,
					Implies(And(Ge(a, Zero), Ge(b, Zero)), Ge(t, Zero)),
					Implies(Or(Eq(a, Zero), Eq(b, Zero)), Eq(t, Zero)),
					Implies(And(Ge(a, Zero), Ge(b, One)), Ge(t, a)),
					Implies(And(Ge(b, Zero), Ge(a, One)), Ge(t, b)),
					Implies(Eq(a, One), Eq(t, b)),
					Implies(Eq(b, One), Eq(t, a)),
					// rates bounded by 1.0 (10^18): x * rate <= x * 10^18
					Implies(And(Ge(a, Zero), Le(b, ONE)), Le(t, Mul(a, ONE))),
					Implies(And(Ge(b, Zero), Le(a, ONE)), Le(t, Mul(b, ONE))))
			case "nl.div":
				out = append(out,
					Implies(And(Gt(b, Zero), Ge(a, Zero)), And(Ge(t, Zero), Le(t, a))),
					Implies(And(Gt(b, Zero), Lt(a, b), Ge(a, Zero)), Eq(t, Zero)))
			case "nl.mod":
				out = append(out, Implies(Gt(b, Zero), And(Ge(t, Zero), Lt(t, b))))
			}
		}
		for _, x := range t.Args {
			walk(x)
		}
	}
	for _, t := range ts {
		walk(t)
	}
	return And(out...)
}
