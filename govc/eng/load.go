package eng

import (
	"go/constant"
	"fmt"
	"go/ast"
	"go/token"
	"go/types"
	"os"
	"path/filepath"
	"sort"
	"strings"

	"golang.org/x/tools/go/packages"
)

type PkgInfo struct {
	P    *packages.Package
	Path string
	Dir  string
}

type FuncInfo struct {
	Obj   *types.Func
	Decl  *ast.FuncDecl
	Pkg   *PkgInfo
	Name  string // pkg-relative display name: (Recv).Name or Name
	Contr *Contract
	Lit   *ast.FuncLit // non-nil: the n-th function literal of Outer, verified as a function of its parameters and captured variables
	Outer *FuncInfo
}

type Program struct {
	Fset     *token.FileSet
	Pkgs     map[string]*PkgInfo
	Funcs    map[*types.Func]*FuncInfo
	ByName   map[string]*FuncInfo // "pkgpath|Recv.Name"
	VarInit  map[*types.Var]ast.Expr
	VarPkg   map[*types.Var]*PkgInfo
	Keepers  []*types.Named // comdex keeper types
	RepoDir  string
	Module   string
	strTab   map[string]int64
	strList  []string
	implMemo map[string]*FuncInfo
	Contracts map[string]*Contract
	LoadWarnings []string
	KnownFams map[string]int
	errTab    map[string]int64
	reach     map[*FuncInfo]bool
	modNames  map[string]bool
	C20Derived map[string]string
	localInitMemo map[*types.Var][]ast.Expr
	visitingInit  map[ast.Expr]bool
}

func LoadProgram(repo string, patterns []string) (*Program, error) {
	cfg := &packages.Config{
		Mode:       packages.NeedName | packages.NeedFiles | packages.NeedSyntax | packages.NeedTypes | packages.NeedTypesInfo | packages.NeedImports | packages.NeedDeps,
		Dir:        repo,
		BuildFlags: []string{"-tags=verif"},
		Env:        append(os.Environ(), "GOFLAGS=-mod=mod", "GOPROXY=off", "GOSUMDB=off", "GOTOOLCHAIN=local"),
		Fset:       token.NewFileSet(),
	}
	// NeedDeps with NeedSyntax would parse all deps from source; restrict syntax to repo packages:
	cfg.Mode = packages.NeedName | packages.NeedFiles | packages.NeedSyntax | packages.NeedTypes | packages.NeedTypesInfo | packages.NeedImports
	pkgs, err := packages.Load(cfg, patterns...)
	if err != nil {
		return nil, err
	}
	pr := &Program{Fset: cfg.Fset, Pkgs: map[string]*PkgInfo{}, Funcs: map[*types.Func]*FuncInfo{}, ByName: map[string]*FuncInfo{},
		VarInit: map[*types.Var]ast.Expr{}, VarPkg: map[*types.Var]*PkgInfo{}, RepoDir: repo, strTab: map[string]int64{"": 0}, strList: []string{""},
		implMemo: map[string]*FuncInfo{}, Contracts: map[string]*Contract{}}
	for _, p := range pkgs {
		if len(p.Errors) > 0 {
			for _, e := range p.Errors {
				pr.LoadWarnings = append(pr.LoadWarnings, p.PkgPath+": "+e.Error())
			}
		}
		if p.Types == nil || p.TypesInfo == nil {
			continue
		}
		pi := &PkgInfo{P: p, Path: p.PkgPath}
		if len(p.GoFiles) > 0 {
			pi.Dir = filepath.Dir(p.GoFiles[0])
		}
		pr.Pkgs[p.PkgPath] = pi
		for _, f := range p.Syntax {
			for _, d := range f.Decls {
				switch d := d.(type) {
				case *ast.FuncDecl:
					obj, _ := p.TypesInfo.Defs[d.Name].(*types.Func)
					if obj == nil {
						continue
					}
					fi := &FuncInfo{Obj: obj, Decl: d, Pkg: pi, Name: funcDisplayName(obj)}
					pr.Funcs[obj] = fi
					pr.ByName[p.PkgPath+"|"+fi.Name] = fi
				case *ast.GenDecl:
					if d.Tok != token.VAR {
						continue
					}
					for _, sp := range d.Specs {
						vs := sp.(*ast.ValueSpec)
						for i, n := range vs.Names {
							if v, ok := p.TypesInfo.Defs[n].(*types.Var); ok {
								pr.VarPkg[v] = pi
								if i < len(vs.Values) && len(vs.Values) == len(vs.Names) {
									pr.VarInit[v] = vs.Values[i]
								}
							}
						}
					}
				}
			}
		}
		if strings.HasSuffix(p.PkgPath, "/keeper") {
			if o := p.Types.Scope().Lookup("Keeper"); o != nil {
				if n, ok := o.Type().(*types.Named); ok {
					pr.Keepers = append(pr.Keepers, n)
				}
			}
		}
	}
	sort.Slice(pr.Keepers, func(i, j int) bool { return pr.Keepers[i].Obj().Pkg().Path() < pr.Keepers[j].Obj().Pkg().Path() })
	if len(pr.Pkgs) == 0 {
		return nil, fmt.Errorf("no packages loaded")
	}
	return pr, nil
}

func funcDisplayName(f *types.Func) string {
	sig := f.Type().(*types.Signature)
	if r := sig.Recv(); r != nil {
		t := r.Type()
		ptr := ""
		if p, ok := t.(*types.Pointer); ok {
			t = p.Elem()
			ptr = "*"
		}
		if n, ok := t.(*types.Named); ok {
			return "(" + ptr + n.Obj().Name() + ")." + f.Name()
		}
	}
	return f.Name()
}

// Str interns a string literal and returns its integer code.
func (pr *Program) Str(s string) *Term {
	if c, ok := pr.strTab[s]; ok {
		return IntC(c)
	}
	c := int64(1000 + len(pr.strList))
	pr.strTab[s] = c
	pr.strList = append(pr.strList, s)
	return IntC(c)
}

func (pr *Program) StrOf(code int64) (string, bool) {
	for s, c := range pr.strTab {
		if c == code {
			return s, true
		}
	}
	return "", false
}

func (pr *Program) Pos(p token.Pos) string {
	ps := pr.Fset.Position(p)
	rel, err := filepath.Rel(pr.RepoDir, ps.Filename)
	if err != nil {
		rel = ps.Filename
	}
	return fmt.Sprintf("%s:%d", rel, ps.Line)
}

// FindFunc finds a function by package path suffix and display name.
func (pr *Program) FindFunc(pkgSuffix, name string) *FuncInfo {
	var found *FuncInfo
	for k, fi := range pr.ByName {
		i := strings.IndexByte(k, '|')
		if strings.HasSuffix(k[:i], pkgSuffix) && k[i+1:] == name {
			if found != nil && found != fi {
				if len(fi.Pkg.Path) < len(found.Pkg.Path) {
					found = fi
				}
				continue
			}
			found = fi
		}
	}
	return found
}

// ResolveIfaceMethod finds the comdex keeper method implementing an interface method.
func (pr *Program) ResolveIfaceMethod(iface types.Type, method string, hint string) *FuncInfo {
	key := iface.String() + "|" + method
	if fi, ok := pr.implMemo[key]; ok {
		return fi
	}
	it, ok := iface.Underlying().(*types.Interface)
	if !ok {
		return nil
	}
	var cands []*types.Named
	for _, k := range pr.Keepers {
		if types.Implements(k, it) || types.Implements(types.NewPointer(k), it) {
			cands = append(cands, k)
		}
	}
	var pick *types.Named
	if len(cands) == 1 {
		pick = cands[0]
	} else if len(cands) > 1 {
		// use the interface's name as a hint: e.g. expected.VaultKeeper -> x/vault/keeper
		iname := ""
		if n, ok := iface.(*types.Named); ok {
			iname = strings.ToLower(strings.TrimSuffix(n.Obj().Name(), "Keeper"))
		}
		for _, c := range cands {
			parts := strings.Split(c.Obj().Pkg().Path(), "/")
			mod := strings.ToLower(parts[len(parts)-2])
			if mod == iname || mod == strings.ToLower(hint) {
				pick = c
				break
			}
		}
		if pick == nil {
			for _, c := range cands {
				parts := strings.Split(c.Obj().Pkg().Path(), "/")
				mod := strings.ToLower(parts[len(parts)-2])
				if iname != "" && (strings.HasPrefix(mod, iname) || strings.HasPrefix(iname, mod)) {
					pick = c
					break
				}
			}
		}
	}
	var res *FuncInfo
	if pick != nil {
		obj, _, _ := types.LookupFieldOrMethod(pick, true, pick.Obj().Pkg(), method)
		if f, ok := obj.(*types.Func); ok {
			res = pr.Funcs[f]
		}
	}
	pr.implMemo[key] = res
	return res
}

// ErrConst interns a package-level error value as a distinct non-zero constant.
func (pr *Program) ErrConst(name string) *Term {
	if pr.errTab == nil {
		pr.errTab = map[string]int64{}
	}
	if c, ok := pr.errTab[name]; ok {
		return IntC(c)
	}
	c := int64(-1000 - len(pr.errTab))
	pr.errTab[name] = c
	return IntC(c)
}


// moduleNames: values of the package-level constants named ModuleName (plus the SDK module accounts the chain uses).
func (pr *Program) moduleNameList() []string {
	if pr.modNames == nil {
		pr.modNames = map[string]bool{"bank": true, "gov": true, "distribution": true, "fee_collector": true, "mint": true, "bonded_tokens_pool": true, "not_bonded_tokens_pool": true, "transfer": true, "wasm": true}
		for _, pi := range pr.Pkgs {
			if pi.P == nil || pi.P.Types == nil {
				continue
			}
			if c, ok := pi.P.Types.Scope().Lookup("ModuleName").(*types.Const); ok && c.Val().Kind() == constant.String {
				pr.modNames[constant.StringVal(c.Val())] = true
			}
		}
	}
	var out []string
	for n := range pr.modNames {
		out = append(out, n)
	}
	sort.Strings(out)
	return out
}

func (pr *Program) isModuleName(n string) bool {
	pr.moduleNameList()
	return pr.modNames[n]
}
