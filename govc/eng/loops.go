package eng

import (
	"fmt"
	"go/ast"
	"go/token"
	"go/types"
	"math/big"
)

func newBig(s string) (*big.Int, bool) { return new(big.Int).SetString(s, 10) }

// assignedIn computes the variables (declared outside n) that may be modified inside n,
// and the pointer variables whose pointee may be modified.
func (x *Exec) assignedIn(nodes ...ast.Node) (vars map[types.Object]bool, ptrs map[types.Object]bool) {
	vars, ptrs = map[types.Object]bool{}, map[types.Object]bool{}
	info := x.cur.info
	var rootIdent func(e ast.Expr) *ast.Ident
	rootIdent = func(e ast.Expr) *ast.Ident {
		switch e := e.(type) {
		case *ast.Ident:
			return e
		case *ast.SelectorExpr:
			return rootIdent(e.X)
		case *ast.IndexExpr:
			return rootIdent(e.X)
		case *ast.StarExpr:
			return rootIdent(e.X)
		case *ast.ParenExpr:
			return rootIdent(e.X)
		case *ast.SliceExpr:
			return rootIdent(e.X)
		}
		return nil
	}
	mark := func(e ast.Expr) {
		if id := rootIdent(e); id != nil {
			if o := info.ObjectOf(id); o != nil {
				vars[o] = true
				if _, ok := o.Type().Underlying().(*types.Pointer); ok {
					ptrs[o] = true
				}
			}
		}
	}
	for _, n := range nodes {
		if n == nil {
			continue
		}
		ast.Inspect(n, func(n ast.Node) bool {
			switch n := n.(type) {
			case *ast.AssignStmt:
				for _, l := range n.Lhs {
					mark(l)
				}
			case *ast.IncDecStmt:
				mark(n.X)
			case *ast.UnaryExpr:
				if n.Op == token.AND {
					mark(n.X)
				}
			case *ast.RangeStmt:
				if n.Tok == token.ASSIGN {
					if n.Key != nil {
						mark(n.Key)
					}
					if n.Value != nil {
						mark(n.Value)
					}
				}
			case *ast.CallExpr:
				// pointer-typed arguments and pointer-receiver method calls may modify the pointee
				for _, a := range n.Args {
					if id := rootIdent(a); id != nil {
						if o := info.ObjectOf(id); o != nil {
							if _, ok := o.Type().Underlying().(*types.Pointer); ok {
								ptrs[o] = true
							}
						}
					}
				}
				if se, ok := n.Fun.(*ast.SelectorExpr); ok {
					if sel := info.Selections[se]; sel != nil && sel.Kind() == types.MethodVal {
						if f, ok := sel.Obj().(*types.Func); ok {
							if r := f.Type().(*types.Signature).Recv(); r != nil {
								if _, isPtr := r.Type().(*types.Pointer); isPtr {
									mark(se.X)
								}
							}
						}
					}
				}
			}
			return true
		})
	}
	return
}

// havocFor havocs everything a loop body may modify.
func (x *Exec) havocFor(s *State, tag string, nodes ...ast.Node) {
	vars, ptrs := x.assignedIn(nodes...)
	for o := range vars {
		if cell, ok := x.cur.env.Lookup(o); ok {
			old := s.Heap[cell]
			if old != nil && (old.K == KCtx || old.K == KStoreH || old.K == KFunc) {
				continue
			}
			nv := x.freshValue(o.Type(), tag+"."+o.Name(), s)
			if old != nil && old.K == KPtr && nv.K == KPtr {
				// keep pointing to the same cell; havoc the pointee below
				nv = old
				ptrs[o] = true
			}
			s.Heap[cell] = nv
		}
	}
	for o := range ptrs {
		if cell, ok := x.cur.env.Lookup(o); ok {
			pv := s.Heap[cell]
			if pv != nil && pv.K == KPtr && pv.Cell != 0 {
				if old := s.Heap[pv.Cell]; old != nil && old.Typ != nil {
					s.Heap[pv.Cell] = x.freshValue(old.Typ, tag+".*"+o.Name(), s)
				}
			}
		}
	}
	ws := WriteSet{}
	for _, n := range nodes {
		if n != nil {
			x.collectWrites(n, x.cur.info, x.cur.pkg, ws, map[*FuncInfo]bool{})
		}
	}
	x.havocWorlds(s, ws, tag)
}

// havocWorlds replaces the written parts of every world in scope by fresh symbols.
func (x *Exec) havocWorlds(s *State, ws WriteSet, tag string) {
	if len(ws) == 0 {
		return
	}
	for id := range x.worldsInScope(s) {
		w := s.MutWorld(id)
		ntag := Fresh(tag+".w", SInt).Name
		if ws["bank"] || ws["*"] {
			w.Bal = Var(ntag+".bal", w.Bal.S)
			w.Supply = Var(ntag+".supply", w.Supply.S)
		}
		nrest := Var(ntag, SInt)
		nm := map[string]*Term{}
		for k, v := range w.RestMod {
			nm[k] = v
		}
		if ws["*"] {
			w.Rest = nrest
			nm = map[string]*Term{}
		} else {
			for mod := range ws {
				if mod != "bank" {
					nm[mod] = nrest
				}
			}
		}
		w.RestMod = nm
		if ws["*"] {
			w.ModVer = nil
		} else {
			for mod := range ws {
				delete(w.ModVer, mod)
			}
		}
		for fid := range w.Fams {
			if ws["*"] || ws[modOfFam(fid)] {
				delete(w.Fams, fid) // re-created lazily from the new remainder
			}
		}
	}
}

func (x *Exec) loopInvariants(ord int) []*Clause {
	if !x.cur.top || x.cur.fi == nil || x.cur.fi.Contr == nil {
		return nil
	}
	var out []*Clause
	for _, c := range x.cur.fi.Contr.Clauses {
		if c.Kind == "loopinv" && c.LoopOrd == ord {
			out = append(out, c)
		}
	}
	return out
}

func (x *Exec) checkInvs(s *State, invs []*Clause, ord int, phase string, pos token.Pos) {
	for _, inv := range invs {
		if inv.Assumed {
			// a state invariant of another module's data: assumed at the loop head, never counted as proved
			x.Trusted["state invariant #"+inv.Tag+" is assumed at the head of loop "+fmt.Sprint(ord)+" of "+x.fnTag+" (not checked)"]++
			continue
		}
		t := x.evalClause(s, inv, nil)
		name := fmt.Sprintf("%s/loop%d-%s#%s", x.fnTag, ord, phase, inv.Tag)
		x.Obls = append(x.Obls, &Obligation{Name: name, Prop: inv.propOr(x.propTag), Kind: "loop-" + phase, Hyp: s.PC, Goal: t, Pos: x.Pr.Pos(pos), Src: inv.Src, Inputs: x.entryInputs})
	}
}

func (x *Exec) assumeInvs(s *State, invs []*Clause) {
	for _, inv := range invs {
		s.Assume(x.evalClause(s, inv, nil))
	}
}

// loopOrdOf returns the source-order ordinal of a loop statement of the function under contract.
func (x *Exec) loopOrdOf(n ast.Node) int {
	if !x.cur.top {
		return -1
	}
	if o, ok := x.loopOrds[n]; ok {
		return o
	}
	return -1
}

func numberLoops(body ast.Node) map[ast.Node]int {
	m := map[ast.Node]int{}
	ast.Inspect(body, func(n ast.Node) bool {
		switch n.(type) {
		case *ast.ForStmt, *ast.RangeStmt:
			m[n] = len(m)
		}
		return true
	})
	return m
}

func (x *Exec) execFor(s *State, st *ast.ForStmt, label string) *State {
	saved := x.cur.env
	x.cur.env = NewEnv(saved)
	defer func() { x.cur.env = saved }()
	if st.Init != nil {
		s = x.execStmt(s, st.Init)
		if s == nil {
			return nil
		}
	}
	ord := x.loopOrdOf(st)
	invs := x.loopInvariants(ord)
	x.checkInvs(s, invs, ord, "init", st.Pos())
	h := s
	x.havocFor(h, fmt.Sprintf("loop%d", ord), st.Body, st.Post, st.Cond)
	x.assumeInvs(h, invs)
	var exitS *State
	body := h
	if st.Cond != nil {
		// evaluate the condition on a clone first to obtain the term, forking panics appropriately
		c := x.eval(h, st.Cond).T
		exitS = h.Clone()
		exitS.Assume(Not(c))
		body.Assume(c)
	}
	lc := &loopCtx{label: label}
	x.cur.loops = append(x.cur.loops, lc)
	var end *State
	if body.PC.Op != "false" {
		end = x.execBlock(body, st.Body.List)
	}
	x.cur.loops = x.cur.loops[:len(x.cur.loops)-1]
	back := x.mergeMany(append([]*State{end}, lc.continues...))
	if back != nil {
		if st.Post != nil {
			back = x.execStmt(back, st.Post)
		}
		if back != nil {
			x.checkInvs(back, invs, ord, "step", st.Pos())
		}
	}
	outs := append([]*State{exitS}, lc.breaks...)
	return x.mergeMany(outs)
}

func (x *Exec) execRange(s *State, st *ast.RangeStmt, label string) *State {
	saved := x.cur.env
	x.cur.env = NewEnv(saved)
	defer func() { x.cur.env = saved }()
	coll := x.eval(s, st.X)
	if coll.K == KPtr { // pointer to array
		coll = s.Heap[coll.Cell]
	}
	bindKV := func(s *State, k, v *Value) {
		bind := func(e ast.Expr, val *Value) {
			if e == nil || val == nil {
				return
			}
			id, ok := e.(*ast.Ident)
			if ok && id.Name == "_" {
				return
			}
			if st.Tok == token.DEFINE && ok {
				if o := x.cur.info.Defs[id]; o != nil {
					x.declare(s, o, x.convertTo(s, val, o.Type()))
					return
				}
			}
			x.assignTo(s, e, val)
		}
		bind(st.Key, k)
		bind(st.Value, v)
	}
	intT := types.Typ[types.Int]
	switch coll.K {
	case KSlice:
		if coll.Conc != nil && len(coll.Conc) <= 8 {
			// literal-sized slice: unroll
			lcOuter := &loopCtx{label: label}
			var brk []*State
			cur := s
			for i, e := range coll.Conc {
				if cur == nil {
					break
				}
				lc := &loopCtx{label: label}
				x.cur.loops = append(x.cur.loops, lc)
				x.cur.env = NewEnv(x.cur.env)
				bindKV(cur, prim(IntC(int64(i)), intT), x.liven(cur, e))
				end := x.execBlock(cur, st.Body.List)
				x.cur.env = x.cur.env.parent
				x.cur.loops = x.cur.loops[:len(x.cur.loops)-1]
				brk = append(brk, lc.breaks...)
				cur = x.mergeMany(append([]*State{end}, lc.continues...))
			}
			_ = lcOuter
			return x.mergeMany(append([]*State{cur}, brk...))
		}
		ord := x.loopOrdOf(st)
		invs := x.loopInvariants(ord)
		// hidden index variable; exposed under the key name if present
		idxCell := s.Alloc(prim(Zero, intT))
		var keyObj types.Object
		if id, ok := st.Key.(*ast.Ident); ok && id.Name != "_" && st.Tok == token.DEFINE {
			keyObj = x.cur.info.Defs[id]
			if keyObj != nil {
				x.cur.env.Bind(keyObj, idxCell)
			}
		}
		if ord >= 0 {
			// the hidden position of a range loop is visible to contracts as idx<ord>
			x.cur.env.Bind(types.NewVar(st.Pos(), nil, fmt.Sprintf("idx%d", ord), intT), idxCell)
		}
		x.checkInvs(s, invs, ord, "init", st.Pos())
		h := s
		x.havocFor(h, fmt.Sprintf("loop%d", ord), st.Body)
		idx := Fresh(fmt.Sprintf("loop%d.idx", ord), SInt)
		h.Heap[idxCell] = prim(idx, intT)
		h.Assume(And(Le(Zero, idx), Le(idx, coll.Len)))
		x.assumeInvs(h, invs)
		exitS := h.Clone()
		exitS.Assume(Ge(idx, coll.Len))
		body := h
		body.Assume(Lt(idx, coll.Len))
		lc := &loopCtx{label: label}
		x.cur.loops = append(x.cur.loops, lc)
		var end *State
		if body.PC.Op != "false" {
			x.cur.env = NewEnv(x.cur.env)
			elem := x.liven(body, selectV(sliceElem(coll), idx))
			x.assumeElemFacts(body, elem)
			var kv *Value
			if keyObj == nil {
				kv = prim(idx, intT)
			}
			bindKV(body, kv, elem)
			end = x.execBlock(body, st.Body.List)
			x.cur.env = x.cur.env.parent
		}
		x.cur.loops = x.cur.loops[:len(x.cur.loops)-1]
		back := x.mergeMany(append([]*State{end}, lc.continues...))
		if back != nil {
			// the range index is not affected by assignments to the key variable in Go; we model idx+1
			back.Heap[idxCell] = prim(Add(idx, One), intT)
			x.checkInvs(back, invs, ord, "step", st.Pos())
		}
		return x.mergeMany(append([]*State{exitS}, lc.breaks...))
	case KMap:
		ord := x.loopOrdOf(st)
		invs := x.loopInvariants(ord)
		x.checkInvs(s, invs, ord, "init", st.Pos())
		h := s
		x.havocFor(h, fmt.Sprintf("loop%d", ord), st.Body)
		x.assumeInvs(h, invs)
		exitS := h.Clone()
		body := h
		k := Fresh(fmt.Sprintf("loop%d.key", ord), SInt)
		body.Assume(Select(coll.Has, k))
		lc := &loopCtx{label: label}
		x.cur.loops = append(x.cur.loops, lc)
		x.cur.env = NewEnv(x.cur.env)
		mt := coll.Typ.Underlying().(*types.Map)
		bindKV(body, prim(k, mt.Key()), x.liven(body, selectV(coll.Elem, k)))
		end := x.execBlock(body, st.Body.List)
		x.cur.env = x.cur.env.parent
		x.cur.loops = x.cur.loops[:len(x.cur.loops)-1]
		back := x.mergeMany(append([]*State{end}, lc.continues...))
		if back != nil {
			x.checkInvs(back, invs, ord, "step", st.Pos())
		}
		return x.mergeMany(append([]*State{exitS}, lc.breaks...))
	}
	x.fail(st.Pos(), "range over %s unsupported", coll.K)
	return nil
}

// assumeElemFacts adds typing facts for a value just read from a lifted position.
func (x *Exec) assumeElemFacts(s *State, v *Value) {
	if v == nil {
		return
	}
	switch v.K {
	case KPrim:
		if v.Typ != nil && v.T.S == SInt {
			s.Assume(rangeFact(v.Typ, v.T))
		}
	case KStruct, KTuple:
		for _, f := range v.Fields {
			x.assumeElemFacts(s, f)
		}
	case KSlice:
		if v.Len.S == SInt {
			s.Assume(Ge(v.Len, Zero))
			x.sliceTypeAxioms(v)
		}
	case KPtr:
		if v.Cell != 0 {
			x.assumeElemFacts(s, s.Heap[v.Cell])
		}
	case KOpt:
		x.assumeElemFacts(s, v.Inl)
	}
}

// worldsInScope returns the worlds reachable through context values of the current call chain's variables
// (a cache context created by a caller is not affected by code that only holds the inner context, and vice versa).
func (x *Exec) worldsInScope(s *State) map[int]bool {
	out := map[int]bool{}
	for c := x.cur; c != nil; c = c.parent {
		for e := c.env; e != nil; e = e.parent {
			for _, cell := range e.vars {
				if v := s.Heap[cell]; v != nil && v.K == KCtx {
					if _, ok := s.Worlds[v.W]; ok {
						out[v.W] = true
					}
				}
			}
		}
		break // only the innermost frame: callers' contexts are not reachable from the callee
	}
	if len(out) == 0 {
		for id := range s.Worlds {
			out[id] = true
		}
	}
	return out
}
