package eng

import (
	"regexp"
	"strings"
)

var defRe = regexp.MustCompile(`\(define-fun\s+(\S+)\s+\(\)\s+(Int|Bool)\s+([^\n]*)`)

// ModelValues extracts the values of scalar inputs from a solver model.
func ModelValues(output string, inputs []NamedTerm, pr *Program) [][2]string {
	vals := map[string]string{}
	// join lines so that multi-line define-funs are matched
	flat := strings.ReplaceAll(output, "\n", " ")
	flat = regexp.MustCompile(`\s+`).ReplaceAllString(flat, " ")
	for _, m := range regexp.MustCompile(`\(define-fun (\S+) \(\) (Int|Bool) (\(- \d+\)|-?\d+|true|false)\)`).FindAllStringSubmatch(flat, -1) {
		v := m[3]
		if strings.HasPrefix(v, "(- ") {
			v = "-" + strings.TrimSuffix(v[3:], ")")
		}
		vals[m[1]] = v
	}
	var out [][2]string
	for _, in := range inputs {
		if in.T.Op == "var" {
			if v, ok := vals[in.T.Name]; ok {
				out = append(out, [2]string{in.Name, v})
			}
		}
	}
	return out
}

