package eng

import (
	"fmt"
	"os"
	"go/ast"
	"go/types"
	"sort"
	"strings"
)

// Pure abstraction: a function whose contract says `pure` is deterministic and reads only its arguments and a
// fixed footprint of store leaves. At call sites (in code and in contracts) its results are applications of
// uninterpreted functions to the argument leaves and the current values of the footprint; its ensures clauses are
// assumed on top. The footprint is computed by a dry run of the body; a body that writes state is rejected.

type fpLeaf struct {
	Fam   string
	NKeys int
	Path  string // "" = has-array
	Sort  *Sort
}

type footprint struct {
	Leaves []fpLeaf
	Bank   bool
	Err    string
	Time   bool
	// IterMods: "module\x00prefix" of the store iterators the body creates; the result then depends on verOf(module, prefix)
	IterMods []string
}

var fpMemo = map[*FuncInfo]*footprint{}
var fpBusy = map[*FuncInfo]bool{}

func (x *Exec) footprintOf(fi *FuncInfo) *footprint {
	if fp, ok := fpMemo[fi]; ok {
		return fp
	}
	if fpBusy[fi] {
		return &footprint{Err: "recursive pure function"}
	}
	fpBusy[fi] = true
	defer delete(fpBusy, fi)
	fp := &footprint{}
	fpMemo[fi] = fp
	dx := NewExec(x.Pr)
	dx.fnTag = "footprint"
	dx.dryRun = fi
	func() {
		defer func() {
			if r := recover(); r != nil {
				if ep, ok := r.(execPanic); ok {
					fp.Err = ep.msg
					return
				}
				panic(r)
			}
		}()
		s := NewState()
		w := NewWorld("fp")
		wid := s.NewWorldID(w)
		dx.specWorldID = wid
		cc := &callCtx{fi: fi, info: fi.Pkg.P.TypesInfo, pkg: fi.Pkg, env: NewEnv(nil)}
		dx.cur = cc
		sig := fi.Obj.Type().(*types.Signature)
		var args []*Value
		for i := 0; i < sig.Params().Len(); i++ {
			p := sig.Params().At(i)
			if isCtxType(p.Type()) {
				args = append(args, &Value{K: KCtx, Typ: p.Type(), W: wid})
			} else {
				args = append(args, dx.freshValue(p.Type(), "fp.arg", s))
			}
		}
		var recv *Value
		if r := sig.Recv(); r != nil {
			recv = &Value{K: KOpaque, Typ: r.Type()}
		}
		dx.specMode++ // no obligations, no panic exits
		dx.inlineBody(s, fi, fi.Decl.Type, fi.Decl.Body, fi.Decl.Recv, fi.Pkg, fi.Pkg.P.TypesInfo, nil, recv, args, fi.Decl.Pos(), nil)
		dx.specMode--
		fw := s.Worlds[wid]
		if fw.Bal != w.Bal || fw.Supply != w.Supply {
			fp.Err = "function writes the bank ledger"
			return
		}
		fp.Bank = dx.readBank
		var ids []string
		for id := range fw.Fams {
			ids = append(ids, id)
		}
		sort.Strings(ids)
		for _, id := range ids {
			f := fw.Fams[id]
			if f.Has.Op != "var" {
				fp.Err = "function writes store family " + id
				return
			}
			fp.Leaves = append(fp.Leaves, fpLeaf{Fam: id, NKeys: f.NKeys, Path: "", Sort: f.Has.S})
			var ps []string
			for p := range f.Leaves {
				ps = append(ps, p)
			}
			sort.Strings(ps)
			for _, p := range ps {
				l := f.Leaves[p]
				if l.Op != "var" {
					fp.Err = "function writes store family " + id
					return
				}
				fp.Leaves = append(fp.Leaves, fpLeaf{Fam: id, NKeys: f.NKeys, Path: p, Sort: l.S})
			}
		}
		fp.Time = true
		for m := range dx.iterMods {
			fp.IterMods = append(fp.IterMods, m)
		}
		sort.Strings(fp.IterMods)
	}()
	if os.Getenv("GOVC_DEBUG_FP") != "" {
		fmt.Fprintf(os.Stderr, "footprint %s: err=%q leaves=%d bank=%v iter=%v\n", fi.Name, fp.Err, len(fp.Leaves), fp.Bank, fp.IterMods)
		for _, l := range fp.Leaves {
			fmt.Fprintf(os.Stderr, "   %s %q\n", l.Fam, l.Path)
		}
	}
	return fp
}

// applyPure abstracts a call of a pure function.
func (x *Exec) applyPure(s *State, fi *FuncInfo, recv *Value, args []*Value, call *ast.CallExpr) []*Value {
	fp := x.footprintOf(fi)
	if fp.Err != "" {
		x.fail(call.Pos(), "function %s is declared pure but: %s", fi.Name, fp.Err)
	}
	sig := fi.Obj.Type().(*types.Signature)
	var uargs []*Term
	wid := x.specWorldID
	for _, a := range args {
		if a == nil {
			continue
		}
		if a.K == KCtx {
			wid = a.W
			continue
		}
		walkLeaves(inlineForStore(x.deaden(s, a)), "", func(p string, t *Term) { uargs = append(uargs, t) })
	}
	w, ok := s.Worlds[wid]
	if !ok {
		x.fail(call.Pos(), "pure call without a world")
	}
	for _, l := range fp.Leaves {
		f := w.fam(l.Fam, l.NKeys)
		if l.Path == "" {
			uargs = append(uargs, f.Has)
		} else {
			uargs = append(uargs, f.leaf(l.Path, unwrapSort(l.Sort, l.NKeys)))
		}
	}
	if fp.Bank {
		uargs = append(uargs, w.Bal, w.Supply)
	}
	for _, m := range fp.IterMods {
		if i := strings.IndexByte(m, 0); i >= 0 {
			uargs = append(uargs, w.verOf(m[:i], m[i+1:]))
		}
	}
	uargs = append(uargs, w.Height, w.Time)
	base := "pure." + sanitize(strings.ReplaceAll(x.Pr.fnTagOf(fi), "/", "."))
	var res []*Value
	for i := 0; i < sig.Results().Len(); i++ {
		rt := sig.Results().At(i).Type()
		idx := i
		v := buildValue(rt, "", nil, func(path string, srt *Sort, lt types.Type) *Term {
			t := App(fmt.Sprintf("%s.r%d%s", base, idx, sanitize(path)), srt, uargs...)
			return t
		}, 0)
		v = x.liven(s, v)
		x.assumeElemFacts(s, v)
		res = append(res, v)
	}
	x.Modular[x.Pr.fnTagOf(fi)+" (pure abstraction)"]++
	// assume the callee's ensures clauses
	x.assumeEnsures(s, fi, recv, args, res, call)
	return res
}

// assumeEnsures assumes the ensures clauses of fi's contract for the given results in state s.
func (x *Exec) assumeEnsures(s *State, fi *FuncInfo, recv *Value, args []*Value, res []*Value, call *ast.CallExpr) {
	c := fi.Contr
	cc := &callCtx{fi: fi, info: fi.Pkg.P.TypesInfo, pkg: fi.Pkg, env: NewEnv(nil), depth: x.cur.depth + 1, parent: x.cur}
	saved, savedSpec, savedWorld := x.cur, x.defaultSpec, x.specWorldID
	x.cur = cc
	defer func() { x.cur = saved; x.defaultSpec = savedSpec; x.specWorldID = savedWorld }()
	x.bindParams(s, cc, fi.Decl.Type, fi.Decl.Recv, recv, args, call.Pos())
	for _, a := range args {
		if a != nil && a.K == KCtx {
			x.specWorldID = a.W
			break
		}
	}
	sc := &specCtx{fi: fi, bound: map[string]*Value{}, results: res}
	for _, t := range cc.resTypes {
		sc.resType = append(sc.resType, t)
		sc.resName = append(sc.resName, "")
	}
	if fi.Decl.Type.Results != nil {
		k := 0
		for _, fl := range fi.Decl.Type.Results.List {
			if len(fl.Names) == 0 {
				k++
				continue
			}
			for _, n := range fl.Names {
				sc.resName[k] = n.Name
				k++
			}
		}
	}
	x.defaultSpec = sc
	sc.entry = s.Clone()
	x.pureDepth++
	defer func() { x.pureDepth-- }()
	for _, l := range c.Lets {
		sc.bound[l.Tag] = x.evalSpec(s, l.Expr, sc)
	}
	// the postconditions are known only where the callee's preconditions hold (they are not re-checked at pure call sites)
	pre := True
	for _, cl := range c.Clauses {
		if cl.Kind == "requires" {
			pre = And(pre, x.evalClause(s, cl, sc))
		}
	}
	for _, cl := range c.Clauses {
		if cl.Kind == "ensures" && !cl.Internal {
			s.Assume(Implies(pre, x.evalClause(s, cl, sc)))
		}
	}
}
