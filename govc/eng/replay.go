package eng

import (
	"encoding/json"
	"fmt"
	"go/types"
	"os"
	"os/exec"
	"path/filepath"
	"regexp"
	"strings"
	"time"
)

// ---------- CExpr -> Go (math/big) ----------

type goGen struct {
	vars map[string]string // contract identifier -> Go expression of type *big.Int or bool
	ok   bool
	why  string
}

func (g *goGen) fail(msg string) string {
	g.ok = false
	if g.why == "" {
		g.why = msg
	}
	return "nil"
}

// intExpr renders e as a Go expression of type *big.Int.
func (g *goGen) intExpr(e *CExpr) string {
	switch e.Op {
	case "int":
		return fmt.Sprintf("bi(%q)", e.Val.String())
	case "ident":
		if e.Name == "ONE" {
			return `bi("1000000000000000000")`
		}
		if v, ok := g.vars[e.Name]; ok {
			return v
		}
		return g.fail("identifier " + e.Name + " has no replay binding")
	case "neg":
		return "new(big.Int).Neg(" + g.intExpr(e.Args[0]) + ")"
	case "bin":
		a, b := g.intExpr(e.Args[0]), g.intExpr(e.Args[1])
		switch e.Name {
		case "+":
			return "new(big.Int).Add(" + a + ", " + b + ")"
		case "-":
			return "new(big.Int).Sub(" + a + ", " + b + ")"
		case "*":
			return "new(big.Int).Mul(" + a + ", " + b + ")"
		case "/":
			return "tquo(" + a + ", " + b + ")"
		case "%":
			return "trem(" + a + ", " + b + ")"
		}
	case "call":
		if e.Args[0].Op == "ident" {
			args := e.Args[1:]
			switch e.Args[0].Name {
			case "pow10":
				return "pow(10, " + g.intExpr(args[0]) + ")"
			case "pow2":
				return "pow(2, " + g.intExpr(args[0]) + ")"
			case "min":
				return "bmin(" + g.intExpr(args[0]) + ", " + g.intExpr(args[1]) + ")"
			case "max":
				return "bmax(" + g.intExpr(args[0]) + ", " + g.intExpr(args[1]) + ")"
			case "abs":
				return "new(big.Int).Abs(" + g.intExpr(args[0]) + ")"
			case "int", "int64", "uint64", "uint", "Int":
				return g.intExpr(args[0])
			case "div":
				return "ediv(" + g.intExpr(args[0]) + ", " + g.intExpr(args[1]) + ")"
			case "mod":
				return "emod(" + g.intExpr(args[0]) + ", " + g.intExpr(args[1]) + ")"
			case "ite":
				return "bite(" + g.boolExpr(args[0]) + ", " + g.intExpr(args[1]) + ", " + g.intExpr(args[2]) + ")"
			case "len":
				if args[0].Op == "ident" {
					if v, ok := g.vars["len("+args[0].Name+")"]; ok {
						return v
					}
				}
			}
		}
	case "sel", "index":
		if k := cexprKey(e); k != "" {
			if v, ok := g.vars[k]; ok {
				return v
			}
		}
	}
	return g.fail("expression form " + e.Op + " is not supported by the generic replay")
}

func cexprKey(e *CExpr) string {
	switch e.Op {
	case "ident":
		return e.Name
	case "sel":
		b := cexprKey(e.Args[0])
		if b == "" {
			return ""
		}
		return b + "." + e.Name
	}
	return ""
}

func (g *goGen) boolExpr(e *CExpr) string {
	switch e.Op {
	case "ident":
		if e.Name == "true" || e.Name == "false" {
			return e.Name
		}
		if v, ok := g.vars[e.Name]; ok {
			return v
		}
		return g.fail("identifier " + e.Name + " has no replay binding")
	case "not":
		return "!(" + g.boolExpr(e.Args[0]) + ")"
	case "bin":
		switch e.Name {
		case "&&":
			return "(" + g.boolExpr(e.Args[0]) + " && " + g.boolExpr(e.Args[1]) + ")"
		case "||":
			return "(" + g.boolExpr(e.Args[0]) + " || " + g.boolExpr(e.Args[1]) + ")"
		case "==>":
			return "(!(" + g.boolExpr(e.Args[0]) + ") || " + g.boolExpr(e.Args[1]) + ")"
		case "<==>":
			return "(" + g.boolExpr(e.Args[0]) + " == " + g.boolExpr(e.Args[1]) + ")"
		case "==", "!=", "<", "<=", ">", ">=":
			// Boolean equality?
			if isBoolCExpr(e.Args[0], g) {
				op := e.Name
				return "(" + g.boolExpr(e.Args[0]) + " " + op + " " + g.boolExpr(e.Args[1]) + ")"
			}
			return "(" + g.intExpr(e.Args[0]) + ".Cmp(" + g.intExpr(e.Args[1]) + ") " + e.Name + " 0)"
		}
	case "sel":
		if k := cexprKey(e); k != "" {
			if v, ok := g.vars[k]; ok {
				return v
			}
		}
	}
	return g.fail("Boolean expression form " + e.Op + " is not supported by the generic replay")
}

func isBoolCExpr(e *CExpr, g *goGen) bool {
	switch e.Op {
	case "not":
		return true
	case "ident":
		if e.Name == "true" || e.Name == "false" {
			return true
		}
		if v, ok := g.vars[e.Name]; ok {
			return strings.HasPrefix(v, "b_")
		}
	case "bin":
		switch e.Name {
		case "&&", "||", "==>", "<==>", "==", "!=", "<", "<=", ">", ">=":
			return true
		}
	case "sel":
		if k := cexprKey(e); k != "" {
			if v, ok := g.vars[k]; ok {
				return strings.HasPrefix(v, "b_")
			}
		}
	}
	return false
}

const replayPrelude = `
func bi(s string) *big.Int { v, _ := new(big.Int).SetString(s, 10); return v }
func pow(b int64, e *big.Int) *big.Int { return new(big.Int).Exp(big.NewInt(b), e, nil) }
func tquo(a, b *big.Int) *big.Int { if b.Sign() == 0 { return big.NewInt(0) }; return new(big.Int).Quo(a, b) }
func trem(a, b *big.Int) *big.Int { if b.Sign() == 0 { return new(big.Int).Set(a) }; return new(big.Int).Rem(a, b) }
func ediv(a, b *big.Int) *big.Int { if b.Sign() == 0 { return big.NewInt(0) }; q, m := new(big.Int), new(big.Int); q.DivMod(a, b, m); return q }
func emod(a, b *big.Int) *big.Int { if b.Sign() == 0 { return new(big.Int).Set(a) }; q, m := new(big.Int), new(big.Int); q.DivMod(a, b, m); return m }
func bmin(a, b *big.Int) *big.Int { if a.Cmp(b) <= 0 { return a }; return b }
func bmax(a, b *big.Int) *big.Int { if a.Cmp(b) >= 0 { return a }; return b }
func bite(c bool, a, b *big.Int) *big.Int { if c { return a }; return b }
`

// goValueOf renders the model value of a parameter of type t as Go source; also returns bindings for the clause.
func goParam(name string, t types.Type, vals map[string]string, qual func(*types.Package) string, binds map[string]string, decl *[]string) (string, bool) {
	get := func(k string) string {
		if v, ok := vals[k]; ok {
			return v
		}
		return "0"
	}
	if k, ok := primNamed(t); ok {
		v := get("in." + name)
		switch k {
		case "sdkint", "sdkuint":
			*decl = append(*decl, fmt.Sprintf("v_%s := bi(%q)", name, v))
			binds[name] = "v_" + name
			if k == "sdkuint" {
				return fmt.Sprintf("sdkmath.NewUintFromBigInt(v_%s)", name), true
			}
			return fmt.Sprintf("sdkmath.NewIntFromBigInt(v_%s)", name), true
		case "dec":
			*decl = append(*decl, fmt.Sprintf("v_%s := bi(%q)", name, v))
			binds[name] = "v_" + name
			return fmt.Sprintf("sdkmath.LegacyNewDecFromBigIntWithPrec(v_%s, 18)", name), true
		}
		return "", false
	}
	switch u := t.Underlying().(type) {
	case *types.Basic:
		v := get("in." + name)
		switch {
		case u.Info()&types.IsInteger != 0:
			*decl = append(*decl, fmt.Sprintf("v_%s := bi(%q)", name, v))
			binds[name] = "v_" + name
			conv := types.TypeString(t, qual)
			if u.Info()&types.IsUnsigned != 0 {
				return fmt.Sprintf("%s(v_%s.Uint64())", conv, name), true
			}
			return fmt.Sprintf("%s(v_%s.Int64())", conv, name), true
		case u.Info()&types.IsBoolean != 0:
			*decl = append(*decl, fmt.Sprintf("b_%s := %s", name, v))
			binds[name] = "b_" + name
			return "b_" + name, true
		}
	}
	return "", false
}

// tryReplay generates and runs a Go test for counterexamples of pure functions (level L1).
func tryReplay(cfg RunConfig, pr *Program, o *Obligation, vals [][2]string, sb *strings.Builder) (string, bool) {
	// find the function
	tag := o.Name
	if i := strings.Index(tag, "/"); i >= 0 {
		// obligation name is <pkgrel>.<Func>/<kind>...; pkgrel may contain slashes, so cut at the last "/<kind>"
	}
	var fi *FuncInfo
	for _, f := range pr.Funcs {
		if f.Contr != nil && strings.HasPrefix(o.Name, pr.fnTagOf(f)+"/") {
			fi = f
			break
		}
	}
	if fi == nil {
		return "", false
	}
	sig := fi.Obj.Type().(*types.Signature)
	if sig.Recv() != nil {
		sb.WriteString("replay: no generic replay for methods (the function reads chain state); see the counterexample above\n")
		return "", false
	}
	for i := 0; i < sig.Params().Len(); i++ {
		if isCtxType(sig.Params().At(i).Type()) {
			sb.WriteString("replay: no generic replay for functions taking a context\n")
			return "", false
		}
	}
	vm := map[string]string{}
	for _, kv := range vals {
		vm[kv[0]] = kv[1]
	}
	pkgName := fi.Pkg.P.Types.Name()
	qual := func(p *types.Package) string {
		if p == fi.Pkg.P.Types {
			return ""
		}
		return p.Name()
	}
	binds := map[string]string{}
	var decl []string
	var args []string
	for i := 0; i < sig.Params().Len(); i++ {
		p := sig.Params().At(i)
		a, ok := goParam(p.Name(), p.Type(), vm, qual, binds, &decl)
		if !ok {
			sb.WriteString("replay: parameter " + p.Name() + " has a type the generic replay cannot construct\n")
			return "", false
		}
		args = append(args, a)
	}
	// results
	var resNames []string
	var post []string
	for i := 0; i < sig.Results().Len(); i++ {
		r := sig.Results().At(i)
		rn := fmt.Sprintf("r%d", i)
		resNames = append(resNames, rn)
		names := []string{fmt.Sprintf("result%d", i)}
		if i == 0 {
			names = append(names, "result")
		}
		if r.Name() != "" {
			names = append(names, r.Name())
		}
		conv := ""
		if k, ok := primNamed(r.Type()); ok {
			switch k {
			case "sdkint", "sdkuint", "dec":
				conv = rn + ".BigInt()"
			}
		} else if b, ok := r.Type().Underlying().(*types.Basic); ok {
			switch {
			case b.Info()&types.IsUnsigned != 0:
				conv = "new(big.Int).SetUint64(uint64(" + rn + "))"
			case b.Info()&types.IsInteger != 0:
				conv = "big.NewInt(int64(" + rn + "))"
			case b.Info()&types.IsBoolean != 0:
				post = append(post, fmt.Sprintf("b_res%d := %s", i, rn))
				for _, n := range names {
					binds[n] = fmt.Sprintf("b_res%d", i)
				}
				continue
			}
		}
		if conv == "" {
			continue // results of other types cannot be named by the clause
		}
		post = append(post, fmt.Sprintf("q_res%d := %s", i, conv))
		for _, n := range names {
			binds[n] = fmt.Sprintf("q_res%d", i)
		}
	}
	// the violated clause
	var clause *Clause
	for _, cl := range fi.Contr.Clauses {
		if strings.HasSuffix(o.Name, "#"+cl.Tag) && (cl.Kind == "ensures") {
			clause = cl
		}
	}
	g := &goGen{vars: binds, ok: true}
	check := "true"
	if o.Kind == "ensures" && clause != nil {
		check = g.boolExpr(clause.Expr)
		if !g.ok {
			sb.WriteString("replay: " + g.why + "\n")
			return "", false
		}
	} else if o.Kind != "nopanic" {
		sb.WriteString("replay: obligations of kind " + o.Kind + " are replayed only for ensures/nopanic clauses of pure functions\n")
		return "", false
	}
	needMath := strings.Contains(strings.Join(args, " "), "sdkmath.")
	var src strings.Builder
	fmt.Fprintf(&src, "package %s\n\nimport (\n\t\"fmt\"\n\t\"math/big\"\n\t\"testing\"\n", pkgName)
	if needMath {
		src.WriteString("\tsdkmath \"cosmossdk.io/math\"\n")
	}
	src.WriteString(")\n")
	src.WriteString(replayPrelude)
	src.WriteString("\nvar _ = fmt.Sprint\nvar _ = big.NewInt\n\n")
	fmt.Fprintf(&src, "// counterexample of obligation %s\nfunc TestVerifReplay(t *testing.T) {\n", o.Name)
	for _, d := range decl {
		src.WriteString("\t" + d + "\n\t_ = " + strings.Fields(d)[0] + "\n")
	}
	src.WriteString("\tdefer func() {\n\t\tif r := recover(); r != nil {\n\t\t\tfmt.Printf(\"REPLAY-RESULT: panic: %v\\n\", r)\n\t\t\tt.Fatalf(\"panic: %v\", r)\n\t\t}\n\t}()\n")
	lhs := ""
	if len(resNames) > 0 {
		lhs = strings.Join(resNames, ", ") + " := "
	}
	fmt.Fprintf(&src, "\t%s%s(%s)\n", lhs, fi.Obj.Name(), strings.Join(args, ", "))
	for _, rn := range resNames {
		fmt.Fprintf(&src, "\t_ = %s\n", rn)
	}
	for _, p := range post {
		src.WriteString("\t" + p + "\n\t_ = " + strings.Fields(p)[0] + "\n")
	}
	if len(resNames) > 0 {
		fmt.Fprintf(&src, "\tfmt.Println(\"REPLAY-OUTPUT:\", %s)\n", strings.Join(resNames, ", "))
	}
	fmt.Fprintf(&src, "\tif !(%s) {\n\t\tfmt.Println(\"REPLAY-RESULT: clause violated\")\n\t\tt.Fatalf(\"clause violated\")\n\t}\n\tfmt.Println(\"REPLAY-RESULT: clause holds\")\n}\n", check)
	out, ran := runReplayTest(cfg, pr, fi.Pkg, src.String(), o.Name)
	sb.WriteString("\n--- replay test (run with: go test -overlay <ov.json> -tags verif -vet=off -run TestVerifReplay " + relDir(pr, fi.Pkg) + ") ---\n")
	sb.WriteString(src.String())
	sb.WriteString("\n--- replay output ---\n" + out + "\n")
	if !ran {
		return "", false
	}
	if strings.Contains(out, "REPLAY-RESULT: clause violated") || strings.Contains(out, "REPLAY-RESULT: panic") {
		sb.WriteString("replay: the counterexample REPRODUCES on the real code\n")
		return "ok", true
	}
	sb.WriteString("replay: the counterexample does NOT reproduce on the real code (solver model is outside the function's real domain or the model of a dependency is imprecise)\n")
	return "", false
}

func relDir(pr *Program, pi *PkgInfo) string {
	rel, err := filepath.Rel(pr.RepoDir, pi.Dir)
	if err != nil {
		return pi.Dir
	}
	return "./" + rel + "/"
}

// runReplayTest injects the test source into the package through a build overlay (nothing is written into the repository).
func runReplayTest(cfg RunConfig, pr *Program, pi *PkgInfo, src, name string) (string, bool) {
	tmp, err := os.MkdirTemp("", "govc-replay-")
	if err != nil {
		return err.Error(), false
	}
	defer os.RemoveAll(tmp)
	tf := filepath.Join(tmp, "zz_verif_replay_test.go")
	os.WriteFile(tf, []byte(src), 0o644)
	ov := map[string]map[string]string{"Replace": {filepath.Join(pi.Dir, "zz_verif_replay_test.go"): tf}}
	ovb, _ := json.Marshal(ov)
	ovf := filepath.Join(tmp, "ov.json")
	os.WriteFile(ovf, ovb, 0o644)
	cmd := exec.Command("go", "test", "-overlay", ovf, "-tags", "verif", "-vet=off", "-count=1", "-timeout", "120s", "-run", "^TestVerifReplay$", relDir(pr, pi))
	cmd.Dir = pr.RepoDir
	cmd.Env = append(os.Environ(), "GOFLAGS=-mod=mod", "GOPROXY=off", "GOSUMDB=off", "GOTOOLCHAIN=local")
	done := make(chan struct{})
	var out []byte
	go func() { out, _ = cmd.CombinedOutput(); close(done) }()
	select {
	case <-done:
	case <-time.After(400 * time.Second):
		if cmd.Process != nil {
			cmd.Process.Kill()
		}
		return "replay timed out", false
	}
	s := string(out)
	s = regexp.MustCompile(`(?m)^I\[.*$\n?`).ReplaceAllString(s, "")
	return truncate(s, 6000), true
}
