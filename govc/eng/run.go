package eng

import (
	"encoding/json"
	"fmt"
	"os"
	"path/filepath"
	"regexp"
	"sort"
	"strings"
	"sync"
	"time"
)

type RunConfig struct {
	Repo      string
	VerifDir  string
	Prop      string
	Tier      string
	Timeout   int
	OnlyFunc  string
	Verbose   bool
	KeepSMT   bool
	Seed      int64
}

type PropResult struct {
	Prop       string
	Reports    []*FuncReport
	Obls       []*Obligation
	Violations []string
	Known      []string
	Wall       float64
	SolverSec  float64
	LoadSec    float64
	Unbound    []string
	Funcs      []string
	Lemmas     []string
}

var termMu sync.Mutex

// SolveAll solves obligations in parallel. Phase 1 leaves out the quantified axioms of spec functions
// (fewer hypotheses: unsat is still a proof); obligations that are not unsat then get the axioms in phase 2.
func SolveAll(obls []*Obligation, dir string, timeout int) float64 {
	total := solveAllWhole(obls, dir, timeout)
	// split phase: an undecided obligation whose goal is a conjunction (one conjunct per exit of the function) is
	// decided conjunct by conjunct; it is discharged iff every conjunct is.
	for _, o := range obls {
		if o.Cover || o.Status == "discharged" || o.Result.Status == "sat" || o.Goal.Op != "and" || len(o.Goal.Args) < 2 {
			continue
		}
		var subs []*Obligation
		for i, g := range o.Goal.Args {
			so := *o
			so.Name = fmt.Sprintf("%s~%d", o.Name, i)
			so.Goal = g
			so.Status = ""
			so.Result = SolveResult{}
			so.Candidate = ""
			subs = append(subs, &so)
		}
		total += solveAllWhole(subs, dir, timeout)
		all := true
		var ms int64
		var bad *Obligation
		for _, so := range subs {
			ms += so.Result.Ms
			if so.Status != "discharged" {
				all = false
				if bad == nil || so.Result.Status == "sat" {
					bad = so
				}
			}
		}
		if all {
			o.Result = SolveResult{Status: "unsat", Solver: fmt.Sprintf("split(%d)", len(subs)), Ms: ms}
			o.Candidate = ""
		} else {
			o.Result = bad.Result
			o.Result.Ms = ms
			o.Candidate, o.CandidateKind = bad.Candidate, bad.CandidateKind
		}
		finishStatus(o)
	}
	return total
}

func solveAllWhole(obls []*Obligation, dir string, timeout int) float64 {
	// phase 0: non-linear arithmetic abstracted by uninterpreted functions (sound for unsat; fast)
	var nl, rest []*Obligation
	nlm := map[*Term]bool{}
	for _, o := range obls {
		if !o.Cover && (hasNL(o.Hyp, nlm) || hasNL(o.Goal, nlm)) {
			nl = append(nl, o)
		}
	}
	total := 0.0
	// phase G: quantified hypotheses instantiated at the index terms of the query and then dropped (ground query)
	var gq []*Obligation
	for _, o := range obls {
		if !o.Cover && (hasQuant(o.Hyp) || hasQuant(o.Goal)) {
			o.ground = true
			o.relaxed = hasNL(o.Hyp, nlm) || hasNL(o.Goal, nlm)
			gq = append(gq, o)
		}
	}
	if len(gq) > 0 {
		total += solvePhase(gq, dir, maxInt(5, timeout/2), false)
		for _, o := range gq {
			o.ground = false
			o.relaxed = false
			if o.Status == "discharged" {
				o.Result.Solver += "(ground-instantiated)"
			}
		}
		var keep []*Obligation
		for _, o := range nl {
			if o.Status != "discharged" {
				keep = append(keep, o)
			}
		}
		nl = keep
	}
	if len(nl) > 0 {
		for _, o := range nl {
			o.relaxed = true
		}
		total += solvePhase(nl, dir, maxInt(minInt(timeout, 10), timeout/2), false)
		for _, o := range nl {
			o.relaxed = false
			if o.Status == "discharged" {
				o.Result.Solver += "(nl-abstracted)"
				continue
			}
			if o.Result.Status == "sat" {
				o.Candidate = o.Result.Output
				o.CandidateKind = "non-linear arithmetic abstracted by uninterpreted functions"
			}
		}
	}
	for _, o := range obls {
		if o.Status != "discharged" || o.Cover {
			rest = append(rest, o)
		}
	}
	obls = rest
	total += solvePhase(obls, dir, timeout, false)
	var second []*Obligation
	for _, o := range obls {
		if !o.Cover && o.Status != "discharged" && len(o.Axioms) > 0 {
			if o.Result.Status == "sat" {
				o.Candidate = o.Result.Output
				o.CandidateKind = "quantified axioms of spec functions left out"
			}
			second = append(second, o)
		}
	}
	if len(second) > 0 {
		total += solvePhase(second, dir, timeout, true)
	}
	return total
}

func solvePhase(obls []*Obligation, dir string, timeout int, withAxioms bool) float64 {
	type job struct {
		o      *Obligation
		script string
		fname  string
	}
	var jobs []job
	for _, o := range obls {
		Progress = "printing " + o.Name
		var asserts []*Term
		if o.Cover {
			asserts = []*Term{o.Hyp, o.Goal}
		} else {
			h, g := prepareQuantified(o.Hyp, o.Goal)
			f := triggerInstantiate(And(h, Not(g)))
			f = And(f, modaddrFacts(f))
			if o.ground {
				f = dropQuantAsserted(f, true)
			}
			if o.relaxed {
				memo := map[*Term]*Term{}
				f = relaxNL(f, memo)
				f = And(f, nlFacts(f))
			}
			asserts = []*Term{f}
			if withAxioms {
				asserts = append(asserts, o.Axioms...)
			}
		}
		conj := And(asserts...)
		fname := regexp.MustCompile(`[^A-Za-z0-9_.#@-]`).ReplaceAllString(o.Name, "_")
		if len(fname) > 180 {
			fname = fname[:180]
		}
		if withAxioms {
			fname += ".ax"
		}
		if o.relaxed {
			fname += ".relaxed"
		}
		if o.ground {
			fname += ".ground"
		}
		if conj.Op == "false" {
			o.Result = SolveResult{Status: "unsat", Solver: "simplifier"}
			finishStatus(o)
			continue
		}
		if conj.Op == "true" {
			o.Result = SolveResult{Status: "sat", Solver: "simplifier"}
			finishStatus(o)
			continue
		}
		tp := time.Now()
		script := SMTScript(asserts, !o.Cover, "; obligation "+o.Name+"\n; source "+o.Pos+"\n; clause "+strings.ReplaceAll(o.Src, "\n", " ")+"\n")
		if os.Getenv("GOVC_TRACE") != "" {
			fmt.Fprintf(os.Stderr, "printed %s: %d bytes in %v\n", o.Name, len(script), time.Since(tp))
			if len(script) > 1<<20 {
				os.WriteFile("/tmp/big.smt2", []byte(script), 0o644)
				os.Exit(4)
			}
		}
		if len(script) > 8<<20 {
			o.Result = SolveResult{Status: "error", Output: fmt.Sprintf("VC too large (%d bytes)", len(script))}
			finishStatus(o)
			continue
		}
		jobs = append(jobs, job{o, script, fname})
	}
	var wg sync.WaitGroup
	sem := make(chan struct{}, 5)
	var mu sync.Mutex
	total := 0.0
	for _, j := range jobs {
		wg.Add(1)
		j := j
		go func() {
			defer wg.Done()
			sem <- struct{}{}
			defer func() { <-sem }()
			to := timeout
			if j.o.Cover && to > 3 {
				to = 3 // vacuity guards get a short budget
				if timeout > 15 {
					to = timeout / 3 // escalation run
				}
			}
			r := Solve(dir, j.fname, j.script, to, nil)
			j.o.Result = r
			finishStatus(j.o)
			mu.Lock()
			total += float64(r.Ms) / 1000
			mu.Unlock()
		}()
	}
	wg.Wait()
	return total
}

func finishStatus(o *Obligation) {
	switch {
	case o.Cover && o.Result.Status == "sat":
		o.Status = "cover-sat"
	case o.Cover && o.Result.Status == "unsat":
		o.Status = "cover-unsat"
	case o.Cover:
		o.Status = "cover-" + o.Result.Status
	case o.Result.Status == "unsat":
		o.Status = "discharged"
	case o.Result.Status == "sat":
		o.Status = "failed-sat"
	default:
		o.Status = "failed-" + o.Result.Status
	}
}

// GenerateProp builds all obligations of a property.
func GenerateProp(pr *Program, prop string, onlyFunc string) *PropResult {
	res := &PropResult{Prop: prop}
	if onlyFunc == "analysis" {
		if st := pr.RunAnalyses(prop); len(st) > 0 {
			res.Reports = append(res.Reports, &FuncReport{Func: "static analyses", Pkg: "(all consensus packages)", Prop: prop, Obls: st})
			res.Obls = st
		}
		return res
	}
	var keys []string
	for k := range pr.Contracts {
		keys = append(keys, k)
	}
	sort.Strings(keys)
	for _, k := range keys {
		c := pr.Contracts[k]
		has := false
		for _, p := range c.Props {
			if p == prop {
				has = true
			}
		}
		if !has {
			continue
		}
		if onlyFunc != "" && !strings.Contains(c.FuncName, onlyFunc) {
			continue
		}
		if c.IsPred {
			continue
		}
		if c.Trusted {
			// nothing of a trusted contract is proved - except its declared frame, which is checked against the inferred
			// write set of the body (static), so that an abstraction never hides a write the callers rely on not happening
			if fi, ok := pr.ByName[k]; ok && c.HasMod && fi.Decl != nil && fi.Decl.Body != nil {
				fx := NewExec(pr)
				ws := WriteSet{}
				fx.collectWrites(fi.Decl.Body, fi.Pkg.P.TypesInfo, fi.Pkg, ws, map[*FuncInfo]bool{fi: true})
				allowed := map[string]bool{}
				for _, m := range c.Modifies {
					allowed[m] = true
				}
				var extra []string
				for m := range ws {
					if !allowed[m] && !allowed["*"] {
						extra = append(extra, m)
					}
				}
				sort.Strings(extra)
				src := "modifies " + strings.Join(c.Modifies, ", ") + " (frame of a trusted abstraction)"
				if len(extra) > 0 {
					src += " — but the body may also write: " + strings.Join(extra, ", ")
				}
				tag := pr.fnTagOf(fi)
				res.Reports = append(res.Reports, &FuncReport{Func: fi.Name, Pkg: fi.Pkg.Path, Prop: c.Prop(), Obls: []*Obligation{staticObl(tag+"/frame#modifies", c.Prop(), "frame", len(extra) == 0, pr.Pos(fi.Decl.Pos()), src)}})
				res.Funcs = append(res.Funcs, tag)
			} else if !ok {
				res.Unbound = append(res.Unbound, k)
			}
			continue
		}
		if c.IsLemma {
			pi := pr.Pkgs[c.PkgPath]
			obls, err := pr.LemmaObligations(c, pi)
			rep := &FuncReport{Func: c.FuncName, Pkg: c.PkgPath, Prop: c.Prop(), Obls: obls}
			if err != nil {
				rep.Error = err.Error()
			}
			res.Reports = append(res.Reports, rep)
			res.Lemmas = append(res.Lemmas, c.FuncName)
			continue
		}
		fi, ok := pr.ByName[k]
		if !ok {
			res.Unbound = append(res.Unbound, k)
			continue
		}
		rep := pr.VerifyFunc(fi)
		res.Reports = append(res.Reports, rep)
		res.Funcs = append(res.Funcs, pr.fnTagOf(fi))
	}
	if onlyFunc == "" {
		if st := pr.RunAnalyses(prop); len(st) > 0 {
			res.Reports = append(res.Reports, &FuncReport{Func: "static analyses", Pkg: "(all consensus packages)", Prop: prop, Obls: st})
		}
	}
	for _, r := range res.Reports {
		for _, o := range r.Obls {
			if prop == "" || o.Prop == prop || o.Prop == "" || o.Prop == "*" {
				res.Obls = append(res.Obls, o)
			}
		}
	}
	return res
}

// ---------- lock file & known findings ----------

type Lock map[string]string // obligation name -> status

func ReadLock(path string) Lock {
	l := Lock{}
	data, err := os.ReadFile(path)
	if err != nil {
		return l
	}
	for _, ln := range strings.Split(string(data), "\n") {
		ln = strings.TrimSpace(ln)
		if ln == "" || strings.HasPrefix(ln, "#") {
			continue
		}
		f := strings.Fields(ln)
		if len(f) >= 2 {
			l[f[0]] = f[1]
		}
	}
	return l
}

type Finding struct {
	Kind  string // finding | fixed
	Prop  string
	Obl   string
	Text  string
}

func ReadFindings(path string) []Finding {
	var out []Finding
	data, err := os.ReadFile(path)
	if err != nil {
		return out
	}
	for _, ln := range strings.Split(string(data), "\n") {
		ln = strings.TrimSpace(ln)
		if ln == "" || strings.HasPrefix(ln, "#") {
			continue
		}
		f := Finding{}
		switch {
		case strings.HasPrefix(ln, "finding:"):
			f.Kind = "finding"
			ln = strings.TrimSpace(ln[len("finding:"):])
		case strings.HasPrefix(ln, "fixed:"):
			f.Kind = "fixed"
			ln = strings.TrimSpace(ln[len("fixed:"):])
		default:
			continue
		}
		for _, w := range strings.Fields(ln) {
			if strings.HasPrefix(w, "property=") {
				f.Prop = w[len("property="):]
			}
			if strings.HasPrefix(w, "obligation=") {
				f.Obl = w[len("obligation="):]
			}
		}
		f.Text = ln
		out = append(out, f)
	}
	return out
}

// ---------- evidence ----------

func writeJSON(path string, v interface{}) error {
	os.MkdirAll(filepath.Dir(path), 0o755)
	data, err := json.MarshalIndent(v, "", " ")
	if err != nil {
		return err
	}
	return os.WriteFile(path, data, 0o644)
}

func nowSec(t0 time.Time) float64 { return float64(time.Since(t0).Milliseconds()) / 1000 }

func minInt(a, b int) int {
	if a < b {
		return a
	}
	return b
}

