package eng

import (
	"go/ast"
	"go/types"
	"math/big"
	"strings"
)

const (
	pMath  = "cosmossdk.io/math."
	pSdk   = "github.com/cosmos/cosmos-sdk/types."
	mInt   = "(cosmossdk.io/math.Int)."
	mUint  = "(cosmossdk.io/math.Uint)."
	mDec   = "(cosmossdk.io/math.LegacyDec)."
	mCoin  = "(github.com/cosmos/cosmos-sdk/types.Coin)."
	mCoins = "(github.com/cosmos/cosmos-sdk/types.Coins)."
	mCtx   = "(github.com/cosmos/cosmos-sdk/types.Context)."
	mAddr  = "(github.com/cosmos/cosmos-sdk/types.AccAddress)."
	mTime  = "(time.Time)."
)

var ONE = BigC(Pow10(18))

var (
	tInt   types.Type
	tDec   types.Type
	tCoin  types.Type
	tCoins types.Type
	tBool  = types.Typ[types.Bool]
	tInt64 = types.Typ[types.Int64]
	tU64   = types.Typ[types.Uint64]
	tStr   = types.Typ[types.String]
	tGoInt = types.Typ[types.Int]
	tErr   = types.Universe.Lookup("error").Type()
)

// resType returns the i-th result type of the call expression's callee.
func (x *Exec) resType(call *ast.CallExpr, i int) types.Type {
	t := x.cur.info.TypeOf(call)
	if t == nil && x.specCallRes != nil {
		if i < x.specCallRes.Len() {
			return x.specCallRes.At(i).Type()
		}
		return nil
	}
	if tup, ok := t.(*types.Tuple); ok {
		return tup.At(i).Type()
	}
	return t
}

// ---- decimal rounding helpers (Appendix D of DESIGN.md) ----

// rhe: divide by 10^18 rounding half to even, sign restored (chopPrecisionAndRound).
func rhe(n *Term) *Term {
	pos := func(m *Term) *Term {
		q := Div(m, ONE)
		r := Mod(m, ONE)
		half := BigC(new(big.Int).Div(Pow10(18), big.NewInt(2)))
		return Ite(Lt(r, half), q, Ite(Gt(r, half), Add(q, One), Ite(Eq(Mod(q, IntC(2)), Zero), q, Add(q, One))))
	}
	if n.IsInt() {
		if n.Val.Sign() >= 0 {
			return pos(n)
		}
		return Neg(pos(Neg(n)))
	}
	return Ite(Ge(n, Zero), pos(n), Neg(pos(Neg(n))))
}

// rup: chopPrecisionAndRoundUp.
func rup(n *Term) *Term {
	pos := Ite(Eq(Mod(n, ONE), Zero), Div(n, ONE), Add(Div(n, ONE), One))
	return Ite(Ge(n, Zero), pos, Neg(Div(Neg(n), ONE)))
}

func decMul(a, b *Term) *Term      { return rhe(Mul(a, b)) }
func decMulTrunc(a, b *Term) *Term { return TDiv(Mul(a, b), ONE) }
func decQuo(a, b *Term) *Term      { return rhe(TDiv(Mul(a, BigC(Pow10(36))), b)) }
func decQuoTrunc(a, b *Term) *Term { return TDiv(TDiv(Mul(a, BigC(Pow10(36))), b), ONE) }
func decQuoUp(a, b *Term) *Term    { return rup(TDiv(Mul(a, BigC(Pow10(36))), b)) }
func decCeil(a *Term) *Term {
	// quo,rem truncated; rem==0 -> quo; rem<0 -> quo; else quo+1 ; result as Dec raw
	q := TDiv(a, ONE)
	r := Sub(a, Mul(q, ONE))
	return Mul(Ite(Le(r, Zero), q, Add(q, One)), ONE)
}

func reg(names []string, f builtinFn) {
	for _, n := range names {
		builtins[n] = f
	}
}

func init() {
	one := func(f func(x *Exec, s *State, r *Value, a []*Value, c *ast.CallExpr) *Value) builtinFn {
		return func(x *Exec, s *State, r *Value, a []*Value, c *ast.CallExpr) []*Value { return []*Value{f(x, s, r, a, c)} }
	}
	res := func(x *Exec, c *ast.CallExpr, t *Term) *Value { return prim(t, x.resType(c, 0)) }

	// ---------- math.Int ----------
	bin := func(f func(a, b *Term) *Term) builtinFn {
		return one(func(x *Exec, s *State, r *Value, a []*Value, c *ast.CallExpr) *Value { return res(x, c, f(r.T, a[0].T)) })
	}
	un := func(f func(a *Term) *Term) builtinFn {
		return one(func(x *Exec, s *State, r *Value, a []*Value, c *ast.CallExpr) *Value { return res(x, c, f(r.T)) })
	}
	for _, m := range []string{mInt, mUint} {
		builtins[m+"Add"] = bin(Add)
		builtins[m+"Sub"] = bin(Sub)
		builtins[m+"Mul"] = bin(Mul)
		builtins[m+"AddRaw"] = bin(Add)
		builtins[m+"SubRaw"] = bin(Sub)
		builtins[m+"MulRaw"] = bin(Mul)
		builtins[m+"Quo"] = one(func(x *Exec, s *State, r *Value, a []*Value, c *ast.CallExpr) *Value {
			x.requireSafe(s, Neq(a[0].T, Zero), "sdk-div-by-zero", c.Pos())
			return res(x, c, TDiv(r.T, a[0].T))
		})
		builtins[m+"QuoRaw"] = builtins[m+"Quo"]
		builtins[m+"Mod"] = one(func(x *Exec, s *State, r *Value, a []*Value, c *ast.CallExpr) *Value {
			x.requireSafe(s, Neq(a[0].T, Zero), "sdk-div-by-zero", c.Pos())
			return res(x, c, TRem(r.T, a[0].T))
		})
		builtins[m+"ModRaw"] = builtins[m+"Mod"]
		builtins[m+"Neg"] = un(Neg)
		builtins[m+"Abs"] = un(Abs)
		builtins[m+"GT"] = bin(Gt)
		builtins[m+"GTE"] = bin(Ge)
		builtins[m+"LT"] = bin(Lt)
		builtins[m+"LTE"] = bin(Le)
		builtins[m+"Equal"] = bin(Eq)
		builtins[m+"IsZero"] = un(func(a *Term) *Term { return Eq(a, Zero) })
		builtins[m+"IsNegative"] = un(func(a *Term) *Term { return Lt(a, Zero) })
		builtins[m+"IsPositive"] = un(func(a *Term) *Term { return Gt(a, Zero) })
		builtins[m+"IsNil"] = un(func(a *Term) *Term { return False })
		builtins[m+"Sign"] = un(func(a *Term) *Term { return Ite(Gt(a, Zero), One, Ite(Lt(a, Zero), IntC(-1), Zero)) })
		builtins[m+"Int64"] = one(func(x *Exec, s *State, r *Value, a []*Value, c *ast.CallExpr) *Value {
			x.requireSafe(s, rangeFact(tInt64, r.T), "Int64-out-of-range", c.Pos())
			return prim(r.T, tInt64)
		})
		builtins[m+"Uint64"] = one(func(x *Exec, s *State, r *Value, a []*Value, c *ast.CallExpr) *Value {
			x.requireSafe(s, rangeFact(tU64, r.T), "Uint64-out-of-range", c.Pos())
			return prim(r.T, tU64)
		})
		builtins[m+"IsInt64"] = un(func(a *Term) *Term { return rangeFact(tInt64, a) })
		builtins[m+"IsUint64"] = un(func(a *Term) *Term { return rangeFact(tU64, a) })
		builtins[m+"ToLegacyDec"] = un(func(a *Term) *Term { return Mul(a, ONE) })
		builtins[m+"ToDec"] = builtins[m+"ToLegacyDec"]
		builtins[m+"String"] = un(func(a *Term) *Term { return App("str.of_int", SInt, a) })
		builtins[m+"BigInt"] = un(func(a *Term) *Term { return a })
	}
	mkInt := one(func(x *Exec, s *State, r *Value, a []*Value, c *ast.CallExpr) *Value { return res(x, c, a[0].T) })
	reg([]string{pMath + "NewInt", pSdk + "NewInt", pMath + "NewIntFromUint64", pSdk + "NewIntFromUint64", pMath + "NewIntFromBigInt", pSdk + "NewIntFromBigInt",
		pMath + "NewUint", pSdk + "NewUint", pMath + "NewUintFromBigInt"}, mkInt)
	reg([]string{pMath + "ZeroInt", pSdk + "ZeroInt", pMath + "ZeroUint", pSdk + "ZeroUint"}, one(func(x *Exec, s *State, r *Value, a []*Value, c *ast.CallExpr) *Value { return res(x, c, Zero) }))
	reg([]string{pMath + "OneInt", pSdk + "OneInt", pMath + "OneUint", pSdk + "OneUint"}, one(func(x *Exec, s *State, r *Value, a []*Value, c *ast.CallExpr) *Value { return res(x, c, One) }))
	reg([]string{pMath + "MinInt", pSdk + "MinInt"}, one(func(x *Exec, s *State, r *Value, a []*Value, c *ast.CallExpr) *Value {
		return res(x, c, Ite(Le(a[0].T, a[1].T), a[0].T, a[1].T))
	}))
	reg([]string{pMath + "MaxInt", pSdk + "MaxInt"}, one(func(x *Exec, s *State, r *Value, a []*Value, c *ast.CallExpr) *Value {
		return res(x, c, Ite(Ge(a[0].T, a[1].T), a[0].T, a[1].T))
	}))
	reg([]string{pMath + "NewIntFromString", pSdk + "NewIntFromString"}, func(x *Exec, s *State, r *Value, a []*Value, c *ast.CallExpr) []*Value {
		ok := App("str.is_int", SBool, a[0].T)
		v := App("str.to_int", SInt, a[0].T)
		return []*Value{prim(v, x.resType(c, 0)), prim(ok, tBool)}
	})
	reg([]string{pMath + "NewIntWithDecimal", pSdk + "NewIntWithDecimal"}, one(func(x *Exec, s *State, r *Value, a []*Value, c *ast.CallExpr) *Value {
		if a[1].T.IsInt() {
			return res(x, c, Mul(a[0].T, BigC(Pow10(int(a[1].T.Val.Int64())))))
		}
		return res(x, c, Mul(a[0].T, App("pow10", SInt, a[1].T)))
	}))

	// ---------- LegacyDec ----------
	builtins[mDec+"Add"] = bin(Add)
	builtins[mDec+"Sub"] = bin(Sub)
	builtins[mDec+"Mul"] = bin(decMul)
	builtins[mDec+"MulTruncate"] = bin(decMulTrunc)
	builtins[mDec+"MulInt"] = bin(Mul)
	builtins[mDec+"MulInt64"] = bin(Mul)
	divGuard := func(f func(a, b *Term) *Term) builtinFn {
		return one(func(x *Exec, s *State, r *Value, a []*Value, c *ast.CallExpr) *Value {
			x.requireSafe(s, Neq(a[0].T, Zero), "sdk-div-by-zero", c.Pos())
			return res(x, c, f(r.T, a[0].T))
		})
	}
	builtins[mDec+"Quo"] = divGuard(decQuo)
	builtins[mDec+"QuoTruncate"] = divGuard(decQuoTrunc)
	builtins[mDec+"QuoRoundUp"] = divGuard(decQuoUp)
	builtins[mDec+"QuoInt"] = divGuard(TDiv)
	builtins[mDec+"QuoInt64"] = divGuard(TDiv)
	builtins[mDec+"Neg"] = un(Neg)
	builtins[mDec+"Abs"] = un(Abs)
	builtins[mDec+"GT"] = bin(Gt)
	builtins[mDec+"GTE"] = bin(Ge)
	builtins[mDec+"LT"] = bin(Lt)
	builtins[mDec+"LTE"] = bin(Le)
	builtins[mDec+"Equal"] = bin(Eq)
	builtins[mDec+"IsZero"] = un(func(a *Term) *Term { return Eq(a, Zero) })
	builtins[mDec+"IsNegative"] = un(func(a *Term) *Term { return Lt(a, Zero) })
	builtins[mDec+"IsPositive"] = un(func(a *Term) *Term { return Gt(a, Zero) })
	builtins[mDec+"IsNil"] = un(func(a *Term) *Term { return False })
	builtins[mDec+"IsInteger"] = un(func(a *Term) *Term { return Eq(Mod(a, ONE), Zero) })
	builtins[mDec+"Ceil"] = un(decCeil)
	builtins[mDec+"TruncateInt"] = un(func(a *Term) *Term { return TDiv(a, ONE) })
	builtins[mDec+"TruncateDec"] = un(func(a *Term) *Term { return Mul(TDiv(a, ONE), ONE) })
	builtins[mDec+"RoundInt"] = un(rhe)
	builtins[mDec+"TruncateInt64"] = one(func(x *Exec, s *State, r *Value, a []*Value, c *ast.CallExpr) *Value {
		v := TDiv(r.T, ONE)
		x.requireSafe(s, rangeFact(tInt64, v), "Int64-out-of-range", c.Pos())
		return prim(v, tInt64)
	})
	builtins[mDec+"RoundInt64"] = one(func(x *Exec, s *State, r *Value, a []*Value, c *ast.CallExpr) *Value {
		v := rhe(r.T)
		x.requireSafe(s, rangeFact(tInt64, v), "Int64-out-of-range", c.Pos())
		return prim(v, tInt64)
	})
	builtins[mDec+"String"] = un(func(a *Term) *Term { return App("str.of_dec", SInt, a) })
	builtins[mDec+"BigInt"] = un(func(a *Term) *Term { return a })
	builtins[mDec+"Power"] = one(func(x *Exec, s *State, r *Value, a []*Value, c *ast.CallExpr) *Value {
		if a[0].T.IsInt() {
			switch a[0].T.Val.Int64() {
			case 0:
				return res(x, c, ONE)
			case 1:
				return res(x, c, r.T)
			case 2:
				return res(x, c, decMul(r.T, r.T))
			}
		}
		return res(x, c, App("dec.power", SInt, r.T, a[0].T))
	})
	builtins[mDec+"ApproxSqrt"] = func(x *Exec, s *State, r *Value, a []*Value, c *ast.CallExpr) []*Value {
		v := App("dec.approx_sqrt", SInt, r.T)
		s.Assume(Implies(Ge(r.T, Zero), Ge(v, Zero)))
		x.Trusted["LegacyDec.ApproxSqrt: only result >= 0 for non-negative input is assumed"]++
		return []*Value{prim(v, x.resType(c, 0)), prim(Fresh("err.sqrt", SInt), tErr)}
	}
	builtins[mDec+"MustFloat64"] = un(func(a *Term) *Term { return App("float.of_dec", SInt, a) })
	builtins[mDec+"Float64"] = func(x *Exec, s *State, r *Value, a []*Value, c *ast.CallExpr) []*Value {
		return []*Value{prim(App("float.of_dec", SInt, r.T), types.Typ[types.Float64]), prim(Fresh("err.float", SInt), tErr)}
	}
	scaleInt := one(func(x *Exec, s *State, r *Value, a []*Value, c *ast.CallExpr) *Value { return res(x, c, Mul(a[0].T, ONE)) })
	reg([]string{pMath + "LegacyNewDec", pSdk + "NewDec", pMath + "LegacyNewDecFromInt", pSdk + "NewDecFromInt", pMath + "LegacyNewDecFromBigInt", pSdk + "NewDecFromBigInt"}, scaleInt)
	reg([]string{pMath + "LegacyZeroDec", pSdk + "ZeroDec"}, one(func(x *Exec, s *State, r *Value, a []*Value, c *ast.CallExpr) *Value { return res(x, c, Zero) }))
	reg([]string{pMath + "LegacyOneDec", pSdk + "OneDec"}, one(func(x *Exec, s *State, r *Value, a []*Value, c *ast.CallExpr) *Value { return res(x, c, ONE) }))
	reg([]string{pMath + "LegacySmallestDec", pSdk + "SmallestDec"}, one(func(x *Exec, s *State, r *Value, a []*Value, c *ast.CallExpr) *Value { return res(x, c, One) }))
	reg([]string{pMath + "LegacyNewDecWithPrec", pSdk + "NewDecWithPrec"}, one(func(x *Exec, s *State, r *Value, a []*Value, c *ast.CallExpr) *Value {
		if a[1].T.IsInt() {
			p := int(a[1].T.Val.Int64())
			if p >= 0 && p <= 18 {
				return res(x, c, Mul(a[0].T, BigC(Pow10(18-p))))
			}
		}
		return res(x, c, App("dec.with_prec", SInt, a[0].T, a[1].T))
	}))
	reg([]string{pMath + "LegacyNewDecFromIntWithPrec", pSdk + "NewDecFromIntWithPrec"}, builtins[pSdk+"NewDecWithPrec"])
	decFromStr := func(x *Exec, s *State, r *Value, a []*Value, c *ast.CallExpr) []*Value {
		// NewDecFromStr(i.String()) == i*ONE ; other strings uninterpreted
		t := a[0].T
		var v *Term
		if t.Op == "uf" && t.Name == "str.of_int" {
			v = Mul(t.Args[0], ONE)
			x.Trusted["NewDecFromStr(Int.String()) == Int * 10^18, err == nil"]++
			return []*Value{prim(v, x.resType(c, 0)), prim(Zero, tErr)}
		}
		if t.Op == "uf" && t.Name == "str.of_dec" {
			return []*Value{prim(t.Args[0], x.resType(c, 0)), prim(Zero, tErr)}
		}
		if t.IsInt() {
			if lit, ok := x.Pr.StrOf(t.Val.Int64()); ok {
				if bi, ok := parseDecLit(lit); ok {
					return []*Value{prim(BigC(bi), x.resType(c, 0)), prim(Zero, tErr)}
				}
			}
		}
		v = App("dec.of_str", SInt, t)
		e := App("dec.of_str_err", SInt, t)
		return []*Value{prim(v, x.resType(c, 0)), prim(e, tErr)}
	}
	reg([]string{pMath + "LegacyNewDecFromStr", pSdk + "NewDecFromStr"}, decFromStr)
	reg([]string{pMath + "LegacyMustNewDecFromStr", pSdk + "MustNewDecFromStr"}, func(x *Exec, s *State, r *Value, a []*Value, c *ast.CallExpr) []*Value {
		vs := decFromStr(x, s, r, a, c)
		x.requireSafe(s, Eq(vs[1].T, Zero), "MustNewDecFromStr", c.Pos())
		return vs[:1]
	})
	reg([]string{pMath + "LegacyMinDec", pSdk + "MinDec"}, one(func(x *Exec, s *State, r *Value, a []*Value, c *ast.CallExpr) *Value {
		return res(x, c, Ite(Le(a[0].T, a[1].T), a[0].T, a[1].T))
	}))
	reg([]string{pMath + "LegacyMaxDec", pSdk + "MaxDec"}, one(func(x *Exec, s *State, r *Value, a []*Value, c *ast.CallExpr) *Value {
		return res(x, c, Ite(Ge(a[0].T, a[1].T), a[0].T, a[1].T))
	}))

	// ---------- Coin / Coins ----------
	builtins[pSdk+"NewCoin"] = one(func(x *Exec, s *State, r *Value, a []*Value, c *ast.CallExpr) *Value {
		x.requireSafe(s, Ge(a[1].T, Zero), "NewCoin-negative", c.Pos())
		return x.mkCoin(c, a[0].T, a[1].T)
	})
	builtins[pSdk+"NewInt64Coin"] = builtins[pSdk+"NewCoin"]
	coinF := func(v *Value, i int) *Term { return v.Fields[i].T }
	builtins[mCoin+"IsZero"] = one(func(x *Exec, s *State, r *Value, a []*Value, c *ast.CallExpr) *Value { return prim(Eq(coinF(r, 1), Zero), tBool) })
	builtins[mCoin+"IsPositive"] = one(func(x *Exec, s *State, r *Value, a []*Value, c *ast.CallExpr) *Value { return prim(Gt(coinF(r, 1), Zero), tBool) })
	builtins[mCoin+"IsNegative"] = one(func(x *Exec, s *State, r *Value, a []*Value, c *ast.CallExpr) *Value { return prim(Lt(coinF(r, 1), Zero), tBool) })
	builtins[mCoin+"IsNil"] = one(func(x *Exec, s *State, r *Value, a []*Value, c *ast.CallExpr) *Value { return prim(False, tBool) })
	builtins[mCoin+"IsValid"] = one(func(x *Exec, s *State, r *Value, a []*Value, c *ast.CallExpr) *Value {
		return prim(And(Ge(coinF(r, 1), Zero), App("denom.valid", SBool, coinF(r, 0))), tBool)
	})
	builtins[mCoin+"Validate"] = one(func(x *Exec, s *State, r *Value, a []*Value, c *ast.CallExpr) *Value {
		ok := And(Ge(coinF(r, 1), Zero), App("denom.valid", SBool, coinF(r, 0)))
		e := Fresh("err.coin", SInt)
		s.Assume(Neq(e, Zero))
		return prim(Ite(ok, Zero, e), tErr)
	})
	builtins[mCoin+"String"] = one(func(x *Exec, s *State, r *Value, a []*Value, c *ast.CallExpr) *Value {
		return prim(App("str.of_coin", SInt, coinF(r, 0), coinF(r, 1)), tStr)
	})
	builtins[mCoin+"GetDenom"] = one(func(x *Exec, s *State, r *Value, a []*Value, c *ast.CallExpr) *Value { return r.Fields[0] })
	cmpCoin := func(f func(a, b *Term) *Term) builtinFn {
		return one(func(x *Exec, s *State, r *Value, a []*Value, c *ast.CallExpr) *Value {
			x.requireSafe(s, Eq(coinF(r, 0), coinF(a[0], 0)), "coin-denom-mismatch", c.Pos())
			return prim(f(coinF(r, 1), coinF(a[0], 1)), tBool)
		})
	}
	builtins[mCoin+"IsGTE"] = cmpCoin(Ge)
	builtins[mCoin+"IsLT"] = cmpCoin(Lt)
	builtins[mCoin+"IsLTE"] = cmpCoin(Le)
	builtins[mCoin+"IsEqual"] = cmpCoin(Eq)
	builtins[mCoin+"IsGT"] = cmpCoin(Gt)
	builtins[mCoin+"Add"] = one(func(x *Exec, s *State, r *Value, a []*Value, c *ast.CallExpr) *Value {
		x.requireSafe(s, Eq(coinF(r, 0), coinF(a[0], 0)), "coin-denom-mismatch", c.Pos())
		return x.mkCoin(c, coinF(r, 0), Add(coinF(r, 1), coinF(a[0], 1)))
	})
	builtins[mCoin+"AddAmount"] = one(func(x *Exec, s *State, r *Value, a []*Value, c *ast.CallExpr) *Value {
		return x.mkCoin(c, coinF(r, 0), Add(coinF(r, 1), a[0].T))
	})
	builtins[mCoin+"Sub"] = one(func(x *Exec, s *State, r *Value, a []*Value, c *ast.CallExpr) *Value {
		x.requireSafe(s, Eq(coinF(r, 0), coinF(a[0], 0)), "coin-denom-mismatch", c.Pos())
		d := Sub(coinF(r, 1), coinF(a[0], 1))
		x.requireSafe(s, Ge(d, Zero), "coin-negative", c.Pos())
		return x.mkCoin(c, coinF(r, 0), d)
	})
	builtins[mCoin+"SubAmount"] = one(func(x *Exec, s *State, r *Value, a []*Value, c *ast.CallExpr) *Value {
		d := Sub(coinF(r, 1), a[0].T)
		x.requireSafe(s, Ge(d, Zero), "coin-negative", c.Pos())
		return x.mkCoin(c, coinF(r, 0), d)
	})
	builtins[pSdk+"NewCoins"] = one(func(x *Exec, s *State, r *Value, a []*Value, c *ast.CallExpr) *Value {
		v := *a[0]
		v.Typ = x.resType(c, 0)
		if v.Conc != nil {
			// duplicate denominations panic
			for i := range v.Conc {
				for j := i + 1; j < len(v.Conc); j++ {
					x.requireSafe(s, Or(Neq(v.Conc[i].Fields[0].T, v.Conc[j].Fields[0].T), Eq(v.Conc[i].Fields[1].T, Zero), Eq(v.Conc[j].Fields[1].T, Zero)), "NewCoins-duplicate-denom", c.Pos())
				}
			}
		}
		return &v
	})
	builtins[mCoins+"AmountOf"] = one(func(x *Exec, s *State, r *Value, a []*Value, c *ast.CallExpr) *Value {
		return prim(x.coinsAmountOf(s, r, a[0].T), x.resType(c, 0))
	})
	builtins[mCoins+"AmountOfNoDenomValidation"] = builtins[mCoins+"AmountOf"]
	builtins[mCoins+"IsZero"] = one(func(x *Exec, s *State, r *Value, a []*Value, c *ast.CallExpr) *Value {
		if r.Conc != nil {
			t := True
			for _, e := range r.Conc {
				t = And(t, Eq(e.Fields[1].T, Zero))
			}
			return prim(t, tBool)
		}
		return prim(App("coins.is_zero", SBool, r.Len), tBool)
	})
	builtins[mCoins+"Empty"] = one(func(x *Exec, s *State, r *Value, a []*Value, c *ast.CallExpr) *Value { return prim(Eq(r.Len, Zero), tBool) })
	builtins[mCoins+"Len"] = one(func(x *Exec, s *State, r *Value, a []*Value, c *ast.CallExpr) *Value { return prim(r.Len, tGoInt) })
	builtins[mCoins+"String"] = one(func(x *Exec, s *State, r *Value, a []*Value, c *ast.CallExpr) *Value {
		return prim(Fresh("str.coins", SInt), tStr)
	})
	builtins[mCoins+"IsAllPositive"] = one(func(x *Exec, s *State, r *Value, a []*Value, c *ast.CallExpr) *Value {
		if r.Conc != nil {
			t := BoolC(len(r.Conc) > 0)
			for _, e := range r.Conc {
				t = And(t, Gt(e.Fields[1].T, Zero))
			}
			return prim(t, tBool)
		}
		return prim(Fresh("coins.allpos", SBool), tBool)
	})
	builtins[mCoins+"IsValid"] = one(func(x *Exec, s *State, r *Value, a []*Value, c *ast.CallExpr) *Value {
		return prim(Fresh("coins.valid", SBool), tBool)
	})
	builtins[mCoins+"Validate"] = one(func(x *Exec, s *State, r *Value, a []*Value, c *ast.CallExpr) *Value {
		return prim(Fresh("err.coins", SInt), tErr)
	})
	builtins[mCoins+"Add"] = one(func(x *Exec, s *State, r *Value, a []*Value, c *ast.CallExpr) *Value {
		// keep a concrete list: concatenation (amounts of equal denoms are summed by AmountOf)
		if r.Conc != nil && a[0].Conc != nil {
			return &Value{K: KSlice, Typ: r.Typ, Len: IntC(int64(len(r.Conc) + len(a[0].Conc))), Conc: append(append([]*Value{}, r.Conc...), a[0].Conc...), Module: "coins-multiset"}
		}
		return x.freshValue(r.Typ, "coins.add", s)
	})

	// ---------- addresses ----------
	reg([]string{pSdk + "AccAddressFromBech32"}, func(x *Exec, s *State, r *Value, a []*Value, c *ast.CallExpr) []*Value {
		addr := App("addr.of_str", SInt, a[0].T)
		e := App("addr.of_str_err", SInt, a[0].T)
		s.Assume(Implies(Eq(e, Zero), Eq(App("addr.to_str", SInt, addr), a[0].T)))
		// the empty string is not a valid address
		s.Assume(Implies(Eq(a[0].T, Zero), Neq(e, Zero)))
		return []*Value{prim(addr, x.resType(c, 0)), prim(e, tErr)}
	})
	reg([]string{pSdk + "MustAccAddressFromBech32"}, one(func(x *Exec, s *State, r *Value, a []*Value, c *ast.CallExpr) *Value {
		addr := App("addr.of_str", SInt, a[0].T)
		e := App("addr.of_str_err", SInt, a[0].T)
		x.requireSafe(s, Eq(e, Zero), "MustAccAddressFromBech32", c.Pos())
		s.Assume(Eq(App("addr.to_str", SInt, addr), a[0].T))
		return prim(addr, x.resType(c, 0))
	}))
	builtins[mAddr+"String"] = one(func(x *Exec, s *State, r *Value, a []*Value, c *ast.CallExpr) *Value {
		if r.T == nil {
			// address value that is not a scalar in the model (e.g. a converted byte slice): its text is an unknown string
			x.note("ADDR: String() of a non-scalar address value at %s modelled as an unknown string", x.Pr.Pos(c.Pos()))
			return prim(Fresh("addr.str", SInt), tStr)
		}
		str := App("addr.to_str", SInt, r.T)
		s.Assume(Eq(App("addr.of_str", SInt, str), r.T))
		s.Assume(Eq(App("addr.of_str_err", SInt, str), Zero))
		return prim(str, tStr)
	})
	builtins[mAddr+"Equals"] = one(func(x *Exec, s *State, r *Value, a []*Value, c *ast.CallExpr) *Value {
		if a[0].K == KPrim {
			return prim(Eq(r.T, a[0].T), tBool)
		}
		return prim(Fresh("addr.eq", SBool), tBool)
	})
	builtins[mAddr+"Empty"] = one(func(x *Exec, s *State, r *Value, a []*Value, c *ast.CallExpr) *Value {
		return prim(Eq(r.T, Zero), tBool)
	})
	builtins[mAddr+"Bytes"] = one(func(x *Exec, s *State, r *Value, a []*Value, c *ast.CallExpr) *Value {
		return &Value{K: KBytes, Typ: x.resType(c, 0), B: &Bytes{Kind: "key", Segs: []KeySeg{{T: r.T, Kind: "addr"}}}}
	})
	reg([]string{"github.com/cosmos/cosmos-sdk/x/auth/types.NewModuleAddress"}, one(func(x *Exec, s *State, r *Value, a []*Value, c *ast.CallExpr) *Value {
		return prim(modAddr(a[0].T), x.resType(c, 0))
	}))
	// address.Module(moduleName, derivationKey): a deterministic address, modelled as an uninterpreted function of the
	// module name and of the identity of the key bytes (distinctness from other accounts is NOT assumed)
	reg([]string{"github.com/cosmos/cosmos-sdk/types/address.Module"}, one(func(x *Exec, s *State, r *Value, a []*Value, c *ast.CallExpr) *Value {
		var kt *Term
		if len(a) > 1 && a[1] != nil && a[1].K == KBytes && a[1].B != nil && a[1].B.T != nil {
			kt = a[1].B.T
		} else if len(a) > 1 && a[1] != nil && a[1].K == KPrim {
			kt = a[1].T
		} else {
			kt = Fresh("addr.module.key", SInt)
		}
		return prim(App("addr.module", SInt, a[0].T, kt), x.resType(c, 0))
	}))
	reg([]string{"github.com/cosmos/cosmos-sdk/types/address.MustLengthPrefix"}, one(func(x *Exec, s *State, r *Value, a []*Value, c *ast.CallExpr) *Value {
		if a[0].K == KBytes {
			return a[0]
		}
		return &Value{K: KBytes, Typ: x.resType(c, 0), B: &Bytes{Kind: "key", Segs: []KeySeg{{T: a[0].T, Kind: "addr"}}}}
	}))
	reg([]string{"github.com/cosmos/cosmos-sdk/types/address.LengthPrefix"}, func(x *Exec, s *State, r *Value, a []*Value, c *ast.CallExpr) []*Value {
		var v *Value
		if a[0].K == KBytes {
			v = a[0]
		} else {
			v = &Value{K: KBytes, Typ: x.resType(c, 0), B: &Bytes{Kind: "key", Segs: []KeySeg{{T: a[0].T, Kind: "addr"}}}}
		}
		return []*Value{v, prim(Zero, tErr)}
	})

	// ---------- strconv / strings / fmt (uninterpreted) ----------
	reg([]string{"strconv.FormatUint", "strconv.FormatInt", "strconv.Itoa"}, one(func(x *Exec, s *State, r *Value, a []*Value, c *ast.CallExpr) *Value {
		return prim(App("str.of_int", SInt, a[0].T), tStr)
	}))
	reg([]string{"strconv.FormatFloat"}, one(func(x *Exec, s *State, r *Value, a []*Value, c *ast.CallExpr) *Value {
		return prim(App("str.of_float", SInt, a[0].T), tStr)
	}))
	reg([]string{"strconv.FormatBool"}, one(func(x *Exec, s *State, r *Value, a []*Value, c *ast.CallExpr) *Value {
		return prim(Ite(a[0].T, x.Pr.Str("true"), x.Pr.Str("false")), tStr)
	}))
	reg([]string{"strconv.ParseUint", "strconv.ParseInt", "strconv.Atoi"}, func(x *Exec, s *State, r *Value, a []*Value, c *ast.CallExpr) []*Value {
		v := App("str.to_int", SInt, a[0].T)
		rt := x.resType(c, 0)
		ok := And(App("str.is_int", SBool, a[0].T), rangeFact(rt, v))
		e := Fresh("err.parse", SInt)
		s.Assume(Neq(e, Zero))
		return []*Value{prim(Ite(ok, v, Zero), rt), prim(Ite(ok, Zero, e), tErr)}
	})
	reg([]string{"fmt.Sprintf", "fmt.Sprint", "fmt.Sprintln"}, one(func(x *Exec, s *State, r *Value, a []*Value, c *ast.CallExpr) *Value {
		return prim(Fresh("str.fmt", SInt), tStr)
	}))
	reg([]string{"fmt.Println", "fmt.Printf", "fmt.Print"}, func(x *Exec, s *State, r *Value, a []*Value, c *ast.CallExpr) []*Value {
		return []*Value{prim(Zero, tGoInt), prim(Zero, tErr)}
	})
	reg([]string{"strings.TrimSpace", "strings.ToLower", "strings.ToUpper", "strings.Title"}, one(func(x *Exec, s *State, r *Value, a []*Value, c *ast.CallExpr) *Value {
		n := c.Fun.(*ast.SelectorExpr).Sel.Name
		return prim(App("strings."+n, SInt, a[0].T), tStr)
	}))
	reg([]string{"strings.HasPrefix", "strings.HasSuffix", "strings.Contains", "strings.EqualFold"}, one(func(x *Exec, s *State, r *Value, a []*Value, c *ast.CallExpr) *Value {
		n := c.Fun.(*ast.SelectorExpr).Sel.Name
		return prim(App("strings."+n, SBool, a[0].T, a[1].T), tBool)
	}))

	// ---------- time ----------
	builtins[mTime+"Unix"] = one(func(x *Exec, s *State, r *Value, a []*Value, c *ast.CallExpr) *Value {
		return prim(Div(r.T, BigC(Pow10(9))), tInt64)
	})
	builtins[mTime+"UnixNano"] = one(func(x *Exec, s *State, r *Value, a []*Value, c *ast.CallExpr) *Value { return prim(r.T, tInt64) })
	builtins[mTime+"After"] = one(func(x *Exec, s *State, r *Value, a []*Value, c *ast.CallExpr) *Value { return prim(Gt(r.T, a[0].T), tBool) })
	builtins[mTime+"Before"] = one(func(x *Exec, s *State, r *Value, a []*Value, c *ast.CallExpr) *Value { return prim(Lt(r.T, a[0].T), tBool) })
	builtins[mTime+"Equal"] = one(func(x *Exec, s *State, r *Value, a []*Value, c *ast.CallExpr) *Value { return prim(Eq(r.T, a[0].T), tBool) })
	builtins[mTime+"IsZero"] = one(func(x *Exec, s *State, r *Value, a []*Value, c *ast.CallExpr) *Value {
		return prim(Eq(r.T, timeZeroNs), tBool)
	})
	builtins[mTime+"Sub"] = one(func(x *Exec, s *State, r *Value, a []*Value, c *ast.CallExpr) *Value {
		// time.Duration saturates at int64 bounds
		d := Sub(r.T, a[0].T)
		lo, hi := BigC(new(big.Int).Neg(Pow2(63))), BigC(new(big.Int).Sub(Pow2(63), big.NewInt(1)))
		return prim(Ite(Lt(d, lo), lo, Ite(Gt(d, hi), hi, d)), x.resType(c, 0))
	})
	builtins[mTime+"Add"] = one(func(x *Exec, s *State, r *Value, a []*Value, c *ast.CallExpr) *Value { return prim(Add(r.T, a[0].T), x.resType(c, 0)) })
	builtins[mTime+"UTC"] = one(func(x *Exec, s *State, r *Value, a []*Value, c *ast.CallExpr) *Value { return r })
	builtins[mTime+"String"] = one(func(x *Exec, s *State, r *Value, a []*Value, c *ast.CallExpr) *Value { return prim(App("str.of_time", SInt, r.T), tStr) })
	builtins[mTime+"Format"] = one(func(x *Exec, s *State, r *Value, a []*Value, c *ast.CallExpr) *Value {
		return prim(App("str.of_time", SInt, r.T), tStr)
	})
	builtins["(time.Duration).Seconds"] = one(func(x *Exec, s *State, r *Value, a []*Value, c *ast.CallExpr) *Value {
		return prim(App("float.dur_seconds", SInt, r.T), types.Typ[types.Float64])
	})
	builtins["time.Unix"] = one(func(x *Exec, s *State, r *Value, a []*Value, c *ast.CallExpr) *Value {
		return prim(Add(Mul(a[0].T, BigC(Pow10(9))), a[1].T), x.resType(c, 0))
	})
	builtins["time.Now"] = one(func(x *Exec, s *State, r *Value, a []*Value, c *ast.CallExpr) *Value {
		x.note("AMBIENT: time.Now() reached at %s", x.Pr.Pos(c.Pos()))
		return prim(Fresh("time.now", SInt), x.resType(c, 0))
	})
	// ---------- math (float) ----------
	reg([]string{"math.Pow"}, one(func(x *Exec, s *State, r *Value, a []*Value, c *ast.CallExpr) *Value {
		return prim(App("float.pow", SInt, a[0].T, a[1].T), types.Typ[types.Float64])
	}))
	reg([]string{"math.Floor", "math.Ceil", "math.Abs", "math.Sqrt", "math.Round", "math.Trunc", "math.Log", "math.Exp"}, one(func(x *Exec, s *State, r *Value, a []*Value, c *ast.CallExpr) *Value {
		n := c.Fun.(*ast.SelectorExpr).Sel.Name
		return prim(App("float."+n, SInt, a[0].T), types.Typ[types.Float64])
	}))
	// sort.Slice etc. are handled where needed
}

// timeZeroNs is time.Time{} expressed in unix nanoseconds (year 1): not representable in int64 ns, we use the exact integer.
var timeZeroNs = BigC(new(big.Int).Mul(big.NewInt(-62135596800), Pow10(9)))

func modAddr(name *Term) *Term { return App("modaddr", SInt, name) }

func (x *Exec) mkCoin(c *ast.CallExpr, denom, amt *Term) *Value {
	t := x.coinType()
	return &Value{K: KStruct, Typ: t, Fields: []*Value{prim(denom, tStr), prim(amt, x.intType())}}
}

func (x *Exec) coinType() types.Type {
	if tCoin == nil {
		x.lookupSdkTypes()
	}
	return tCoin
}
func (x *Exec) intType() types.Type {
	if tInt == nil {
		x.lookupSdkTypes()
	}
	return tInt
}
func (x *Exec) decType() types.Type {
	if tDec == nil {
		x.lookupSdkTypes()
	}
	return tDec
}

func (x *Exec) lookupSdkTypes() {
	for _, pi := range x.Pr.Pkgs {
		for _, imp := range pi.P.Types.Imports() {
			if imp.Path() == "github.com/cosmos/cosmos-sdk/types" {
				tCoin = imp.Scope().Lookup("Coin").Type()
				tCoins = imp.Scope().Lookup("Coins").Type()
				tInt = imp.Scope().Lookup("Int").Type()
				tDec = imp.Scope().Lookup("Dec").Type()
				// aliases resolve to math.Int / math.LegacyDec
				tInt = types.Unalias(tInt)
				tDec = types.Unalias(tDec)
				return
			}
		}
	}
	panic("cosmos-sdk types package not found among imports")
}

// coinsAmountOf sums the amounts of coins with the given denom.
func (x *Exec) coinsAmountOf(s *State, coins *Value, denom *Term) *Term {
	if coins.Dyn != nil && coins.Dyn.Module == "allbal" {
		w := s.Worlds[coins.Dyn.W]
		b := Select(Select(w.Bal, coins.Dyn.T), denom)
		s.Assume(Ge(b, Zero))
		return b
	}
	if coins.Conc != nil {
		t := Zero
		for _, e := range coins.Conc {
			t = Add(t, Ite(Eq(e.Fields[0].T, denom), e.Fields[1].T, Zero))
		}
		return t
	}
	id := Fresh("coins", SInt)
	_ = id
	r := App("coins.amount_of."+sortTag(sliceElem(coins).Fields[0].T.S), SInt, sliceElem(coins).Fields[0].T, sliceElem(coins).Fields[1].T, coins.Len, denom)
	s.Assume(Ge(r, Zero))
	return r
}

func parseDecLit(sv string) (*big.Int, bool) {
	neg := false
	if strings.HasPrefix(sv, "-") {
		neg = true
		sv = sv[1:]
	}
	if sv == "" {
		return nil, false
	}
	parts := strings.Split(sv, ".")
	if len(parts) > 2 {
		return nil, false
	}
	ip := parts[0]
	fp := ""
	if len(parts) == 2 {
		fp = parts[1]
		if fp == "" || len(fp) > 18 {
			return nil, false
		}
	}
	for len(fp) < 18 {
		fp += "0"
	}
	v, ok := new(big.Int).SetString(ip+fp, 10)
	if !ok {
		return nil, false
	}
	if neg {
		v.Neg(v)
	}
	return v, true
}

func init() {
	// error constructors (also reachable through the deprecated package-level variables of cosmos-sdk/types/errors)
	newErr := func(x *Exec, s *State, r *Value, a []*Value, c *ast.CallExpr) []*Value {
		e := Fresh("err.new", SInt)
		s.Assume(Neq(e, Zero))
		return []*Value{prim(e, tErr)}
	}
	wrap := func(x *Exec, s *State, r *Value, a []*Value, c *ast.CallExpr) []*Value {
		e := Fresh("err.wrap", SInt)
		s.Assume(Neq(e, Zero))
		if len(a) > 0 && a[0].K == KPrim && a[0].T.S == SInt {
			return []*Value{prim(Ite(Eq(a[0].T, Zero), Zero, e), tErr)}
		}
		return []*Value{prim(e, tErr)}
	}
	for _, p := range []string{"github.com/cosmos/cosmos-sdk/types/errors.", "cosmossdk.io/errors."} {
		builtins[p+"Wrap"] = wrap
		builtins[p+"Wrapf"] = wrap
		builtins[p+"WithType"] = wrap
		builtins[p+"New"] = newErr
		builtins[p+"Register"] = newErr
	}
	builtins["errors.New"] = newErr
	builtins["fmt.Errorf"] = newErr
	builtins["github.com/pkg/errors.New"] = newErr
	builtins["github.com/pkg/errors.Errorf"] = newErr
	builtins["github.com/pkg/errors.Wrap"] = wrap
	builtins["github.com/pkg/errors.Wrapf"] = wrap
	builtins["(*cosmossdk.io/errors.Error).Wrap"] = newErr
	builtins["(*cosmossdk.io/errors.Error).Wrapf"] = newErr
	builtins["(error).Error"] = func(x *Exec, s *State, r *Value, a []*Value, c *ast.CallExpr) []*Value {
		return []*Value{prim(Fresh("str.errmsg", SInt), tStr)}
	}
	builtins["iface:error.Error"] = builtins["(error).Error"]
	builtins["runtime/debug.Stack"] = func(x *Exec, s *State, r *Value, a []*Value, c *ast.CallExpr) []*Value {
		return []*Value{{K: KBytes, Typ: types.NewSlice(types.Typ[types.Uint8]), B: &Bytes{Kind: "opaque", T: Fresh("stack", SInt)}}}
	}
	builtins["errors.Is"] = func(x *Exec, s *State, r *Value, a []*Value, c *ast.CallExpr) []*Value {
		if a[0].K == KPrim && a[1].K == KPrim {
			return []*Value{prim(Or(Eq(a[0].T, a[1].T), And(Neq(a[0].T, Zero), Fresh("errors.is", SBool))), tBool)}
		}
		return []*Value{prim(Fresh("errors.is", SBool), tBool)}
	}
}
