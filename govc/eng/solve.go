package eng

import (
	"bytes"
	"context"
	"fmt"
	"os"
	"os/exec"
	"path/filepath"
	"strings"
	"sync"
	"time"
)

type SolveResult struct {
	Status string // "unsat", "sat", "unknown", "timeout", "error"
	Solver string
	Ms     int64
	Output string // raw output of the deciding solver (model or reason)
	All    map[string]string
}

var solverCmds = []struct {
	name string
	argv func(file string, sec int) []string
}{
	{"z3-new", func(f string, sec int) []string { return []string{"z3-new", "-smt2", fmt.Sprintf("-T:%d", sec), f} }},
	{"z3", func(f string, sec int) []string { return []string{"z3", "-smt2", fmt.Sprintf("-T:%d", sec), f} }},
	{"cvc5", func(f string, sec int) []string {
		return []string{"cvc5", fmt.Sprintf("--tlimit=%d", sec*1000), f}
	}},
}

var SolverSem = make(chan struct{}, 14)

func firstLine(s string) string {
	s = strings.TrimSpace(s)
	if i := strings.IndexByte(s, '\n'); i >= 0 {
		return strings.TrimSpace(s[:i])
	}
	return s
}

// Solve writes the script to dir/name.smt2 and races the solvers.
func Solve(dir, name, script string, timeoutSec int, only []string) SolveResult {
	os.MkdirAll(dir, 0o755)
	file := filepath.Join(dir, name+".smt2")
	if err := os.WriteFile(file, []byte(script), 0o644); err != nil {
		return SolveResult{Status: "error", Output: err.Error()}
	}
	usesLambda := strings.Contains(script, "(lambda ")
	ctx, cancel := context.WithCancel(context.Background())
	defer cancel()
	type one struct {
		solver, status, out string
		ms                  int64
	}
	ch := make(chan one, len(solverCmds))
	var wg sync.WaitGroup
	n := 0
	for _, sc := range solverCmds {
		if len(only) > 0 {
			ok := false
			for _, o := range only {
				if o == sc.name {
					ok = true
				}
			}
			if !ok {
				continue
			}
		}
		if sc.name == "cvc5" && usesLambda {
			continue
		}
		n++
		wg.Add(1)
		sc := sc
		go func() {
			defer wg.Done()
			SolverSem <- struct{}{}
			defer func() { <-SolverSem }()
			if ctx.Err() != nil {
				ch <- one{sc.name, "cancelled", "", 0}
				return
			}
			argv := sc.argv(file, timeoutSec)
			c, cc := context.WithTimeout(ctx, time.Duration(timeoutSec+3)*time.Second)
			defer cc()
			cmd := exec.CommandContext(c, argv[0], argv[1:]...)
			var out bytes.Buffer
			cmd.Stdout = &out
			cmd.Stderr = &out
			t0 := time.Now()
			cmd.Run()
			ms := time.Since(t0).Milliseconds()
			fl := firstLine(out.String())
			st := "unknown"
			switch {
			case fl == "unsat":
				st = "unsat"
			case fl == "sat":
				st = "sat"
			case fl == "timeout" || strings.Contains(fl, "interrupted") || c.Err() != nil:
				st = "timeout"
			case fl == "unknown":
				st = "unknown"
			default:
				st = "error"
			}
			ch <- one{sc.name, st, out.String(), ms}
		}()
	}
	res := SolveResult{Status: "unknown", All: map[string]string{}}
	got := 0
	for got < n {
		o := <-ch
		got++
		res.All[o.solver] = o.status
		if o.status == "unsat" || o.status == "sat" {
			if res.Status != "unsat" && res.Status != "sat" {
				res.Status, res.Solver, res.Ms, res.Output = o.status, o.solver, o.ms, o.out
				cancel()
			} else if res.Status != o.status {
				res.Status = "error"
				res.Output += "\nSOLVER DISAGREEMENT: " + o.solver + " says " + o.status
			}
		} else if res.Status == "unknown" || res.Status == "timeout" || res.Status == "error" {
			if res.Solver == "" || o.status == "timeout" {
				if !(res.Status == "timeout") {
					res.Status = o.status
				}
				if o.ms > res.Ms {
					res.Ms = o.ms
				}
				if o.status != "cancelled" {
					res.Output += "[" + o.solver + "] " + truncate(o.out, 400) + "\n"
				}
			}
		}
	}
	wg.Wait()
	if res.Status == "cancelled" {
		res.Status = "unknown"
	}
	return res
}

func truncate(s string, n int) string {
	if len(s) > n {
		return s[:n] + "…"
	}
	return s
}
