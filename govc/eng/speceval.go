package eng

import (
	"fmt"
	"go/ast"
	"go/token"
	"go/types"
	"strings"
)

// specCtx is the evaluation context of a contract expression.
type specCtx struct {
	entry   *State             // pre-state for old()
	results []*Value           // function results at this exit
	resType []types.Type
	resName []string
	bound   map[string]*Value  // quantifier / let / lemma variables
	fi      *FuncInfo
	inOld   bool
}

// evalClause evaluates a Boolean contract clause in state s.
func (x *Exec) evalClause(s *State, cl *Clause, sc *specCtx) *Term {
	if sc == nil {
		sc = x.defaultSpec
	}
	v := x.evalSpec(s, cl.Expr, sc)
	if v.K != KPrim || v.T.S != SBool {
		panic(execPanic{fmt.Sprintf("contract clause %q is not Boolean", cl.Src)})
	}
	return v.T
}

// evalSpec evaluates on a clone so that spec evaluation never changes the program state,
// but assumptions made while reading state (typing facts) are kept by conjoining them to s.
func (x *Exec) evalSpec(s *State, e *CExpr, sc *specCtx) *Value {
	x.specMode++
	defer func() { x.specMode-- }()
	tmp := s.Clone()
	v := x.specExpr(tmp, e, sc)
	// keep typing facts learnt during evaluation (they are consequences of the store/bank model)
	s.PC = And(s.PC, factsOnly(tmp.PC, s.PC))
	return v
}

// factsOnly returns the conjuncts of a that are not in b.
func factsOnly(a, b *Term) *Term {
	have := map[*Term]bool{}
	if b.Op == "and" {
		for _, c := range b.Args {
			have[c] = true
		}
	} else {
		have[b] = true
	}
	var extra []*Term
	if a.Op == "and" {
		for _, c := range a.Args {
			if !have[c] {
				extra = append(extra, c)
			}
		}
	} else if !have[a] {
		extra = append(extra, a)
	}
	return And(extra...)
}

func boolV(t *Term) *Value { return prim(t, tBool) }
func intV(t *Term) *Value  { return prim(t, nil) }

func (x *Exec) specExpr(s *State, e *CExpr, sc *specCtx) *Value {
	switch e.Op {
	case "int":
		return intV(BigC(e.Val))
	case "str":
		return prim(x.Pr.Str(e.Name), tStr)
	case "ident":
		return x.specIdent(s, e.Name, sc)
	case "not":
		v := x.specExpr(s, e.Args[0], sc)
		return boolV(Not(v.T))
	case "neg":
		v := x.specExpr(s, e.Args[0], sc)
		return intV(Neg(v.T))
	case "old":
		panic("unreachable")
	case "forall", "exists":
		nb := map[string]*Value{}
		for k, v := range sc.bound {
			nb[k] = v
		}
		var bs []*Term
		for _, n := range e.Vars {
			bv := Fresh("q."+n, SInt)
			if x.qVars == nil {
				x.qVars = map[*Term]bool{}
			}
			x.qVars[bv] = true
			bs = append(bs, bv)
			nb[n] = intV(bv)
		}
		sc2 := *sc
		sc2.bound = nb
		// facts learnt while evaluating the body (typing facts of the cells it reads) may mention the bound
		// variables: they stay inside the quantifier and never reach the path condition.
		tmp := s.Clone()
		body := x.specExpr(tmp, e.Args[0], &sc2)
		// The facts are typing facts of well-formed states (true for every value of the bound variables in any
		// real state), so leaving them out is sound in both polarities.
		if e.Op == "forall" {
			return boolV(Forall(bs, body.T))
		}
		return boolV(Exists(bs, body.T))
	case "bin":
		return x.specBin(s, e, sc)
	case "sel":
		// package-qualified name?
		if id := e.Args[0]; id.Op == "ident" {
			if v, ok := x.specQualified(s, id.Name, e.Name, sc); ok {
				return v
			}
		}
		base := x.specExpr(s, e.Args[0], sc)
		return x.specField(s, base, e.Name)
	case "tup":
		base := x.specExpr(s, e.Args[0], sc)
		i := int(e.Val.Int64())
		if base.K == KTuple && i < len(base.Fields) {
			return base.Fields[i]
		}
		if i == 0 {
			return base
		}
		panic(execPanic{"tuple index on non-tuple in contract"})
	case "index":
		base := x.specExpr(s, e.Args[0], sc)
		idx := x.specExpr(s, e.Args[1], sc)
		if base.K == KPtr && base.Cell != 0 {
			base = s.Heap[base.Cell]
		}
		switch base.K {
		case KSlice:
			if base.Conc != nil && idx.T.IsInt() && idx.T.Val.IsInt64() && int(idx.T.Val.Int64()) < len(base.Conc) && idx.T.Val.Sign() >= 0 {
				return base.Conc[idx.T.Val.Int64()]
			}
			return selectV(sliceElem(base), idx.T)
		case KMap:
			return selectV(base.Elem, x.keyTerm(idx))
		}
		panic(execPanic{"index on " + base.K.String() + " in contract"})
	case "call":
		return x.specCall(s, e, sc)
	}
	panic(execPanic{"unsupported contract expression " + e.Op})
}

func (x *Exec) specIdent(s *State, name string, sc *specCtx) *Value {
	if v, ok := sc.bound[name]; ok {
		return v
	}
	switch name {
	case "true":
		return boolV(True)
	case "false":
		return boolV(False)
	case "nil":
		return &Value{K: KOpaque, T: Zero}
	case "result":
		if len(sc.results) > 0 {
			return sc.results[0]
		}
	case "err":
		for i := len(sc.results) - 1; i >= 0; i-- {
			if sc.resType[i] != nil && isErrorType(sc.resType[i]) {
				return sc.results[i]
			}
		}
	case "ok":
		for i := len(sc.results) - 1; i >= 0; i-- {
			if sc.resType[i] != nil && isErrorType(sc.resType[i]) {
				return boolV(Eq(sc.results[i].T, Zero))
			}
		}
		return boolV(True)
	case "ONE":
		return intV(ONE)
	}
	if strings.HasPrefix(name, "result") && len(name) == 7 && name[6] >= '0' && name[6] <= '9' {
		if i := int(name[6] - '0'); i < len(sc.results) {
			return sc.results[i]
		}
	}
	for i, n := range sc.resName {
		if n == name && i < len(sc.results) {
			return sc.results[i]
		}
	}
	if _, cell, ok := x.cur.env.LookupName(name); ok {
		if v, ok := s.Heap[cell]; ok {
			return v
		}
	}
	// package-level objects of the function's package
	if x.cur.pkg != nil {
		if o := x.cur.pkg.P.Types.Scope().Lookup(name); o != nil {
			return x.specObject(s, o)
		}
	}
	if name == "ctx" && x.specWorldID != 0 {
		// handlers unwrap their sdk.Context into a local: contracts may always name the chain state as ctx
		return &Value{K: KCtx, W: x.specWorldID}
	}
	panic(execPanic{"contract: unknown identifier " + name})
}

func (x *Exec) specObject(s *State, o types.Object) *Value {
	switch o := o.(type) {
	case *types.Const:
		return x.constValue(o.Val(), o.Type(), token.NoPos)
	case *types.Var:
		return x.globalVar(s, o, token.NoPos)
	}
	panic(execPanic{"contract: unsupported object " + o.Name()})
}

// specQualified resolves pkgalias.Name using the imports of the function's file/package.
func (x *Exec) specQualified(s *State, alias, name string, sc *specCtx) (*Value, bool) {
	if _, ok := sc.bound[alias]; ok {
		return nil, false
	}
	if _, _, ok := x.cur.env.LookupName(alias); ok {
		return nil, false
	}
	if x.cur.pkg == nil {
		return nil, false
	}
	// explicit aliases in any file of the package
	for _, f := range x.cur.pkg.P.Syntax {
		for _, im := range f.Imports {
			path := strings.Trim(im.Path.Value, "\"")
			nm := ""
			if im.Name != nil {
				nm = im.Name.Name
			}
			for _, ip := range x.cur.pkg.P.Types.Imports() {
				if ip.Path() != path {
					continue
				}
				if nm == alias || (nm == "" && ip.Name() == alias) {
					if o := ip.Scope().Lookup(name); o != nil {
						return x.specObject(s, o), true
					}
				}
			}
		}
	}
	return nil, false
}

func (x *Exec) specField(s *State, base *Value, name string) *Value {
	if base.K == KOpaque && base.Dyn != nil && x.ifaceOver[base.Dyn] != nil {
		base = base.Dyn
	}
	if base.K == KPtr {
		if base.Cell == 0 {
			panic(execPanic{"contract: field of nil pointer"})
		}
		base = s.Heap[base.Cell]
	}
	if base.K == KOpt {
		base = base.Inl
	}
	if base.K == KStruct {
		if f := base.field(name); f != nil {
			return f
		}
	}
	if base.K == KSlice {
		// projection of a slice of structs onto a field: the slice of that field's values (same length)
		el := sliceElem(base)
		if el != nil && el.K == KOpt && el.Inl != nil {
			el = el.Inl // slice of pointers to structs kept inline
		}
		if el != nil && el.K == KStruct {
			if f := el.field(name); f != nil {
				var ft types.Type
				if sl, ok := base.Typ.Underlying().(*types.Slice); ok {
					if st, ok := derefStruct(sl.Elem()); ok {
						for i := 0; i < st.NumFields(); i++ {
							if st.Field(i).Name() == name {
								ft = types.NewSlice(st.Field(i).Type())
							}
						}
					}
				}
				return &Value{K: KSlice, Typ: ft, Len: base.Len, Elem: f}
			}
		}
	}
	if base.K == KOpaque && base.Typ != nil {
		if st, ok := derefStruct(base.Typ); ok {
			for i := 0; i < st.NumFields(); i++ {
				if st.Field(i).Name() == name {
					return &Value{K: KOpaque, Typ: st.Field(i).Type(), Module: name}
				}
			}
			// promoted through embedded fields
			for i := 0; i < st.NumFields(); i++ {
				if st.Field(i).Embedded() {
					if r := x.specFieldOpt(s, &Value{K: KOpaque, Typ: st.Field(i).Type()}, name); r != nil {
						return r
					}
				}
			}
		}
	}
	panic(execPanic{"contract: no field " + name + " on " + base.K.String()})
}

func (x *Exec) specFieldOpt(s *State, base *Value, name string) (r *Value) {
	defer func() {
		if e := recover(); e != nil {
			if _, ok := e.(execPanic); ok {
				r = nil
				return
			}
			panic(e)
		}
	}()
	return x.specField(s, base, name)
}

func (x *Exec) specBin(s *State, e *CExpr, sc *specCtx) *Value {
	switch e.Name {
	case "==>":
		l := x.specExpr(s, e.Args[0], sc)
		// evaluate rhs under the assumption of lhs (typing facts may depend on it)
		r := x.specExpr(s, e.Args[1], sc)
		return boolV(Implies(l.T, r.T))
	case "<==>":
		l := x.specExpr(s, e.Args[0], sc)
		r := x.specExpr(s, e.Args[1], sc)
		return boolV(Eq(l.T, r.T))
	case "&&":
		l := x.specExpr(s, e.Args[0], sc)
		r := x.specExpr(s, e.Args[1], sc)
		return boolV(And(l.T, r.T))
	case "||":
		l := x.specExpr(s, e.Args[0], sc)
		r := x.specExpr(s, e.Args[1], sc)
		return boolV(Or(l.T, r.T))
	}
	l := x.specExpr(s, e.Args[0], sc)
	r := x.specExpr(s, e.Args[1], sc)
	switch e.Name {
	case "==", "!=":
		var t *Term
		if isNilLit(r) {
			t = x.isNil(s, l, token.NoPos)
		} else if isNilLit(l) {
			t = x.isNil(s, r, token.NoPos)
		} else if l.K == KPrim && r.K == KPrim {
			if l.T.S != r.T.S {
				panic(execPanic{"contract: == on different sorts"})
			}
			t = Eq(l.T, r.T)
		} else {
			var ok bool
			t, ok = eqV(x.deaden(s, l), x.deaden(s, r))
			if !ok {
				panic(execPanic{"contract: == on values of different shapes"})
			}
		}
		if e.Name == "!=" {
			t = Not(t)
		}
		return boolV(t)
	}
	if l.K != KPrim || r.K != KPrim {
		panic(execPanic{fmt.Sprintf("contract: arithmetic on non-primitive values (%s): kinds %v %v types %v %v", e.Name, l.K, r.K, l.Typ, r.Typ)})
	}
	switch e.Name {
	case "<":
		return boolV(Lt(l.T, r.T))
	case "<=":
		return boolV(Le(l.T, r.T))
	case ">":
		return boolV(Gt(l.T, r.T))
	case ">=":
		return boolV(Ge(l.T, r.T))
	case "+":
		return intV(Add(l.T, r.T))
	case "-":
		return intV(Sub(l.T, r.T))
	case "*":
		return intV(Mul(l.T, r.T))
	case "/":
		return intV(TDiv(l.T, r.T))
	case "%":
		return intV(TRem(l.T, r.T))
	}
	panic(execPanic{"contract: unsupported operator " + e.Name})
}

func (x *Exec) specCall(s *State, e *CExpr, sc *specCtx) *Value {
	fn := e.Args[0]
	args := e.Args[1:]
	ev := func(i int) *Value { return x.specExpr(s, args[i], sc) }
	if fn.Op == "ident" {
		switch fn.Name {
		case "old":
			if sc.entry == nil {
				panic(execPanic{"contract: old() without entry state"})
			}
			sc2 := *sc
			sc2.inOld = true
			tmp := sc.entry.Clone()
			// facts already known in the current path still hold for the entry state's symbols
			tmp.PC = s.PC
			v := x.specExpr(tmp, args[0], &sc2)
			s.PC = And(s.PC, factsOnly(tmp.PC, s.PC))
			return v
		case "len":
			v := ev(0)
			if v.K == KPtr && v.Cell != 0 {
				v = s.Heap[v.Cell]
			}
			switch v.K {
			case KSlice:
				return intV(v.Len)
			}
			panic(execPanic{"contract: len of " + v.K.String()})
		case "int", "int64", "uint64", "uint", "Int":
			return intV(ev(0).T)
		case "dec":
			return intV(Mul(ev(0).T, ONE))
		case "decstr":
			// decstr(s): the decimal denoted by a string (the value NewDecFromStr yields; uninterpreted for unknown strings)
			return intV(App("dec.of_str", SInt, ev(0).T))
		case "abs":
			return intV(Abs(ev(0).T))
		case "min":
			a, b := ev(0).T, ev(1).T
			return intV(Ite(Le(a, b), a, b))
		case "max":
			a, b := ev(0).T, ev(1).T
			return intV(Ite(Ge(a, b), a, b))
		case "ite":
			c, a, b := ev(0), ev(1), ev(2)
			m, ok := iteV(c.T, a, b)
			if !ok {
				panic(execPanic{"contract: ite on different shapes"})
			}
			return m
		case "div":
			return intV(Div(ev(0).T, ev(1).T))
		case "mod":
			return intV(Mod(ev(0).T, ev(1).T))
		case "pow10":
			n := ev(0).T
			if n.IsInt() {
				return intV(BigC(Pow10(int(n.Val.Int64()))))
			}
			return intV(App("pow10", SInt, n))
		case "pow2":
			n := ev(0).T
			if n.IsInt() {
				return intV(BigC(Pow2(int(n.Val.Int64()))))
			}
		case "sum":
			// sum(slice, lo, hi) = Σ slice[i], lo <= i < hi  (uninterpreted + axioms)
			sl := ev(0)
			if sl.K != KSlice {
				panic(execPanic{"contract: sum of non-slice"})
			}
			arr := sliceElem(sl)
			if arr.K != KPrim {
				panic(execPanic{"contract: sum over non-integer slice"})
			}
			x.needSumAxioms = true
			return intV(App("seq.sum", SInt, arr.T, ev(1).T, ev(2).T))
		case "bal":
			w := x.specWorld(s)
			b := Select(Select(w.Bal, ev(0).T), ev(1).T)
			s.Assume(Ge(b, Zero))
			return intV(b)
		case "supply":
			w := x.specWorld(s)
			b := Select(w.Supply, ev(0).T)
			s.Assume(Ge(b, Zero))
			return intV(b)
		case "modaddr":
			a := ev(0).T
			if a.IsInt() {
				if name, ok := x.Pr.StrOf(a.Val.Int64()); ok && !x.Pr.isModuleName(name) {
					x.fail(token.NoPos, "contract: modaddr(%q): no module of that name (ModuleName constants: %v)", name, x.Pr.moduleNameList())
				}
			}
			return intV(modAddr(a))
		case "height":
			return intV(x.specWorld(s).Height)
		case "blocktime":
			return intV(x.specWorld(s).Time)
		case "chainid":
			return intV(x.specWorld(s).Chain)
		case "decMul":
			return intV(decMul(ev(0).T, ev(1).T))
		case "decQuo":
			return intV(decQuo(ev(0).T, ev(1).T))
		case "decMulTrunc":
			return intV(decMulTrunc(ev(0).T, ev(1).T))
		case "decQuoTrunc":
			return intV(decQuoTrunc(ev(0).T, ev(1).T))
		case "decQuoUp":
			return intV(decQuoUp(ev(0).T, ev(1).T))
		case "decCeil":
			return intV(decCeil(ev(0).T))
		case "rhe":
			return intV(rhe(ev(0).T))
		case "trunc":
			return intV(TDiv(ev(0).T, ONE))
		case "uf":
			// uf("name", args...) : uninterpreted Int function shared with the model (e.g. float.pow)
			name := args[0].Name
			var ts []*Term
			for i := 1; i < len(args); i++ {
				ts = append(ts, ev(i).T)
			}
			return intV(App(name, SInt, ts...))
		case "ufb":
			name := args[0].Name
			var ts []*Term
			for i := 1; i < len(args); i++ {
				ts = append(ts, ev(i).T)
			}
			return boolV(App(name, SBool, ts...))
		case "unchanged":
			// unchanged(): the chain state of the function's context equals the state at entry
			if sc.entry == nil {
				panic(execPanic{"contract: unchanged() without entry state"})
			}
			return boolV(worldEq(x.specWorld(s), sc.entry.Worlds[x.specWorldID]))
		case "sameworld":
			a, b := ev(0), ev(1)
			if a.K != KCtx || b.K != KCtx {
				panic(execPanic{"contract: sameworld needs two contexts"})
			}
			return boolV(worldEq(s.Worlds[a.W], s.Worlds[b.W]))
		case "K":
			// K("module"): the keeper of another comdex module (for reading its state in contracts)
			name := args[0].Name
			for _, kn := range x.Pr.Keepers {
				parts := strings.Split(kn.Obj().Pkg().Path(), "/")
				if len(parts) >= 2 && parts[len(parts)-2] == name {
					return &Value{K: KOpaque, Typ: kn}
				}
			}
			panic(execPanic{"contract: no keeper for module " + name})
		case "addr":
			// addr(str): the account address denoted by a bech32 string
			return intV(App("addr.of_str", SInt, ev(0).T))
		case "addrstr":
			return prim(App("addr.to_str", SInt, ev(0).T), tStr)
		case "validaddr":
			return boolV(Eq(App("addr.of_str_err", SInt, ev(0).T), Zero))
		}
		// spec predicate of the package
		if x.cur.pkg != nil {
			if pc, ok := x.Pr.Contracts[x.cur.pkg.Path+"|pred:"+fn.Name]; ok {
				nb := map[string]*Value{}
				for k, v := range sc.bound {
					nb[k] = v
				}
				if len(args) != len(pc.Params) {
					panic(execPanic{"contract: wrong number of arguments for pred " + fn.Name})
				}
				for i, p := range pc.Params {
					nb[strings.SplitN(p, ":", 2)[0]] = ev(i)
				}
				sc2 := *sc
				sc2.bound = nb
				return x.specExpr(s, pc.Clauses[0].Expr, &sc2)
			}
		}
		// a function or lemma-free helper of the package under verification
		if x.cur.pkg != nil {
			if o, ok := x.cur.pkg.P.Types.Scope().Lookup(fn.Name).(*types.Func); ok {
				var av []*Value
				for i := range args {
					av = append(av, ev(i))
				}
				return x.specCallFunc(s, o, nil, av)
			}
		}
		panic(execPanic{"contract: unknown function " + fn.Name})
	}
	if fn.Op == "sel" {
		// pkg.Func(...) ?
		if id := fn.Args[0]; id.Op == "ident" {
			if f := x.specQualifiedFunc(id.Name, fn.Name, sc); f != nil {
				var av []*Value
				for i := range args {
					av = append(av, ev(i))
				}
				return x.specCallFunc(s, f, nil, av)
			}
		}
		recv := x.specExpr(s, fn.Args[0], sc)
		var av []*Value
		for i := range args {
			av = append(av, ev(i))
		}
		return x.specMethod(s, recv, fn.Name, av)
	}
	panic(execPanic{"contract: unsupported call form"})
}

func (x *Exec) specQualifiedFunc(alias, name string, sc *specCtx) *types.Func {
	if _, ok := sc.bound[alias]; ok {
		return nil
	}
	if _, _, ok := x.cur.env.LookupName(alias); ok {
		return nil
	}
	if x.cur.pkg == nil {
		return nil
	}
	for _, f := range x.cur.pkg.P.Syntax {
		for _, im := range f.Imports {
			path := strings.Trim(im.Path.Value, "\"")
			nm := ""
			if im.Name != nil {
				nm = im.Name.Name
			}
			for _, ip := range x.cur.pkg.P.Types.Imports() {
				if ip.Path() == path && (nm == alias || (nm == "" && ip.Name() == alias)) {
					if o, ok := ip.Scope().Lookup(name).(*types.Func); ok {
						return o
					}
				}
			}
		}
	}
	return nil
}

func (x *Exec) specWorld(s *State) *World {
	// the world of the function's context parameter; fall back to the only world
	if x.specWorldID != 0 {
		if w, ok := s.Worlds[x.specWorldID]; ok {
			return w
		}
	}
	for _, w := range s.Worlds {
		return w
	}
	panic(execPanic{"contract: no world in scope"})
}

// specMethod calls a real method (or built-in model) on a value, in spec mode.
func (x *Exec) specMethod(s *State, recv *Value, name string, args []*Value) *Value {
	t := recv.Typ
	if recv.K == KOpaque && recv.Dyn != nil && recv.Dyn.Typ != nil {
		if ov := x.ifaceOver[recv.Dyn]; ov != nil {
			if ov[name] {
				panic(execPanic{"contract: method " + name + " is overridden by an implementer of the interface and has no model"})
			}
			recv = recv.Dyn
		}
		t = recv.Typ
		if recv.K == KOpaque && recv.Dyn != nil && recv.Dyn.Typ != nil {
			t = recv.Dyn.Typ
		}
	}
	if t == nil {
		// untyped mathematical value: allow Int-like method names on integers
		t = x.intType()
	}
	var pkg *types.Package
	if x.cur.pkg != nil {
		pkg = x.cur.pkg.P.Types
	}
	obj, _, _ := types.LookupFieldOrMethod(t, true, pkg, name)
	f, ok := obj.(*types.Func)
	if !ok {
		// method promoted through an opaque embedded keeper (msgServer embeds Keeper)
		if st, ok2 := derefStruct(t); ok2 {
			for i := 0; i < st.NumFields(); i++ {
				if st.Field(i).Embedded() {
					obj, _, _ = types.LookupFieldOrMethod(st.Field(i).Type(), true, pkg, name)
					if f2, ok3 := obj.(*types.Func); ok3 {
						f = f2
						ok = true
						break
					}
				}
			}
		}
		if !ok {
			panic(execPanic{fmt.Sprintf("contract: no method %s on %v", name, t)})
		}
	}
	return x.specCallFunc(s, f, recv, args)
}

func (x *Exec) specCallFunc(s *State, f *types.Func, recv *Value, args []*Value) *Value {
	sig := f.Type().(*types.Signature)
	// adapt untyped integer arguments to parameter types
	for i := range args {
		if i < sig.Params().Len() && args[i].K == KPrim && args[i].Typ == nil {
			args[i] = prim(args[i].T, sig.Params().At(i).Type())
		}
	}
	call := &ast.CallExpr{Fun: &ast.Ident{Name: f.Name()}}
	x.specCallRes = sig.Results()
	vals := x.callFunc(s, f, recv, nil, args, call)
	if len(vals) == 1 {
		return vals[0]
	}
	return &Value{K: KTuple, Fields: vals}
}

// worldEq states that two worlds hold the same chain state (all store families, bank ledger, header).
func worldEq(a, b *World) *Term {
	if a == nil || b == nil {
		panic(execPanic{"contract: world comparison without world"})
	}
	if a == b {
		return True
	}
	out := []*Term{Eq(a.Bal, b.Bal), Eq(a.Supply, b.Supply), Eq(a.Height, b.Height), Eq(a.Time, b.Time)}
	ids := map[string]bool{}
	for k := range a.Fams {
		ids[k] = true
	}
	for k := range b.Fams {
		ids[k] = true
	}
	for id := range ids {
		fa, fb := a.Fams[id], b.Fams[id]
		if fa == fb {
			continue
		}
		nk := 0
		if fa != nil {
			nk = fa.NKeys
		} else {
			nk = fb.NKeys
		}
		if fa == nil {
			fa = a.Clone().fam(id, nk)
		}
		if fb == nil {
			fb = b.Clone().fam(id, nk)
		}
		out = append(out, Eq(fa.Has, fb.Has))
		ps := map[string]bool{}
		for p := range fa.Leaves {
			ps[p] = true
		}
		for p := range fb.Leaves {
			ps[p] = true
		}
		for p := range ps {
			la, lb := fa.Leaves[p], fb.Leaves[p]
			if la == nil && lb != nil {
				la = baseLeaf(fa.Rest, id, p, lb.S)
			}
			if lb == nil && la != nil {
				lb = baseLeaf(fb.Rest, id, p, la.S)
			}
			out = append(out, Eq(la, lb))
		}
	}
	// the untouched remainders must denote the same state
	out = append(out, Eq(a.Rest, b.Rest))
	mods := map[string]bool{}
	for m := range a.RestMod {
		mods[m] = true
	}
	for m := range b.RestMod {
		mods[m] = true
	}
	for m := range mods {
		out = append(out, Eq(a.restOf(m), b.restOf(m)))
	}
	return And(out...)
}
