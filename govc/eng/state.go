package eng

import (
	"fmt"
	"go/types"
	"sort"
	"strings"
)

// Env maps variables to heap cells; scopes are chained.
type Env struct {
	vars   map[types.Object]int
	names  map[string]types.Object
	parent *Env
}

func NewEnv(parent *Env) *Env {
	return &Env{vars: map[types.Object]int{}, names: map[string]types.Object{}, parent: parent}
}

func (e *Env) Lookup(o types.Object) (int, bool) {
	for x := e; x != nil; x = x.parent {
		if c, ok := x.vars[o]; ok {
			return c, true
		}
	}
	return 0, false
}

func (e *Env) LookupName(n string) (types.Object, int, bool) {
	for x := e; x != nil; x = x.parent {
		if o, ok := x.names[n]; ok {
			return o, x.vars[o], true
		}
	}
	return nil, 0, false
}

func (e *Env) Bind(o types.Object, cell int) {
	e.vars[o] = cell
	e.names[o.Name()] = o
}

type FamState struct {
	Has    *Term
	Leaves map[string]*Term
	NKeys  int
	Rest   *Term // identity of the untouched remainder this family was derived from (Int; var or ite of vars)
	ID     string
}

// baseLeaf is the array holding leaf p of family id in the untouched remainder denoted by rest.
func baseLeaf(rest *Term, id, p string, srt *Sort) *Term {
	if rest.Op == "ite" {
		return Ite(rest.Args[0], baseLeaf(rest.Args[1], id, p, srt), baseLeaf(rest.Args[2], id, p, srt))
	}
	name := rest.Name
	if rest.Op != "var" {
		name = fmt.Sprintf("rest%d", rest.ID)
	}
	return Var(name+"."+id+"."+p, srt)
}

// leaf returns the array holding leaf path p, creating its base variable on first use.
func (f *FamState) leaf(p string, base *Sort) *Term {
	if l, ok := f.Leaves[p]; ok {
		return l
	}
	ks := make([]*Sort, f.NKeys)
	for i := range ks {
		ks[i] = SInt
	}
	l := baseLeaf(f.Rest, f.ID, p, wrapSort(base, ks))
	f.Leaves[p] = l
	return l
}

type World struct {
	Fams    map[string]*FamState
	Bal     *Term // Array addr (Array denom Int)
	Supply  *Term // Array denom Int
	Height  *Term
	Time    *Term
	Chain   *Term
	Tag     string
	Rest    *Term            // identity of all untouched store families (default)
	RestMod map[string]*Term // per-module override after a module-level havoc
	// Lists: abstract "all entries" views per iterator prefix, created lazily (per world version)
	Version int
	// ModVer: per-module log of the direct store writes since restOf(module) was last replaced (a module-level havoc
	// replaces restOf and clears the log). Results of pure functions that iterate a store prefix depend on
	// verOf(module, prefix): a term that changes with every write to a family the prefix may cover.
	ModVer map[string][]wEntry
}

type wEntry struct {
	Fam string // family id written ("*": any family of the module)
	Tok *Term
}

var worldCounter = 0

func NewWorld(tag string) *World {
	return &World{
		Fams:   map[string]*FamState{},
		Bal:    Var(tag+".bal", SArr(SInt, SArr(SInt, SInt))),
		Supply: Var(tag+".supply", SArr(SInt, SInt)),
		Height: Var(tag+".height", SInt),
		Time:   Var(tag+".time", SInt),
		Chain:  Var(tag+".chainid", SInt),
		Tag:    tag,
		Rest:   Var(tag, SInt),
	}
}

func (w *World) Clone() *World {
	n := *w
	n.Fams = make(map[string]*FamState, len(w.Fams))
	for k, v := range w.Fams {
		n.Fams[k] = v
	}
	if w.ModVer != nil {
		n.ModVer = make(map[string][]wEntry, len(w.ModVer))
		for k, v := range w.ModVer {
			n.ModVer[k] = append([]wEntry(nil), v...)
		}
	}
	return &n
}

func famConstPart(id string) string {
	if i := strings.IndexByte(id, '{'); i >= 0 {
		return id[:i]
	}
	return id
}

// prefixMayCover: may a store iterator with prefix pre see records of family fam?
func prefixMayCover(fam, pre string) bool {
	if fam == "*" {
		return true
	}
	fc, pc := famConstPart(fam), famConstPart(pre)
	return strings.HasPrefix(fc, pc) || strings.HasPrefix(pc, fc)
}

func verChain(base *Term, log []wEntry, pre string) *Term {
	v := base
	for _, e := range log {
		if prefixMayCover(e.Fam, pre) {
			v = App("ver.next", SInt, v, e.Tok)
		}
	}
	return v
}

// verOf is a term that changes whenever the records a store iterator with the given prefix sees may have changed.
func (w *World) verOf(mod, pre string) *Term {
	return verChain(w.restOf(mod), w.ModVer[mod], pre)
}

func (w *World) bumpVer(mod, fam string) {
	if w.ModVer == nil {
		w.ModVer = map[string][]wEntry{}
	}
	w.ModVer[mod] = append(append([]wEntry(nil), w.ModVer[mod]...), wEntry{Fam: fam, Tok: Fresh("wtok."+mod, SInt)})
}

// fam returns the family state, creating base variables lazily.
func (w *World) fam(id string, nkeys int) *FamState {
	if f, ok := w.Fams[id]; ok {
		return f
	}
	ks := make([]*Sort, nkeys)
	for i := range ks {
		ks[i] = SInt
	}
	rest := w.restOf(modOfFam(id))
	f := &FamState{Has: baseLeaf(rest, id, "has", wrapSort(SBool, ks)), Leaves: map[string]*Term{}, NKeys: nkeys, Rest: rest, ID: id}
	w.Fams[id] = f
	return f
}

func (f *FamState) clone() *FamState {
	n := &FamState{Has: f.Has, NKeys: f.NKeys, Rest: f.Rest, ID: f.ID, Leaves: make(map[string]*Term, len(f.Leaves))}
	for k, v := range f.Leaves {
		n.Leaves[k] = v
	}
	return n
}

func selectN(a *Term, keys []*Term) *Term {
	for _, k := range keys {
		a = Select(a, k)
	}
	return a
}

func storeN(a *Term, keys []*Term, v *Term) *Term {
	if len(keys) == 0 {
		return v
	}
	if len(keys) == 1 {
		return Store(a, keys[0], v)
	}
	return Store(a, keys[0], storeN(Select(a, keys[0]), keys[1:], v))
}

// State is one symbolic execution state.
type State struct {
	PC     *Term
	Heap   map[int]*Value
	Worlds map[int]*World
	// facts assumed (typing facts etc.), kept separately so that they can be listed
	Dead bool
}

var cellCounter = 0

// MergeNotes collects diagnostics about lossy merges.
var MergeNotes []string

func NewState() *State {
	return &State{PC: True, Heap: map[int]*Value{}, Worlds: map[int]*World{}}
}

func (s *State) Clone() *State {
	n := &State{PC: s.PC, Heap: make(map[int]*Value, len(s.Heap)), Worlds: make(map[int]*World, len(s.Worlds))}
	for k, v := range s.Heap {
		n.Heap[k] = v
	}
	for k, v := range s.Worlds {
		n.Worlds[k] = v
	}
	return n
}

func (s *State) Alloc(v *Value) int {
	cellCounter++
	s.Heap[cellCounter] = v
	return cellCounter
}

func (s *State) Assume(t *Term) { s.PC = And(s.PC, t) }

// MutWorld returns a private copy of world id for mutation.
func (s *State) MutWorld(id int) *World {
	w := s.Worlds[id].Clone()
	s.Worlds[id] = w
	return w
}

func (s *State) NewWorldID(w *World) int {
	worldCounter++
	s.Worlds[worldCounter] = w
	return worldCounter
}

// mergeStates merges b into a (both reachable), selecting a's values under condition ca.
func mergeStates(ca *Term, a, b *State) *State {
	if a == nil {
		return b
	}
	if b == nil {
		return a
	}
	n := &State{PC: factorOr(a.PC, b.PC), Heap: map[int]*Value{}, Worlds: map[int]*World{}}
	ids := map[int]bool{}
	for k := range a.Heap {
		ids[k] = true
	}
	for k := range b.Heap {
		ids[k] = true
	}
	for k := range ids {
		va, oka := a.Heap[k]
		vb, okb := b.Heap[k]
		switch {
		case oka && okb:
			if va == vb {
				n.Heap[k] = va
			} else if m, ok := iteV(ca, va, vb); ok {
				n.Heap[k] = m
			} else if m, ok := iteV(ca, deadenS(a, va), deadenS(b, vb)); ok {
				// pointers to different cells: merge the pointees inline and re-allocate
				n.Heap[k] = livenS(n, m)
			} else {
				if va.Typ != nil {
					n.Heap[k] = freshLike(va.Typ, "merged")
				} else {
					n.Heap[k] = &Value{K: KOpaque, Typ: va.Typ}
				}
				MergeNotes = append(MergeNotes, "variable merge with different shapes: "+shapeDiff(va, vb, ""))
			}
		case oka:
			n.Heap[k] = va
		default:
			n.Heap[k] = vb
		}
	}
	wids := map[int]bool{}
	for k := range a.Worlds {
		wids[k] = true
	}
	for k := range b.Worlds {
		wids[k] = true
	}
	for k := range wids {
		wa, oka := a.Worlds[k]
		wb, okb := b.Worlds[k]
		switch {
		case oka && okb:
			n.Worlds[k] = mergeWorlds(ca, wa, wb)
		case oka:
			n.Worlds[k] = wa
		default:
			n.Worlds[k] = wb
		}
	}
	return n
}

func mergeWorlds(c *Term, a, b *World) *World {
	if a == b {
		return a
	}
	n := a.Clone()
	n.Bal = Ite(c, a.Bal, b.Bal)
	n.Supply = Ite(c, a.Supply, b.Supply)
	n.Height = Ite(c, a.Height, b.Height)
	n.Time = Ite(c, a.Time, b.Time)
	n.Chain = Ite(c, a.Chain, b.Chain)
	n.Rest = Ite(c, a.Rest, b.Rest)
	n.RestMod = nil
	mods := map[string]bool{}
	for m := range a.RestMod {
		mods[m] = true
	}
	for m := range b.RestMod {
		mods[m] = true
	}
	for m := range mods {
		r := Ite(c, a.restOf(m), b.restOf(m))
		if r != n.Rest {
			if n.RestMod == nil {
				n.RestMod = map[string]*Term{}
			}
			n.RestMod[m] = r
		}
	}
	n.ModVer = nil
	vmods := map[string]bool{}
	for m := range a.ModVer {
		vmods[m] = true
	}
	for m := range b.ModVer {
		vmods[m] = true
	}
	for m := range vmods {
		la, lb := a.ModVer[m], b.ModVer[m]
		k := 0
		for k < len(la) && k < len(lb) && la[k].Fam == lb[k].Fam && la[k].Tok == lb[k].Tok {
			k++
		}
		log := append([]wEntry(nil), la[:k]...)
		if k < len(la) || k < len(lb) {
			log = append(log, wEntry{Fam: "*", Tok: Ite(c, verChain(Zero, la[k:], "*"), verChain(Zero, lb[k:], "*"))})
		}
		if n.ModVer == nil {
			n.ModVer = map[string][]wEntry{}
		}
		n.ModVer[m] = log
	}
	ids := map[string]bool{}
	for k := range a.Fams {
		ids[k] = true
	}
	for k := range b.Fams {
		ids[k] = true
	}
	keys := make([]string, 0, len(ids))
	for k := range ids {
		keys = append(keys, k)
	}
	sort.Strings(keys)
	for _, k := range keys {
		fa, fb := a.Fams[k], b.Fams[k]
		if fa == fb {
			continue
		}
		nk := 0
		if fa != nil {
			nk = fa.NKeys
		} else {
			nk = fb.NKeys
		}
		// make sure both exist (base variables are deterministic by name, so creating is harmless)
		wa, wb := a, b
		if fa == nil {
			wa = a.Clone()
			fa = wa.fam(k, nk)
		}
		if fb == nil {
			wb = b.Clone()
			fb = wb.fam(k, nk)
		}
		m := &FamState{Has: Ite(c, fa.Has, fb.Has), Leaves: map[string]*Term{}, NKeys: nk, Rest: Ite(c, fa.Rest, fb.Rest), ID: k}
		ps := map[string]bool{}
		for p := range fa.Leaves {
			ps[p] = true
		}
		for p := range fb.Leaves {
			ps[p] = true
		}
		for p := range ps {
			la, lb := fa.Leaves[p], fb.Leaves[p]
			if la == nil && lb != nil {
				la = baseLeaf(fa.Rest, k, p, lb.S)
			}
			if lb == nil && la != nil {
				lb = baseLeaf(fb.Rest, k, p, la.S)
			}
			if la.S != lb.S {
				panic(fmt.Sprintf("family %s leaf %s: sort clash %s / %s", k, p, la.S, lb.S))
			}
			m.Leaves[p] = Ite(c, la, lb)
		}
		n.Fams[k] = m
	}
	return n
}

// relCond returns the conjuncts of a that are not conjuncts of b: a selector that distinguishes
// state a from state b when both extend a common path-condition prefix.
func relCond(a, b *Term) *Term {
	have := map[*Term]bool{}
	if b.Op == "and" {
		for _, c := range b.Args {
			have[c] = true
		}
	} else {
		have[b] = true
	}
	if a.Op != "and" {
		if have[a] {
			return True
		}
		return a
	}
	var out []*Term
	for _, c := range a.Args {
		if !have[c] {
			out = append(out, c)
		}
	}
	return And(out...)
}

func conjuncts(t *Term) []*Term {
	if t.Op == "and" {
		return t.Args
	}
	if t.Op == "true" {
		return nil
	}
	return []*Term{t}
}

// factorOr computes a ∨ b as common ∧ (restA ∨ restB), keeping path conditions flat conjunctions.
func factorOr(a, b *Term) *Term {
	ca, cb := conjuncts(a), conjuncts(b)
	inB := map[*Term]bool{}
	for _, c := range cb {
		inB[c] = true
	}
	var common, ra, rb []*Term
	inCommon := map[*Term]bool{}
	for _, c := range ca {
		if inB[c] {
			common = append(common, c)
			inCommon[c] = true
		} else {
			ra = append(ra, c)
		}
	}
	for _, c := range cb {
		if !inCommon[c] {
			rb = append(rb, c)
		}
	}
	return And(append(common, Or(And(ra...), And(rb...)))...)
}

// deadenS converts live pointers inside v into inline optionals using the heap of s.
func deadenS(s *State, v *Value) *Value {
	if v == nil {
		return v
	}
	switch v.K {
	case KPtr:
		z := &Value{K: KOpt, Typ: v.Typ, NilT: v.NilT}
		if v.Cell == 0 || s.Heap[v.Cell] == nil {
			z.NilT = True
			if p, ok := v.Typ.Underlying().(*types.Pointer); ok {
				z.Inl = deadenS(s, zeroValue(p.Elem()))
			}
			return z
		}
		z.Inl = deadenS(s, s.Heap[v.Cell])
		return z
	case KStruct, KTuple:
		n := &Value{K: v.K, Typ: v.Typ, Fields: make([]*Value, len(v.Fields))}
		for i, f := range v.Fields {
			n.Fields[i] = deadenS(s, f)
		}
		return n
	}
	return v
}

// livenS converts inline optionals at unlifted positions back into heap pointers of s.
func livenS(s *State, v *Value) *Value {
	if v == nil {
		return v
	}
	switch v.K {
	case KOpt:
		if v.NilT.S != SBool {
			return v
		}
		cell := s.Alloc(livenS(s, v.Inl))
		return &Value{K: KPtr, Typ: v.Typ, Cell: cell, NilT: v.NilT}
	case KStruct, KTuple:
		n := &Value{K: v.K, Typ: v.Typ, Fields: make([]*Value, len(v.Fields))}
		for i, f := range v.Fields {
			n.Fields[i] = livenS(s, f)
		}
		return n
	}
	return v
}

func modOfFam(id string) string {
	for i := 0; i < len(id); i++ {
		if id[i] == '/' {
			return id[:i]
		}
	}
	return id
}

func (w *World) restOf(mod string) *Term {
	if r, ok := w.RestMod[mod]; ok {
		return r
	}
	return w.Rest
}
