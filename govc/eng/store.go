package eng

import (
	"encoding/hex"
	"go/ast"
	"go/types"
	"strings"
)

func (x *Exec) ctxWorld(s *State, ctx *Value) (int, *World) {
	if ctx == nil || ctx.K != KCtx {
		// opaque context: use world 0 if any
		for id, w := range s.Worlds {
			return id, w
		}
		panic(execPanic{"context value without world"})
	}
	w, ok := s.Worlds[ctx.W]
	if !ok {
		panic(execPanic{"context refers to unknown world"})
	}
	return ctx.W, w
}

// famOfKey derives the family id and key terms from a key value.
func (x *Exec) famOfKey(module string, prefix []KeySeg, key *Value) (string, []*Term, bool) {
	if key.K == KPrim { // AccAddress etc. used directly as key
		key = &Value{K: KBytes, B: &Bytes{Kind: "key", Segs: []KeySeg{{T: key.T, Kind: "addr"}}}}
	}
	if key.K != KBytes || key.B == nil {
		return "", nil, false
	}
	segs := append(append([]KeySeg{}, prefix...), x.bytesSegs(key.B)...)
	segs = normSegs(segs)
	var sb strings.Builder
	sb.WriteString(module)
	sb.WriteByte('/')
	var keys []*Term
	varlen := 0
	for _, sg := range segs {
		if sg.T == nil {
			sb.WriteString(hex.EncodeToString(sg.Const))
			continue
		}
		if sg.Kind == "bytes" {
			return "", nil, false
		}
		sb.WriteString("{" + sg.Kind + "}")
		if sg.Kind != "u64" && sg.Kind != "byte" {
			varlen++
		}
		keys = append(keys, sg.T)
	}
	if varlen > 1 {
		x.note("KEYSHAPE: key family %s has more than one variable-length segment; injectivity of the key constructor is assumed", sb.String())
	}
	return sb.String(), keys, true
}

func (x *Exec) storeGet(s *State, h *Value, key *Value) *Value {
	fam, keys, ok := x.famOfKey(h.Module, h.prefix(), key)
	bt := types.NewSlice(types.Typ[types.Uint8])
	if !ok {
		x.note("store read with a key of unknown shape in module %s: result unconstrained", h.Module)
		return &Value{K: KBytes, Typ: bt, B: &Bytes{Kind: "opaque", T: Fresh("storeval", SInt), NilT: Fresh("storeval.nil", SBool)}}
	}
	w := s.Worlds[h.W]
	f := w.fam(fam, len(keys))
	return &Value{K: KBytes, Typ: bt, B: &Bytes{Kind: "storeval", Fam: fam, Keys: keys, Snap: f, NilT: Not(selectN(f.Has, keys))}}
}

func (h *Value) prefix() []KeySeg {
	if h.B != nil {
		return h.B.Segs
	}
	return nil
}

func (x *Exec) storeHas(s *State, h *Value, key *Value) *Term {
	fam, keys, ok := x.famOfKey(h.Module, h.prefix(), key)
	if !ok {
		return Fresh("store.has", SBool)
	}
	f := s.Worlds[h.W].fam(fam, len(keys))
	return selectN(f.Has, keys)
}

func (x *Exec) storeSet(s *State, h *Value, key *Value, val *Value) {
	fam, keys, ok := x.famOfKey(h.Module, h.prefix(), key)
	if !ok {
		x.note("store write with a key of unknown shape in module %s: all families of the module havocked", h.Module)
		x.havocWorlds(s, WriteSet{h.Module: true}, "set.unknown")
		return
	}
	w := s.MutWorld(h.W)
	w.bumpVer(h.Module, fam)
	f := w.fam(fam, len(keys)).clone()
	w.Fams[fam] = f
	f.Has = storeN(f.Has, keys, True)
	if val.K != KBytes {
		x.note("store write of non-bytes value")
		return
	}
	x.writeBytes(s, f, keys, val.B)
}

func (x *Exec) writeBytes(s *State, f *FamState, keys []*Term, b *Bytes) {
	switch b.Kind {
	case "marshal":
		x.writeLeaves(s, f, keys, "", x.deaden(s, b.Val))
	case "u64be":
		l := f.leaf("$u64", SInt)
		f.Leaves["$u64"] = storeN(l, keys, b.T)
	case "storeval":
		// copying stored bytes: copy every known leaf
		for p, l := range b.Snap.Leaves {
			base := unwrapSort(l.S, len(b.Keys))
			dst := f.leaf(p, base)
			f.Leaves[p] = storeN(dst, keys, selectN(l, b.Keys))
		}
	default:
		l := f.leaf("$raw", SInt)
		f.Leaves["$raw"] = storeN(l, keys, bytesIdent(b))
	}
}

func unwrapSort(s *Sort, n int) *Sort {
	for i := 0; i < n; i++ {
		s = s.Elem
	}
	return s
}

func (x *Exec) writeLeaves(s *State, f *FamState, keys []*Term, path string, v *Value) {
	v = inlineForStore(v)
	walkLeaves(v, path, func(p string, t *Term) {
		l := f.leaf(p, t.S)
		f.Leaves[p] = storeN(l, keys, t)
	})
}

// walkLeaves enumerates leaf paths consistently with buildValue's path naming.
func walkLeaves(v *Value, path string, f func(p string, t *Term)) {
	if v == nil {
		return
	}
	switch v.K {
	case KPrim:
		f(path, v.T)
	case KStruct:
		st := v.Typ.Underlying().(*types.Struct)
		for i, fl := range v.Fields {
			if strings.HasPrefix(st.Field(i).Name(), "XXX_") {
				continue
			}
			walkLeaves(fl, path+"."+st.Field(i).Name(), f)
		}
	case KSlice:
		f(path+".len", v.Len)
		if e := sliceElem(v); e != nil {
			walkLeaves(e, path+"[]", f)
		}
	case KMap:
		f(path+".has", v.Has)
		walkLeaves(v.Elem, path+"{}", f)
	case KOpt:
		f(path+".nil", v.NilT)
		walkLeaves(v.Inl, path+"*", f)
	case KBytes:
		if v.B != nil {
			f(path+".bytes", bytesIdent(v.B))
		}
	}
}

func (x *Exec) storeDelete(s *State, h *Value, key *Value) {
	fam, keys, ok := x.famOfKey(h.Module, h.prefix(), key)
	if !ok {
		x.havocWorlds(s, WriteSet{h.Module: true}, "del.unknown")
		return
	}
	w := s.MutWorld(h.W)
	w.bumpVer(h.Module, fam)
	f := w.fam(fam, len(keys)).clone()
	w.Fams[fam] = f
	f.Has = storeN(f.Has, keys, False)
}

// decode builds a value of type t from bytes.
func (x *Exec) decode(s *State, b *Bytes, t types.Type) *Value {
	switch b.Kind {
	case "marshal":
		if b.Val != nil && b.Val.Typ != nil && types.Identical(b.Val.Typ, t) {
			return x.liven(s, b.Val)
		}
	case "storeval":
		v := buildValue(t, "", nil, func(path string, srt *Sort, lt types.Type) *Term {
			return selectN(b.Snap.leaf(path, srt), b.Keys)
		}, 0)
		v = x.liven(s, v)
		x.assumeElemFacts(s, v)
		return v
	}
	return x.freshValue(t, "decoded", s)
}

func init() {
	// ---------- Context ----------
	builtins[mCtx+"KVStore"] = func(x *Exec, s *State, r *Value, a []*Value, c *ast.CallExpr) []*Value {
		id, _ := x.ctxWorld(s, r)
		return []*Value{{K: KStoreH, Typ: x.resType(c, 0), W: id, Module: moduleOf(x.cur.pkg.Path)}}
	}
	builtins[mCtx+"BlockHeight"] = func(x *Exec, s *State, r *Value, a []*Value, c *ast.CallExpr) []*Value {
		_, w := x.ctxWorld(s, r)
		return []*Value{prim(w.Height, tInt64)}
	}
	builtins[mCtx+"BlockTime"] = func(x *Exec, s *State, r *Value, a []*Value, c *ast.CallExpr) []*Value {
		_, w := x.ctxWorld(s, r)
		return []*Value{prim(w.Time, x.resType(c, 0))}
	}
	builtins[mCtx+"ChainID"] = func(x *Exec, s *State, r *Value, a []*Value, c *ast.CallExpr) []*Value {
		_, w := x.ctxWorld(s, r)
		return []*Value{prim(w.Chain, tStr)}
	}
	for _, n := range []string{"EventManager", "Logger", "GasMeter", "BlockGasMeter", "BlockHeader", "TxBytes", "HeaderHash", "ConsensusParams", "Context"} {
		n := n
		builtins[mCtx+n] = func(x *Exec, s *State, r *Value, a []*Value, c *ast.CallExpr) []*Value {
			return []*Value{{K: KOpaque, Typ: x.resType(c, 0), Module: "ctx." + n}}
		}
	}
	for _, n := range []string{"WithGasMeter", "WithEventManager", "WithValue", "WithBlockGasMeter", "WithIsCheckTx", "WithContext", "WithLogger", "WithTxBytes"} {
		builtins[mCtx+n] = func(x *Exec, s *State, r *Value, a []*Value, c *ast.CallExpr) []*Value { return []*Value{r} }
	}
	builtins[mCtx+"WithBlockHeight"] = func(x *Exec, s *State, r *Value, a []*Value, c *ast.CallExpr) []*Value {
		id, w := x.ctxWorld(s, r)
		_ = id
		nw := w.Clone()
		nw.Height = a[0].T
		x.note("ctx.WithBlockHeight creates a detached world copy (writes through it are not propagated)")
		return []*Value{{K: KCtx, Typ: r.Typ, W: s.NewWorldID(nw)}}
	}
	builtins[mCtx+"WithBlockTime"] = func(x *Exec, s *State, r *Value, a []*Value, c *ast.CallExpr) []*Value {
		_, w := x.ctxWorld(s, r)
		nw := w.Clone()
		nw.Time = a[0].T
		x.note("ctx.WithBlockTime creates a detached world copy (writes through it are not propagated)")
		return []*Value{{K: KCtx, Typ: r.Typ, W: s.NewWorldID(nw)}}
	}
	builtins[mCtx+"CacheContext"] = func(x *Exec, s *State, r *Value, a []*Value, c *ast.CallExpr) []*Value {
		id, w := x.ctxWorld(s, r)
		child := s.NewWorldID(w)
		wc := &Value{K: KFunc, Typ: x.resType(c, 1), Fn: &Closure{}, Dyn: &Value{K: KOpaque, Module: "builtin:writeCache", W: child, Cell: id}}
		return []*Value{{K: KCtx, Typ: r.Typ, W: child}, wc}
	}
	builtins["builtin:writeCache"] = nil // handled in callFuncValue
	reg([]string{pSdk + "UnwrapSDKContext", pSdk + "WrapSDKContext"}, func(x *Exec, s *State, r *Value, a []*Value, c *ast.CallExpr) []*Value {
		return []*Value{{K: KCtx, Typ: x.resType(c, 0), W: a[0].W}}
	})
	// events / telemetry / logging: no effect
	noop := func(x *Exec, s *State, r *Value, a []*Value, c *ast.CallExpr) []*Value {
		t := x.cur.info.TypeOf(c)
		if t == nil {
			return nil
		}
		if tup, ok := t.(*types.Tuple); ok {
			var out []*Value
			for i := 0; i < tup.Len(); i++ {
				out = append(out, x.freshValue(tup.At(i).Type(), "noop", s))
			}
			return out
		}
		if b, ok := t.(*types.Basic); ok && b.Kind() == types.Invalid {
			return nil
		}
		return []*Value{{K: KOpaque, Typ: t}}
	}
	reg([]string{"(*github.com/cosmos/cosmos-sdk/types.EventManager).EmitEvent", "(*github.com/cosmos/cosmos-sdk/types.EventManager).EmitEvents",
		"(*github.com/cosmos/cosmos-sdk/types.EventManager).EmitTypedEvent", "(*github.com/cosmos/cosmos-sdk/types.EventManager).EmitTypedEvents",
		pSdk + "NewEvent", pSdk + "NewAttribute", "github.com/cosmos/cosmos-sdk/telemetry.MeasureSince", "github.com/cosmos/cosmos-sdk/telemetry.ModuleMeasureSince",
		"github.com/cosmos/cosmos-sdk/telemetry.IncrCounter", "github.com/cosmos/cosmos-sdk/telemetry.SetGauge", "github.com/cosmos/cosmos-sdk/telemetry.IncrCounterWithLabels",
		"github.com/cosmos/cosmos-sdk/telemetry.SetGaugeWithLabels", "github.com/cosmos/cosmos-sdk/telemetry.NewLabel",
		"iface:Logger.Error", "iface:Logger.Info", "iface:Logger.Debug", "iface:Logger.With"}, noop)

	// ---------- KVStore ----------
	builtins["iface:KVStore.Get"] = func(x *Exec, s *State, r *Value, a []*Value, c *ast.CallExpr) []*Value {
		return []*Value{x.storeGet(s, x.asStore(s, r), a[0])}
	}
	builtins["iface:KVStore.Has"] = func(x *Exec, s *State, r *Value, a []*Value, c *ast.CallExpr) []*Value {
		return []*Value{prim(x.storeHas(s, x.asStore(s, r), a[0]), tBool)}
	}
	builtins["iface:KVStore.Set"] = func(x *Exec, s *State, r *Value, a []*Value, c *ast.CallExpr) []*Value {
		x.storeSet(s, x.asStore(s, r), a[0], a[1])
		return nil
	}
	builtins["iface:KVStore.Delete"] = func(x *Exec, s *State, r *Value, a []*Value, c *ast.CallExpr) []*Value {
		x.storeDelete(s, x.asStore(s, r), a[0])
		return nil
	}
	for _, m := range []string{"Get", "Has", "Set", "Delete"} {
		builtins["(github.com/cosmos/cosmos-sdk/store/prefix.Store)."+m] = builtins["iface:KVStore."+m]
	}
	builtins["github.com/cosmos/cosmos-sdk/store/prefix.NewStore"] = func(x *Exec, s *State, r *Value, a []*Value, c *ast.CallExpr) []*Value {
		h := x.asStore(s, a[0])
		var segs []KeySeg
		segs = append(segs, h.prefix()...)
		if a[1].K == KBytes {
			segs = append(segs, x.bytesSegs(a[1].B)...)
		}
		return []*Value{{K: KStoreH, Typ: x.resType(c, 0), W: h.W, Module: h.Module, B: &Bytes{Kind: "key", Segs: normSegs(segs)}}}
	}
	iter := func(rev bool) builtinFn {
		return func(x *Exec, s *State, r *Value, a []*Value, c *ast.CallExpr) []*Value {
			h := x.asStore(s, a[0])
			var segs []KeySeg
			segs = append(segs, h.prefix()...)
			if len(a) > 1 && a[1].K == KBytes {
				segs = append(segs, x.bytesSegs(a[1].B)...)
			}
			x.noteIter(h.Module, normSegs(segs))
			return []*Value{{K: KIter, Typ: x.resType(c, 0), W: h.W, Module: h.Module, It: &IterState{Module: h.Module, Prefix: normSegs(segs), Rev: rev}}}
		}
	}
	reg([]string{pSdk + "KVStorePrefixIterator", "github.com/cosmos/cosmos-sdk/store/types.KVStorePrefixIterator"}, iter(false))
	reg([]string{pSdk + "KVStoreReversePrefixIterator", "github.com/cosmos/cosmos-sdk/store/types.KVStoreReversePrefixIterator"}, iter(true))
	reg([]string{"iface:KVStore.Iterator", "(github.com/cosmos/cosmos-sdk/store/prefix.Store).Iterator"}, func(x *Exec, s *State, r *Value, a []*Value, c *ast.CallExpr) []*Value {
		h := x.asStore(s, r)
		x.noteIter(h.Module, h.prefix())
		return []*Value{{K: KIter, Typ: x.resType(c, 0), W: h.W, Module: h.Module, It: &IterState{Module: h.Module, Prefix: h.prefix()}}}
	})
	reg([]string{"iface:KVStore.ReverseIterator", "(github.com/cosmos/cosmos-sdk/store/prefix.Store).ReverseIterator"}, func(x *Exec, s *State, r *Value, a []*Value, c *ast.CallExpr) []*Value {
		h := x.asStore(s, r)
		x.noteIter(h.Module, h.prefix())
		return []*Value{{K: KIter, Typ: x.resType(c, 0), W: h.W, Module: h.Module, It: &IterState{Module: h.Module, Prefix: h.prefix(), Rev: true}}}
	})
	builtins["iface:Iterator.Valid"] = func(x *Exec, s *State, r *Value, a []*Value, c *ast.CallExpr) []*Value {
		return []*Value{prim(Fresh("iter.valid", SBool), tBool)}
	}
	builtins["iface:Iterator.Next"] = func(x *Exec, s *State, r *Value, a []*Value, c *ast.CallExpr) []*Value { return nil }
	builtins["iface:Iterator.Close"] = func(x *Exec, s *State, r *Value, a []*Value, c *ast.CallExpr) []*Value {
		return []*Value{prim(Zero, tErr)}
	}
	builtins["iface:Iterator.Error"] = builtins["iface:Iterator.Close"]
	builtins["iface:Iterator.Value"] = func(x *Exec, s *State, r *Value, a []*Value, c *ast.CallExpr) []*Value {
		return []*Value{x.iterValue(s, r, c)}
	}
	builtins["iface:Iterator.Key"] = func(x *Exec, s *State, r *Value, a []*Value, c *ast.CallExpr) []*Value {
		return []*Value{{K: KBytes, Typ: x.resType(c, 0), B: &Bytes{Kind: "opaque", T: Fresh("iter.key", SInt)}}}
	}

	// ---------- codec ----------
	marshal := func(x *Exec, s *State, r *Value, a []*Value, c *ast.CallExpr) []*Value {
		v := a[0]
		if v.K == KOpaque && v.Dyn != nil {
			v = v.Dyn
		}
		if v.K == KPtr {
			if v.Cell == 0 {
				x.fail(c.Pos(), "marshal of nil pointer")
			}
			v = s.Heap[v.Cell]
		}
		out := &Value{K: KBytes, Typ: types.NewSlice(types.Typ[types.Uint8]), B: &Bytes{Kind: "marshal", Val: x.deaden(s, v)}}
		t := x.cur.info.TypeOf(c)
		if tup, ok := t.(*types.Tuple); ok && tup.Len() == 2 {
			return []*Value{out, prim(Zero, tErr)}
		}
		return []*Value{out}
	}
	unmarshal := func(x *Exec, s *State, r *Value, a []*Value, c *ast.CallExpr) []*Value {
		dst := a[1]
		if dst.K == KOpaque && dst.Dyn != nil {
			dst = dst.Dyn
		}
		if dst.K != KPtr || dst.Cell == 0 {
			x.fail(c.Pos(), "unmarshal into non-pointer (%s)", dst.K)
		}
		pt := dst.Typ.Underlying().(*types.Pointer).Elem()
		if a[0].K != KBytes {
			x.fail(c.Pos(), "unmarshal from %s", a[0].K)
		}
		s.Heap[dst.Cell] = x.decode(s, a[0].B, pt)
		t := x.cur.info.TypeOf(c)
		if t != nil {
			if _, isTup := t.(*types.Tuple); !isTup {
				if b, ok := t.(*types.Basic); !ok || b.Kind() != types.Invalid {
					if isErrorType(t) {
						return []*Value{prim(Zero, tErr)}
					}
				}
			}
		}
		return nil
	}
	for _, in := range []string{"BinaryCodec", "Codec", "Marshaler"} {
		for _, m := range []string{"MustMarshal", "Marshal", "MustMarshalLengthPrefixed", "MarshalLengthPrefixed"} {
			builtins["iface:"+in+"."+m] = marshal
		}
		for _, m := range []string{"MustUnmarshal", "Unmarshal", "MustUnmarshalLengthPrefixed", "UnmarshalLengthPrefixed"} {
			builtins["iface:"+in+"."+m] = unmarshal
		}
	}
	for _, m := range []string{"MustMarshal", "Marshal"} {
		builtins["(*github.com/cosmos/cosmos-sdk/codec.ProtoCodec)."+m] = marshal
		builtins["(*github.com/cosmos/cosmos-sdk/codec.LegacyAmino)."+m] = marshal
	}
	for _, m := range []string{"MustUnmarshal", "Unmarshal"} {
		builtins["(*github.com/cosmos/cosmos-sdk/codec.ProtoCodec)."+m] = unmarshal
		builtins["(*github.com/cosmos/cosmos-sdk/codec.LegacyAmino)."+m] = unmarshal
	}
	reg([]string{pSdk + "Uint64ToBigEndian"}, func(x *Exec, s *State, r *Value, a []*Value, c *ast.CallExpr) []*Value {
		return []*Value{{K: KBytes, Typ: x.resType(c, 0), B: &Bytes{Kind: "u64be", T: a[0].T}}}
	})
	builtins["(encoding/binary.bigEndian).PutUint64"] = func(x *Exec, s *State, r *Value, a []*Value, c *ast.CallExpr) []*Value {
		x.assignTo(s, c.Args[0], &Value{K: KBytes, Typ: a[0].Typ, B: &Bytes{Kind: "u64be", T: a[1].T}})
		return nil
	}
	reg([]string{pSdk + "BigEndianToUint64", "(encoding/binary.bigEndian).Uint64"}, func(x *Exec, s *State, r *Value, a []*Value, c *ast.CallExpr) []*Value {
		b := a[0].B
		switch b.Kind {
		case "u64be":
			return []*Value{prim(b.T, tU64)}
		case "storeval":
			v := selectN(b.Snap.leaf("$u64", SInt), b.Keys)
			s.Assume(rangeFact(tU64, v))
			if b.NilT != nil {
				v = Ite(b.NilT, Zero, v)
			}
			return []*Value{prim(v, tU64)}
		}
		v := App("u64.of_bytes", SInt, bytesIdent(b))
		s.Assume(rangeFact(tU64, v))
		return []*Value{prim(v, tU64)}
	})
}

func (x *Exec) asStore(s *State, v *Value) *Value {
	if v.K == KStoreH {
		return v
	}
	if v.K == KOpaque && v.Dyn != nil && v.Dyn.K == KStoreH {
		return v.Dyn
	}
	panic(execPanic{"KVStore operation on a value that is not a store handle"})
}

// iterValue: the value under an arbitrary present key of the iterated family (if the family can be identified).
func (x *Exec) iterValue(s *State, it *Value, c *ast.CallExpr) *Value {
	bt := types.NewSlice(types.Typ[types.Uint8])
	if it.K == KOpaque && it.Dyn != nil {
		it = it.Dyn
	}
	if it.K == KIter && it.It != nil {
		if fam, nk, ok := x.familyForPrefix(s, it); ok {
			w := s.Worlds[it.W]
			f := w.fam(fam, nk)
			keys := make([]*Term, nk)
			// leading key components fixed by the prefix are kept; the rest are fresh
			fixed := 0
			for _, sg := range it.It.Prefix {
				if sg.T != nil && fixed < nk {
					keys[fixed] = sg.T
					fixed++
				}
			}
			for i := fixed; i < nk; i++ {
				keys[i] = Fresh("iter.k", SInt)
			}
			s.Assume(selectN(f.Has, keys))
			return &Value{K: KBytes, Typ: bt, B: &Bytes{Kind: "storeval", Fam: fam, Keys: keys, Snap: f, NilT: False}}
		}
	}
	return &Value{K: KBytes, Typ: bt, B: &Bytes{Kind: "opaque", T: Fresh("iter.val", SInt), NilT: False}}
}

// familyForPrefix finds the unique known family of the module whose id extends the iterator's prefix.
func (x *Exec) familyForPrefix(s *State, it *Value) (string, int, bool) {
	var sb strings.Builder
	sb.WriteString(it.It.Module + "/")
	for _, sg := range it.It.Prefix {
		if sg.T == nil {
			sb.WriteString(hex.EncodeToString(sg.Const))
		} else {
			sb.WriteString("{" + sg.Kind + "}")
		}
	}
	pre := sb.String()
	w := s.Worlds[it.W]
	found := ""
	nk := 0
	for id, f := range w.Fams {
		if strings.HasPrefix(id, pre) {
			if found != "" && found != id {
				return "", 0, false
			}
			found, nk = id, f.NKeys
		}
	}
	if found == "" {
		for id, n := range x.Pr.KnownFams {
			if strings.HasPrefix(id, pre) {
				if found != "" && found != id {
					return "", 0, false
				}
				found, nk = id, n
			}
		}
	}
	return found, nk, found != ""
}

func init() {
	// utils.SafeMath(f, onOverflow): f runs; if an SDK big-number overflow panic occurs inside it, onOverflow runs instead
	// (on the state reached so far — f only assigns captured results here). Overflow is modelled as an unconstrained choice.
	builtins["github.com/comdex-official/comdex/types.SafeMath"] = func(x *Exec, s *State, r *Value, a []*Value, c *ast.CallExpr) []*Value {
		if a[0].K != KFunc || a[0].Fn == nil || a[0].Fn.Lit == nil || a[1].K != KFunc || a[1].Fn == nil || a[1].Fn.Lit == nil {
			x.fail(c.Pos(), "SafeMath with non-literal functions")
		}
		ovf := Fresh("safemath.overflow", SBool)
		sa := s.Clone()
		sa.Assume(Not(ovf))
		x.callClosure(sa, a[0].Fn, nil, c.Pos())
		sb := s.Clone()
		sb.Assume(ovf)
		x.callClosure(sb, a[1].Fn, nil, c.Pos())
		m := x.merge(Not(ovf), sa, sb)
		if m == nil {
			s.PC = False
			return nil
		}
		*s = *m
		x.Trusted["utils.SafeMath: an overflow panic of the SDK big numbers inside f is an unconstrained choice; f's partial writes before the panic are not modelled (f only assigns results)"]++
		return nil
	}
}

func init() {
	// sort.Search(n, f): the smallest index in [0,n] at which f becomes true (binary search; assumes f monotone).
	builtins["sort.Search"] = func(x *Exec, s *State, r *Value, a []*Value, c *ast.CallExpr) []*Value {
		n := a[0].T
		res := Fresh("sort.search", SInt)
		s.Assume(And(Le(Zero, res), Le(res, n)))
		if a[1].K == KFunc && a[1].Fn != nil && a[1].Fn.Lit != nil {
			evalAt := func(i *Term, guard *Term) *Term {
				tmp := s.Clone()
				tmp.Assume(guard)
				x.specMode++
				vs := x.callClosure(tmp, a[1].Fn, []*Value{prim(i, tGoInt)}, c.Pos())
				x.specMode--
				if len(vs) == 1 && vs[0].K == KPrim && vs[0].T.S == SBool {
					return vs[0].T
				}
				return nil
			}
			if t := evalAt(res, Lt(res, n)); t != nil {
				s.Assume(Implies(Lt(res, n), t))
			}
			if t := evalAt(Sub(res, One), Gt(res, Zero)); t != nil {
				s.Assume(Implies(Gt(res, Zero), Not(t)))
			}
		}
		x.Trusted["sort.Search returns the least index satisfying the predicate (the predicate is monotone over the sorted slice)"]++
		return []*Value{prim(res, tGoInt)}
	}
}

func init() {
	// x/params Subspace: the parameter set of a module is one record of that module's state
	ps := "(github.com/cosmos/cosmos-sdk/x/params/types.Subspace)."
	target := func(x *Exec, s *State, v *Value) (*Value, bool) {
		if v == nil {
			return nil, false
		}
		if v.K == KOpaque && v.Dyn != nil {
			v = v.Dyn
		}
		if v.K == KPtr && v.Cell != 0 {
			return v, true
		}
		return nil, false
	}
	famOf := func(x *Exec, v *Value, extra string) string {
		tn := "params"
		if pt, ok := v.Typ.Underlying().(*types.Pointer); ok {
			tn = strings.ReplaceAll(types.TypeString(pt.Elem(), func(p *types.Package) string { return p.Name() }), ".", "_")
		}
		return moduleOf(x.cur.pkg.Path) + "/params." + sanitize(tn) + extra
	}
	builtins[ps+"GetParamSet"] = func(x *Exec, s *State, r *Value, a []*Value, c *ast.CallExpr) []*Value {
		id, w := x.ctxWorld(s, a[0])
		_ = id
		if p, ok := target(x, s, a[1]); ok {
			f := w.fam(famOf(x, p, ""), 0)
			pt := p.Typ.Underlying().(*types.Pointer).Elem()
			v := buildValue(pt, "", nil, func(path string, srt *Sort, lt types.Type) *Term { return f.leaf(path, srt) }, 0)
			v = x.liven(s, v)
			x.assumeElemFacts(s, v)
			s.Heap[p.Cell] = v
		}
		return nil
	}
	builtins[ps+"GetParamSetIfExists"] = builtins[ps+"GetParamSet"]
	builtins[ps+"SetParamSet"] = func(x *Exec, s *State, r *Value, a []*Value, c *ast.CallExpr) []*Value {
		id, _ := x.ctxWorld(s, a[0])
		if p, ok := target(x, s, a[1]); ok {
			w := s.MutWorld(id)
			fid := famOf(x, p, "")
			f := w.fam(fid, 0).clone()
			w.Fams[fid] = f
			x.writeLeaves(s, f, nil, "", x.deaden(s, s.Heap[p.Cell]))
		}
		return nil
	}
	builtins[ps+"Get"] = func(x *Exec, s *State, r *Value, a []*Value, c *ast.CallExpr) []*Value {
		_, w := x.ctxWorld(s, a[0])
		if p, ok := target(x, s, a[2]); ok {
			kid := "opaque"
			if a[1].K == KBytes && a[1].B.Kind == "key" && len(a[1].B.Segs) == 1 && a[1].B.Segs[0].T == nil {
				kid = hex.EncodeToString(a[1].B.Segs[0].Const)
			}
			f := w.fam(famOf(x, p, "."+kid), 0)
			pt := p.Typ.Underlying().(*types.Pointer).Elem()
			v := buildValue(pt, "", nil, func(path string, srt *Sort, lt types.Type) *Term { return f.leaf(path, srt) }, 0)
			v = x.liven(s, v)
			x.assumeElemFacts(s, v)
			s.Heap[p.Cell] = v
		}
		return nil
	}
}
