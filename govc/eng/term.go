package eng

import (
	"fmt"
	"math/big"
	"sort"
	"strings"
)

// ---------- sorts ----------

type Sort struct {
	Kind string // "Int", "Bool", "Array"
	Idx  *Sort
	Elem *Sort
}

var (
	SInt  = &Sort{Kind: "Int"}
	SBool = &Sort{Kind: "Bool"}
	arrS  = map[[2]*Sort]*Sort{}
)

func SArr(idx, elem *Sort) *Sort {
	k := [2]*Sort{idx, elem}
	if s, ok := arrS[k]; ok {
		return s
	}
	s := &Sort{Kind: "Array", Idx: idx, Elem: elem}
	arrS[k] = s
	return s
}

func (s *Sort) String() string {
	if s.Kind == "Array" {
		return "(Array " + s.Idx.String() + " " + s.Elem.String() + ")"
	}
	return s.Kind
}

// ---------- terms (hash-consed DAG) ----------

type Term struct {
	ID   int
	Op   string // "var","int","true","false", or SMT operator / uninterpreted function name
	Name string // for var and uf
	Val  *big.Int
	Args []*Term
	S    *Sort
	// for quantifiers: Args[0] is body; Bound are bound vars
	Bound []*Term
}

type TermStore struct {
	tab   map[string]*Term
	n     int
	vars  map[string]*Term
	ufs   map[string]*UF
	fresh map[string]int
}

type UF struct {
	Name string
	Args []*Sort
	Res  *Sort
}

var TS = NewTermStore()

func NewTermStore() *TermStore {
	return &TermStore{tab: map[string]*Term{}, vars: map[string]*Term{}, ufs: map[string]*UF{}, fresh: map[string]int{}}
}

func (ts *TermStore) mk(op string, s *Sort, name string, val *big.Int, args ...*Term) *Term {
	var sb strings.Builder
	sb.WriteString(op)
	sb.WriteByte('|')
	sb.WriteString(name)
	if val != nil {
		sb.WriteByte('#')
		sb.WriteString(val.String())
	}
	for _, a := range args {
		fmt.Fprintf(&sb, ",%d", a.ID)
	}
	if op == "const-array" {
		sb.WriteString(s.String())
	}
	k := sb.String()
	if t, ok := ts.tab[k]; ok {
		return t
	}
	ts.n++
	t := &Term{ID: ts.n, Op: op, Name: name, Val: val, Args: args, S: s}
	ts.tab[k] = t
	return t
}

func sanitize(n string) string {
	var sb strings.Builder
	for _, r := range n {
		switch {
		case r >= 'a' && r <= 'z', r >= 'A' && r <= 'Z', r >= '0' && r <= '9', r == '_', r == '.', r == '!', r == '$':
			sb.WriteRune(r)
		default:
			sb.WriteByte('_')
		}
	}
	return sb.String()
}

// Var returns the variable with this exact name (one sort per name).
func Var(name string, s *Sort) *Term {
	name = sanitize(name)
	if t, ok := TS.vars[name]; ok {
		if t.S != s {
			return Var(name+"$"+strings.NewReplacer("(", "", ")", "", " ", "_").Replace(s.String()), s)
		}
		return t
	}
	t := TS.mk("var", s, name, nil)
	TS.vars[name] = t
	return t
}

// Fresh returns a new variable whose name starts with prefix.
func Fresh(prefix string, s *Sort) *Term {
	prefix = sanitize(prefix)
	for {
		TS.fresh[prefix]++
		n := fmt.Sprintf("%s!%d", prefix, TS.fresh[prefix])
		if _, ok := TS.vars[n]; !ok {
			return Var(n, s)
		}
	}
}

func IntC(v int64) *Term     { return TS.mk("int", SInt, "", big.NewInt(v)) }
func BigC(v *big.Int) *Term  { return TS.mk("int", SInt, "", new(big.Int).Set(v)) }
func BoolC(b bool) *Term {
	if b {
		return True
	}
	return False
}

var (
	True  = TS.mk("true", SBool, "", nil)
	False = TS.mk("false", SBool, "", nil)
	Zero  = IntC(0)
	One   = IntC(1)
)

func Pow10(n int) *big.Int { return new(big.Int).Exp(big.NewInt(10), big.NewInt(int64(n)), nil) }
func Pow2(n int) *big.Int  { return new(big.Int).Lsh(big.NewInt(1), uint(n)) }

func (t *Term) IsConst() bool { return t.Op == "int" || t.Op == "true" || t.Op == "false" }
func (t *Term) IsInt() bool   { return t.Op == "int" }

func Not(a *Term) *Term {
	switch a.Op {
	case "true":
		return False
	case "false":
		return True
	case "not":
		return a.Args[0]
	}
	return TS.mk("not", SBool, "", nil, a)
}

func And(as ...*Term) *Term {
	var out []*Term
	seen := map[int]bool{}
	for _, a := range as {
		if a == nil || a.Op == "true" {
			continue
		}
		if a.Op == "false" {
			return False
		}
		if a.Op == "and" {
			for _, b := range a.Args {
				if !seen[b.ID] {
					seen[b.ID] = true
					out = append(out, b)
				}
			}
			continue
		}
		if !seen[a.ID] {
			seen[a.ID] = true
			out = append(out, a)
		}
	}
	for _, a := range out {
		if a.Op == "not" && seen[a.Args[0].ID] {
			return False
		}
	}
	if len(out) == 0 {
		return True
	}
	if len(out) == 1 {
		return out[0]
	}
	return TS.mk("and", SBool, "", nil, out...)
}

func Or(as ...*Term) *Term {
	var out []*Term
	seen := map[int]bool{}
	for _, a := range as {
		if a == nil || a.Op == "false" {
			continue
		}
		if a.Op == "true" {
			return True
		}
		if a.Op == "or" {
			for _, b := range a.Args {
				if !seen[b.ID] {
					seen[b.ID] = true
					out = append(out, b)
				}
			}
			continue
		}
		if !seen[a.ID] {
			seen[a.ID] = true
			out = append(out, a)
		}
	}
	for _, a := range out {
		if a.Op == "not" && seen[a.Args[0].ID] {
			return True
		}
	}
	if len(out) == 0 {
		return False
	}
	if len(out) == 1 {
		return out[0]
	}
	return TS.mk("or", SBool, "", nil, out...)
}

func Implies(a, b *Term) *Term { return Or(Not(a), b) }

func Ite(c, a, b *Term) *Term {
	if c.Op == "true" {
		return a
	}
	if c.Op == "false" {
		return b
	}
	if a == b {
		return a
	}
	if a.S == SBool {
		if a.Op == "true" && b.Op == "false" {
			return c
		}
		if a.Op == "false" && b.Op == "true" {
			return Not(c)
		}
		if a.Op == "true" {
			return Or(c, b)
		}
		if b.Op == "false" {
			return And(c, a)
		}
		if a.Op == "false" {
			return And(Not(c), b)
		}
		if b.Op == "true" {
			return Or(Not(c), a)
		}
	}
	if c.Op == "not" {
		return Ite(c.Args[0], b, a)
	}
	// ite(c, store(x,i,v1), store(x,i,v2)) = store(x, i, ite(c,v1,v2))
	if a.Op == "store" && b.Op == "store" && a.Args[0] == b.Args[0] && a.Args[1] == b.Args[1] {
		return Store(a.Args[0], a.Args[1], Ite(c, a.Args[2], b.Args[2]))
	}
	return TS.mk("ite", a.S, "", nil, c, a, b)
}

func Eq(a, b *Term) *Term {
	if a == b {
		return True
	}
	if a.IsInt() && b.IsInt() {
		return BoolC(a.Val.Cmp(b.Val) == 0)
	}
	if a.S == SBool {
		if a.Op == "true" {
			return b
		}
		if b.Op == "true" {
			return a
		}
		if a.Op == "false" {
			return Not(b)
		}
		if b.Op == "false" {
			return Not(a)
		}
	}
	if a.ID > b.ID {
		a, b = b, a
	}
	return TS.mk("=", SBool, "", nil, a, b)
}

func Neq(a, b *Term) *Term { return Not(Eq(a, b)) }

func cmp(op string, a, b *Term) *Term {
	if a.IsInt() && b.IsInt() {
		c := a.Val.Cmp(b.Val)
		switch op {
		case "<":
			return BoolC(c < 0)
		case "<=":
			return BoolC(c <= 0)
		case ">":
			return BoolC(c > 0)
		case ">=":
			return BoolC(c >= 0)
		}
	}
	if a == b {
		return BoolC(op == "<=" || op == ">=")
	}
	return TS.mk(op, SBool, "", nil, a, b)
}
func Lt(a, b *Term) *Term { return cmp("<", a, b) }
func Le(a, b *Term) *Term { return cmp("<=", a, b) }
func Gt(a, b *Term) *Term { return cmp("<", b, a) }
func Ge(a, b *Term) *Term { return cmp("<=", b, a) }

func Add(a, b *Term) *Term {
	if a.IsInt() && b.IsInt() {
		return BigC(new(big.Int).Add(a.Val, b.Val))
	}
	if a.IsInt() && !b.IsInt() {
		a, b = b, a
	}
	// (x + c1) + c2  /  (x - c1) + c2
	if b.IsInt() && (a.Op == "+" || a.Op == "-") && a.Args[1].IsInt() {
		c := new(big.Int).Set(a.Args[1].Val)
		if a.Op == "-" {
			c.Neg(c)
		}
		c.Add(c, b.Val)
		return Add(a.Args[0], BigC(c))
	}
	if a.IsInt() && a.Val.Sign() == 0 {
		return b
	}
	if b.IsInt() && b.Val.Sign() == 0 {
		return a
	}
	if b.IsInt() && b.Val.Sign() < 0 {
		return TS.mk("-", SInt, "", nil, a, BigC(new(big.Int).Neg(b.Val)))
	}
	return TS.mk("+", SInt, "", nil, a, b)
}
func Sub(a, b *Term) *Term {
	if a.IsInt() && b.IsInt() {
		return BigC(new(big.Int).Sub(a.Val, b.Val))
	}
	if b.IsInt() && !a.IsInt() {
		return Add(a, BigC(new(big.Int).Neg(b.Val)))
	}
	if b.IsInt() && b.Val.Sign() == 0 {
		return a
	}
	if a == b {
		return Zero
	}
	return TS.mk("-", SInt, "", nil, a, b)
}
func Neg(a *Term) *Term { return Sub(Zero, a) }
func Mul(a, b *Term) *Term {
	if a.IsInt() && b.IsInt() {
		return BigC(new(big.Int).Mul(a.Val, b.Val))
	}
	if a.IsInt() && a.Val.Sign() == 0 || b.IsInt() && b.Val.Sign() == 0 {
		return Zero
	}
	if a.IsInt() && a.Val.Cmp(big.NewInt(1)) == 0 {
		return b
	}
	if b.IsInt() && b.Val.Cmp(big.NewInt(1)) == 0 {
		return a
	}
	if b.IsInt() && !a.IsInt() {
		a, b = b, a
	}
	return TS.mk("*", SInt, "", nil, a, b)
}

// Div and Mod are SMT-LIB euclidean div/mod (floor for positive divisor).
func Div(a, b *Term) *Term {
	if a.IsInt() && b.IsInt() && b.Val.Sign() != 0 {
		q, m := new(big.Int), new(big.Int)
		q.DivMod(a.Val, b.Val, m) // euclidean
		return BigC(q)
	}
	if b.IsInt() && b.Val.Cmp(big.NewInt(1)) == 0 {
		return a
	}
	return TS.mk("div", SInt, "", nil, a, b)
}
func Mod(a, b *Term) *Term {
	if a.IsInt() && b.IsInt() && b.Val.Sign() != 0 {
		q, m := new(big.Int), new(big.Int)
		q.DivMod(a.Val, b.Val, m)
		return BigC(m)
	}
	return TS.mk("mod", SInt, "", nil, a, b)
}

func Abs(a *Term) *Term { return Ite(Ge(a, Zero), a, Neg(a)) }

// TDiv is division truncated toward zero (Go / and big.Int.Quo).
func TDiv(a, b *Term) *Term {
	if a.IsInt() && b.IsInt() && b.Val.Sign() != 0 {
		return BigC(new(big.Int).Quo(a.Val, b.Val))
	}
	// both non-negative known syntactically?
	return Ite(And(Ge(a, Zero), Gt(b, Zero)), Div(a, b),
		Ite(Ge(a, Zero), Neg(Div(a, Neg(b))),
			Ite(Gt(b, Zero), Neg(Div(Neg(a), b)), Div(Neg(a), Neg(b)))))
}

// TRem is the remainder matching TDiv (Go %).
func TRem(a, b *Term) *Term { return Sub(a, Mul(b, TDiv(a, b))) }

func Select(a, i *Term) *Term {
	if a.S.Kind != "Array" {
		panic("select on non-array " + a.S.String())
	}
	// read-over-write simplification
	for a.Op == "store" {
		j := a.Args[1]
		if j == i {
			return a.Args[2]
		}
		if j.IsInt() && i.IsInt() {
			a = a.Args[0]
			continue
		}
		break
	}
	if a.Op == "const-array" {
		return a.Args[0]
	}
	return TS.mk("select", a.S.Elem, "", nil, a, i)
}

func Store(a, i, v *Term) *Term {
	if a.S.Kind != "Array" {
		panic("store on non-array")
	}
	if v.S != a.S.Elem {
		panic(fmt.Sprintf("store sort mismatch: array %s value %s", a.S, v.S))
	}
	if a.Op == "store" && a.Args[1] == i {
		a = a.Args[0]
	}
	return TS.mk("store", a.S, "", nil, a, i, v)
}

func ConstArray(s *Sort, v *Term) *Term { return TS.mk("const-array", s, "", nil, v) }

// App applies an uninterpreted function.
func App(name string, res *Sort, args ...*Term) *Term {
	name = sanitize(name)
	if _, ok := TS.ufs[name]; !ok {
		u := &UF{Name: name, Res: res}
		for _, a := range args {
			u.Args = append(u.Args, a.S)
		}
		TS.ufs[name] = u
	}
	return TS.mk("uf", res, name, nil, args...)
}

func Forall(bound []*Term, body *Term) *Term {
	if body.Op == "true" {
		return True
	}
	t := TS.mk("forall", SBool, "", nil, append([]*Term{body}, bound...)...)
	t.Bound = bound
	return t
}
func Exists(bound []*Term, body *Term) *Term {
	if body.Op == "false" {
		return False
	}
	t := TS.mk("exists", SBool, "", nil, append([]*Term{body}, bound...)...)
	t.Bound = bound
	return t
}

// Subst replaces variables (by term identity) in t.
func Subst(t *Term, m map[*Term]*Term) *Term {
	memo := map[*Term]*Term{}
	var rec func(t *Term) *Term
	rec = func(t *Term) *Term {
		if r, ok := m[t]; ok {
			return r
		}
		if len(t.Args) == 0 {
			return t
		}
		if r, ok := memo[t]; ok {
			return r
		}
		args := make([]*Term, len(t.Args))
		ch := false
		for i, a := range t.Args {
			args[i] = rec(a)
			if args[i] != a {
				ch = true
			}
		}
		r := t
		if ch {
			r = rebuild(t, args)
		}
		memo[t] = r
		return r
	}
	return rec(t)
}

func rebuild(t *Term, a []*Term) *Term {
	switch t.Op {
	case "not":
		return Not(a[0])
	case "and":
		return And(a...)
	case "or":
		return Or(a...)
	case "ite":
		return Ite(a[0], a[1], a[2])
	case "=":
		return Eq(a[0], a[1])
	case "<":
		return Lt(a[0], a[1])
	case "<=":
		return Le(a[0], a[1])
	case "+":
		return Add(a[0], a[1])
	case "-":
		return Sub(a[0], a[1])
	case "*":
		return Mul(a[0], a[1])
	case "div":
		return Div(a[0], a[1])
	case "mod":
		return Mod(a[0], a[1])
	case "select":
		return Select(a[0], a[1])
	case "store":
		return Store(a[0], a[1], a[2])
	case "const-array":
		return ConstArray(t.S, a[0])
	case "uf":
		return TS.mk("uf", t.S, t.Name, nil, a...)
	case "forall":
		return Forall(a[1:], a[0])
	case "exists":
		return Exists(a[1:], a[0])
	}
	panic("rebuild: " + t.Op)
}

// ---------- printing ----------

type printer struct {
	fb    map[*Term]map[*Term]bool
	refs  map[*Term]int
	names map[*Term]string
	vars  map[string]*Term
	ufs   map[string]*UF
	defs  []string
	bound map[*Term]bool
}

func (p *printer) count(t *Term) {
	p.refs[t]++
	if p.refs[t] > 1 {
		return
	}
	if t.Op == "var" {
		return
	}
	if t.Op == "uf" {
		p.ufs[t.Name] = TS.ufs[t.Name]
	}
	for _, a := range t.Args {
		p.count(a)
	}
}

// hasBound reports whether t has a free occurrence of a quantifier-bound variable.
func (p *printer) hasBound(t *Term, memo map[*Term]bool) bool {
	return len(p.freeBound(t)) > 0
}

func (p *printer) freeBound(t *Term) map[*Term]bool {
	if p.fb == nil {
		p.fb = map[*Term]map[*Term]bool{}
	}
	if r, ok := p.fb[t]; ok {
		return r
	}
	var r map[*Term]bool
	if p.bound[t] {
		r = map[*Term]bool{t: true}
	} else {
		for _, a := range t.Args {
			fa := p.freeBound(a)
			if len(fa) == 0 {
				continue
			}
			if r == nil {
				r = map[*Term]bool{}
			}
			for k := range fa {
				r[k] = true
			}
		}
		if len(t.Bound) > 0 && r != nil {
			for _, b := range t.Bound {
				delete(r, b)
			}
		}
	}
	p.fb[t] = r
	return r
}

func intLit(v *big.Int) string {
	if v.Sign() < 0 {
		return "(- " + new(big.Int).Neg(v).String() + ")"
	}
	return v.String()
}

func (p *printer) expr(t *Term, hb map[*Term]bool) string {
	if n, ok := p.names[t]; ok {
		return n
	}
	var s string
	switch t.Op {
	case "var":
		if !p.bound[t] {
			p.vars[t.Name] = t
		}
		return t.Name
	case "int":
		return intLit(t.Val)
	case "true", "false":
		return t.Op
	case "const-array":
		s = "((as const " + t.S.String() + ") " + p.expr(t.Args[0], hb) + ")"
	case "uf":
		if len(t.Args) == 0 {
			s = t.Name
		} else {
			parts := []string{t.Name}
			for _, a := range t.Args {
				parts = append(parts, p.expr(a, hb))
			}
			s = "(" + strings.Join(parts, " ") + ")"
		}
	case "forall", "exists":
		s = p.quant(t, hb, map[*Term]string{})
	default:
		parts := []string{t.Op}
		for _, a := range t.Args {
			parts = append(parts, p.expr(a, hb))
		}
		s = "(" + strings.Join(parts, " ") + ")"
	}
	// share via define-fun when referenced more than once and closed
	if p.refs[t] > 1 && len(t.Args) > 0 && !p.hasBound(t, hb) {
		n := fmt.Sprintf("t!%d", t.ID)
		p.defs = append(p.defs, fmt.Sprintf("(define-fun %s () %s %s)", n, t.S.String(), s))
		p.names[t] = n
		return n
	}
	return s
}

// quant prints a quantifier; shared subterms that mention bound variables are bound with let (no exponential unfolding).
func (p *printer) quant(t *Term, hb map[*Term]bool, outer map[*Term]string) string {
	local := map[*Term]string{}
	for k, v := range outer {
		local[k] = v
	}
	type bind struct{ n, e string }
	var binds []bind
	var rec func(u *Term) string
	rec = func(u *Term) string {
		if n, ok := p.names[u]; ok {
			return n
		}
		if n, ok := local[u]; ok {
			return n
		}
		if !p.hasBound(u, hb) {
			return p.expr(u, hb)
		}
		var str string
		switch u.Op {
		case "var":
			return u.Name
		case "forall", "exists":
			str = p.quant(u, hb, local)
		case "const-array":
			str = "((as const " + u.S.String() + ") " + rec(u.Args[0]) + ")"
		case "uf":
			parts := []string{u.Name}
			for _, a := range u.Args {
				parts = append(parts, rec(a))
			}
			str = "(" + strings.Join(parts, " ") + ")"
		default:
			parts := []string{u.Op}
			for _, a := range u.Args {
				parts = append(parts, rec(a))
			}
			str = "(" + strings.Join(parts, " ") + ")"
		}
		if p.refs[u] > 1 && len(u.Args) > 0 && u.Op != "forall" && u.Op != "exists" {
			n := fmt.Sprintf("l!%d", u.ID)
			binds = append(binds, bind{n, str})
			local[u] = n
			return n
		}
		return str
	}
	body := rec(t.Args[0])
	for i := len(binds) - 1; i >= 0; i-- {
		body = "(let ((" + binds[i].n + " " + binds[i].e + ")) " + body + ")"
	}
	var bs []string
	for _, b := range t.Bound {
		bs = append(bs, "("+b.Name+" "+b.S.String()+")")
	}
	return "(" + t.Op + " (" + strings.Join(bs, " ") + ") " + body + ")"
}

// SMTScript renders assertions as a complete SMT-LIB2 script (check-sat + get-model).
func SMTScript(asserts []*Term, wantModel bool, header string) string {
	p := &printer{refs: map[*Term]int{}, names: map[*Term]string{}, vars: map[string]*Term{}, ufs: map[string]*UF{}, bound: map[*Term]bool{}}
	var markBound func(t *Term, seen map[*Term]bool)
	markBound = func(t *Term, seen map[*Term]bool) {
		if seen[t] {
			return
		}
		seen[t] = true
		for _, b := range t.Bound {
			p.bound[b] = true
		}
		for _, a := range t.Args {
			markBound(a, seen)
		}
	}
	seen := map[*Term]bool{}
	for _, a := range asserts {
		markBound(a, seen)
		p.count(a)
	}
	hb := map[*Term]bool{}
	var body []string
	for _, a := range asserts {
		e := p.expr(a, hb)
		body = append(body, "(assert "+e+")")
	}
	var sb strings.Builder
	sb.WriteString(header)
	if wantModel {
		sb.WriteString("(set-option :produce-models true)\n")
	}
	sb.WriteString("(set-logic ALL)\n")
	var vn []string
	for n := range p.vars {
		vn = append(vn, n)
	}
	sort.Strings(vn)
	for _, n := range vn {
		fmt.Fprintf(&sb, "(declare-fun %s () %s)\n", n, p.vars[n].S.String())
	}
	var un []string
	for n := range p.ufs {
		un = append(un, n)
	}
	sort.Strings(un)
	for _, n := range un {
		u := p.ufs[n]
		var as []string
		for _, a := range u.Args {
			as = append(as, a.String())
		}
		fmt.Fprintf(&sb, "(declare-fun %s (%s) %s)\n", n, strings.Join(as, " "), u.Res.String())
	}
	// defs are appended in dependency order by construction (post-order)
	for _, d := range p.defs {
		sb.WriteString(d)
		sb.WriteByte('\n')
	}
	for _, b := range body {
		sb.WriteString(b)
		sb.WriteByte('\n')
	}
	sb.WriteString("(check-sat)\n")
	if wantModel {
		sb.WriteString("(get-model)\n")
	}
	return sb.String()
}

// TermString renders a single term (for evidence samples / debugging), bounded in size.
func TermString(t *Term, max int) string {
	p := &printer{refs: map[*Term]int{}, names: map[*Term]string{}, vars: map[string]*Term{}, ufs: map[string]*UF{}, bound: map[*Term]bool{}}
	s := p.expr(t, map[*Term]bool{})
	if len(s) > max {
		return s[:max] + "…"
	}
	return s
}
