package eng

import (
	"fmt"
	"go/ast"
	"go/types"
	"math/big"
	"strings"
)

type Kind int

const (
	KPrim Kind = iota
	KStruct
	KSlice
	KPtr    // live pointer: refers to a heap cell
	KOpt    // inline optional (pointer in stored / lifted position)
	KMap
	KBytes
	KFunc
	KCtx
	KStoreH // KVStore handle
	KIter
	KOpaque
	KTuple
)

func (k Kind) String() string {
	return [...]string{"prim", "struct", "slice", "ptr", "opt", "map", "bytes", "func", "ctx", "store", "iter", "opaque", "tuple"}[k]
}

type Value struct {
	K   Kind
	Typ types.Type
	T   *Term // KPrim; for KOpaque an identity term (Int) if any

	Fields []*Value // KStruct / KTuple
	// KSlice / KMap
	Len   *Term
	Elem  *Value // lifted element
	Conc  []*Value
	Has   *Term // KMap: Array K Bool
	// KPtr / KOpt
	NilT *Term
	Cell int
	Inl  *Value // KOpt pointee
	// KBytes
	B *Bytes
	// KFunc
	Fn *Closure
	// KCtx / KStoreH
	W      int
	Module string
	// KIter
	It *IterState
	// dynamic value of an interface, if known
	Dyn *Value
}

type Closure struct {
	Lit   *ast.FuncLit
	Decl  *FuncInfo
	Env   *Env
	Recv  *Value
	Info  *types.Info
	Pkg   *PkgInfo
}

type Bytes struct {
	Kind string // "key", "marshal", "u64be", "storeval", "opaque", "str"
	Segs []KeySeg
	Val  *Value
	NilT *Term
	// storeval
	Fam  string
	Keys []*Term
	Snap *FamState
	T    *Term // opaque identity / u64 value / str value
}

type KeySeg struct {
	Const []byte
	T     *Term
	Kind  string // "u64", "str", "addr", "bytes"
}

type IterState struct {
	Module string
	Prefix []KeySeg
	Rev    bool
	Tag    string
}

// ---------- type classification ----------

func isNamed(t types.Type, pkgSuffix, name string) bool {
	n, ok := t.(*types.Named)
	if !ok {
		return false
	}
	o := n.Obj()
	if o.Name() != name || o.Pkg() == nil {
		return false
	}
	return strings.HasSuffix(o.Pkg().Path(), pkgSuffix)
}

func namedPath(t types.Type) string {
	if p, ok := t.(*types.Pointer); ok {
		t = p.Elem()
	}
	n, ok := t.(*types.Named)
	if !ok || n.Obj().Pkg() == nil {
		return ""
	}
	return n.Obj().Pkg().Path() + "." + n.Obj().Name()
}

// primNamed lists named types modelled as a single Int leaf.
func primNamed(t types.Type) (string, bool) {
	switch namedPath(t) {
	case "cosmossdk.io/math.Int":
		return "sdkint", true
	case "cosmossdk.io/math.Uint":
		return "sdkuint", true
	case "cosmossdk.io/math.LegacyDec":
		return "dec", true
	case "time.Time":
		return "time", true
	case "github.com/cosmos/cosmos-sdk/types.AccAddress", "github.com/cosmos/cosmos-sdk/types.ValAddress":
		return "addr", true
	case "math/big.Int":
		return "bigint", true
	}
	return "", false
}

func isCtxType(t types.Type) bool {
	p := namedPath(t)
	return p == "github.com/cosmos/cosmos-sdk/types.Context" || p == "context.Context"
}

func isErrorType(t types.Type) bool {
	if n, ok := t.(*types.Named); ok && n.Obj().Pkg() == nil && n.Obj().Name() == "error" {
		return true
	}
	return false
}

// intRange returns the inclusive range of a Go basic integer type.
func intRange(b *types.Basic) (lo, hi *big.Int, ok bool) {
	bits, signed := 0, false
	switch b.Kind() {
	case types.Int, types.Int64, types.UntypedInt, types.UntypedRune:
		bits, signed = 64, true
	case types.Int32:
		bits, signed = 32, true
	case types.Int16:
		bits, signed = 16, true
	case types.Int8:
		bits, signed = 8, true
	case types.Uint, types.Uint64, types.Uintptr:
		bits = 64
	case types.Uint32:
		bits = 32
	case types.Uint16:
		bits = 16
	case types.Uint8:
		bits = 8
	default:
		return nil, nil, false
	}
	if b.Kind() == types.UntypedInt || b.Kind() == types.UntypedRune {
		return nil, nil, false
	}
	if signed {
		h := Pow2(bits - 1)
		return new(big.Int).Neg(h), new(big.Int).Sub(h, big.NewInt(1)), true
	}
	return big.NewInt(0), new(big.Int).Sub(Pow2(bits), big.NewInt(1)), true
}

// rangeFact returns the typing fact for a prim leaf of Go type t holding term x.
func rangeFact(t types.Type, x *Term) *Term {
	if x.S != SInt {
		return True
	}
	if k, ok := primNamed(t); ok {
		if k == "sdkuint" {
			return Ge(x, Zero)
		}
		return True
	}
	if b, ok := t.Underlying().(*types.Basic); ok {
		if lo, hi, ok := intRange(b); ok {
			return And(Le(BigC(lo), x), Le(x, BigC(hi)))
		}
	}
	return True
}

func wrapSort(base *Sort, lifts []*Sort) *Sort {
	s := base
	for i := len(lifts) - 1; i >= 0; i-- {
		s = SArr(lifts[i], s)
	}
	return s
}

// ---------- construction from types ----------

type leafFn func(path string, base *Sort, t types.Type) *Term

// buildValue makes a Value of Go type t whose leaves come from f. lifted says whether
// we are in a stored/lifted position (pointers become inline optionals).
func buildValue(t types.Type, path string, lifts []*Sort, f func(path string, s *Sort, t types.Type) *Term, depth int) *Value {
	if depth > 6 {
		return &Value{K: KOpaque, Typ: t}
	}
	if _, ok := primNamed(t); ok {
		return &Value{K: KPrim, Typ: t, T: f(path, wrapSort(SInt, lifts), t)}
	}
	if isCtxType(t) {
		return &Value{K: KCtx, Typ: t, W: 0}
	}
	if isErrorType(t) {
		return &Value{K: KPrim, Typ: t, T: f(path, wrapSort(SInt, lifts), t)}
	}
	switch u := t.Underlying().(type) {
	case *types.Basic:
		if u.Info()&types.IsBoolean != 0 {
			return &Value{K: KPrim, Typ: t, T: f(path, wrapSort(SBool, lifts), t)}
		}
		return &Value{K: KPrim, Typ: t, T: f(path, wrapSort(SInt, lifts), t)}
	case *types.Struct:
		v := &Value{K: KStruct, Typ: t}
		for i := 0; i < u.NumFields(); i++ {
			fl := u.Field(i)
			if strings.HasPrefix(fl.Name(), "XXX_") {
				v.Fields = append(v.Fields, &Value{K: KOpaque, Typ: fl.Type()})
				continue
			}
			v.Fields = append(v.Fields, buildValue(fl.Type(), path+"."+fl.Name(), lifts, f, depth+1))
		}
		return v
	case *types.Slice:
		if b, ok := u.Elem().Underlying().(*types.Basic); ok && b.Kind() == types.Uint8 {
			// []byte: opaque bytes with an identity
			return &Value{K: KBytes, Typ: t, B: &Bytes{Kind: "opaque", T: f(path+".bytes", wrapSort(SInt, lifts), t), NilT: nil}}
		}
		v := &Value{K: KSlice, Typ: t}
		v.Len = f(path+".len", wrapSort(SInt, lifts), types.Typ[types.Int])
		v.Elem = buildValue(u.Elem(), path+"[]", append(append([]*Sort{}, lifts...), SInt), f, depth+1)
		return v
	case *types.Array:
		v := &Value{K: KSlice, Typ: t}
		v.Len = IntC(u.Len())
		v.Elem = buildValue(u.Elem(), path+"[]", append(append([]*Sort{}, lifts...), SInt), f, depth+1)
		return v
	case *types.Pointer:
		if _, ok := u.Elem().Underlying().(*types.Struct); ok {
			if _, isPrim := primNamed(u.Elem()); !isPrim {
				v := &Value{K: KOpt, Typ: t}
				v.NilT = f(path+".nil", wrapSort(SBool, lifts), types.Typ[types.Bool])
				v.Inl = buildValue(u.Elem(), path+"*", lifts, f, depth+1)
				return v
			}
		}
		if _, isPrim := primNamed(u.Elem()); isPrim {
			v := &Value{K: KOpt, Typ: t}
			v.NilT = f(path+".nil", wrapSort(SBool, lifts), types.Typ[types.Bool])
			v.Inl = buildValue(u.Elem(), path+"*", lifts, f, depth+1)
			return v
		}
		return &Value{K: KOpaque, Typ: t}
	case *types.Map:
		v := &Value{K: KMap, Typ: t}
		v.Has = f(path+".has", wrapSort(SBool, append(append([]*Sort{}, lifts...), SInt)), types.Typ[types.Bool])
		v.Elem = buildValue(u.Elem(), path+"{}", append(append([]*Sort{}, lifts...), SInt), f, depth+1)
		return v
	case *types.Interface, *types.Signature, *types.Chan:
		return &Value{K: KOpaque, Typ: t}
	}
	return &Value{K: KOpaque, Typ: t}
}

// zeroValue returns Go's zero value for t.
func zeroValue(t types.Type) *Value {
	v := buildValue(t, "", nil, func(path string, s *Sort, lt types.Type) *Term {
		return zeroOfSort(s)
	}, 0)
	return fixZero(v)
}

func fixZero(v *Value) *Value {
	switch v.K {
	case KOpt:
		v.NilT = True
	case KSlice:
		if _, isArr := v.Typ.Underlying().(*types.Array); !isArr {
			v.Len = Zero
			v.Conc = []*Value{}
		}
	case KBytes:
		v.B = &Bytes{Kind: "key", NilT: True}
	case KStruct:
		for _, f := range v.Fields {
			fixZero(f)
		}
	}
	return v
}

func zeroOfSort(s *Sort) *Term {
	switch s.Kind {
	case "Int":
		return Zero
	case "Bool":
		return False
	}
	return ConstArray(s, zeroOfSort(s.Elem))
}

// ---------- leaf-wise operations ----------

// mapLeaves rebuilds v applying f to every leaf term. Conc information is dropped unless keepConc.
func mapLeaves(v *Value, f func(t *Term) *Term) *Value {
	if v == nil {
		return nil
	}
	switch v.K {
	case KPrim:
		return &Value{K: KPrim, Typ: v.Typ, T: f(v.T)}
	case KStruct, KTuple:
		n := &Value{K: v.K, Typ: v.Typ}
		for _, x := range v.Fields {
			n.Fields = append(n.Fields, mapLeaves(x, f))
		}
		return n
	case KSlice:
		return &Value{K: KSlice, Typ: v.Typ, Len: f(v.Len), Elem: mapLeaves(v.Elem, f)}
	case KMap:
		return &Value{K: KMap, Typ: v.Typ, Has: f(v.Has), Elem: mapLeaves(v.Elem, f)}
	case KOpt:
		return &Value{K: KOpt, Typ: v.Typ, NilT: f(v.NilT), Inl: mapLeaves(v.Inl, f)}
	case KBytes:
		if v.B != nil && v.B.Kind == "opaque" && v.B.T != nil {
			return &Value{K: KBytes, Typ: v.Typ, B: &Bytes{Kind: "opaque", T: f(v.B.T)}}
		}
		return v
	}
	return v
}

// zipLeaves combines two values of the same shape leaf by leaf; ok=false on shape mismatch.
func zipLeaves(a, b *Value, f func(x, y *Term) *Term) (*Value, bool) {
	if a == nil || b == nil {
		return nil, a == b
	}
	if a == b {
		return a, true
	}
	if a.K != b.K {
		return nil, false
	}
	switch a.K {
	case KPrim:
		return &Value{K: KPrim, Typ: a.Typ, T: f(a.T, b.T)}, true
	case KStruct, KTuple:
		if len(a.Fields) != len(b.Fields) {
			return nil, false
		}
		n := &Value{K: a.K, Typ: a.Typ}
		for i := range a.Fields {
			x, ok := zipLeaves(a.Fields[i], b.Fields[i], f)
			if !ok {
				return nil, false
			}
			n.Fields = append(n.Fields, x)
		}
		return n, true
	case KSlice:
		// concrete element lists are authoritative when present (Len == len(Conc))
		if a.Conc != nil && b.Conc != nil && len(a.Conc) == len(b.Conc) {
			n := &Value{K: KSlice, Typ: a.Typ, Len: a.Len, Conc: []*Value{}}
			okAll := true
			for i := range a.Conc {
				x, ok := zipLeaves(a.Conc[i], b.Conc[i], f)
				if !ok {
					okAll = false
					break
				}
				n.Conc = append(n.Conc, x)
			}
			if okAll {
				return n, true
			}
		}
		ea, eb := sliceElem(a), sliceElem(b)
		if ea == nil || eb == nil {
			return nil, false
		}
		e, ok := zipLeaves(ea, eb, f)
		if !ok {
			return nil, false
		}
		return &Value{K: KSlice, Typ: a.Typ, Len: f(a.Len, b.Len), Elem: e}, true
	case KMap:
		e, ok := zipLeaves(a.Elem, b.Elem, f)
		if !ok {
			return nil, false
		}
		return &Value{K: KMap, Typ: a.Typ, Has: f(a.Has, b.Has), Elem: e}, true
	case KOpt:
		e, ok := zipLeaves(a.Inl, b.Inl, f)
		if !ok {
			return nil, false
		}
		return &Value{K: KOpt, Typ: a.Typ, NilT: f(a.NilT, b.NilT), Inl: e}, true
	case KPtr:
		if a.Cell == b.Cell {
			return &Value{K: KPtr, Typ: a.Typ, Cell: a.Cell, NilT: f(a.NilT, b.NilT)}, true
		}
		return nil, false
	case KBytes:
		return zipBytes(a, b, f)
	case KCtx:
		if a.W == b.W {
			return a, true
		}
		return nil, false
	case KOpaque:
		if a.T != nil && b.T != nil {
			return &Value{K: KOpaque, Typ: a.Typ, T: f(a.T, b.T), Dyn: nil}, true
		}
		return a, true
	case KFunc, KStoreH, KIter:
		return a, true
	}
	return nil, false
}

func zipBytes(a, b *Value, f func(x, y *Term) *Term) (*Value, bool) {
	x, y := a.B, b.B
	if x == nil || y == nil {
		return nil, false
	}
	if x.Kind != y.Kind {
		// nil-bytes vs something: keep the non-nil one with merged nil flag
		return nil, false
	}
	switch x.Kind {
	case "opaque", "u64be", "str":
		if x.T != nil && y.T != nil {
			return &Value{K: KBytes, Typ: a.Typ, B: &Bytes{Kind: x.Kind, T: f(x.T, y.T), NilT: mergeOptT(x.NilT, y.NilT, f)}}, true
		}
	case "marshal":
		v, ok := zipLeaves(x.Val, y.Val, f)
		if ok {
			return &Value{K: KBytes, Typ: a.Typ, B: &Bytes{Kind: "marshal", Val: v, NilT: mergeOptT(x.NilT, y.NilT, f)}}, true
		}
	case "key":
		if len(x.Segs) != len(y.Segs) {
			return nil, false
		}
		nb := &Bytes{Kind: "key", NilT: mergeOptT(x.NilT, y.NilT, f)}
		for i := range x.Segs {
			sx, sy := x.Segs[i], y.Segs[i]
			if (sx.T == nil) != (sy.T == nil) || sx.Kind != sy.Kind {
				return nil, false
			}
			if sx.T == nil {
				if string(sx.Const) != string(sy.Const) {
					return nil, false
				}
				nb.Segs = append(nb.Segs, sx)
			} else {
				nb.Segs = append(nb.Segs, KeySeg{T: f(sx.T, sy.T), Kind: sx.Kind})
			}
		}
		return &Value{K: KBytes, Typ: a.Typ, B: nb}, true
	case "storeval":
		if x.Fam == y.Fam && x.Snap == y.Snap && len(x.Keys) == len(y.Keys) {
			nb := &Bytes{Kind: "storeval", Fam: x.Fam, Snap: x.Snap, NilT: mergeOptT(x.NilT, y.NilT, f)}
			for i := range x.Keys {
				nb.Keys = append(nb.Keys, f(x.Keys[i], y.Keys[i]))
			}
			return &Value{K: KBytes, Typ: a.Typ, B: nb}, true
		}
	}
	return nil, false
}

func mergeOptT(x, y *Term, f func(x, y *Term) *Term) *Term {
	if x == nil && y == nil {
		return nil
	}
	if x == nil {
		x = False
	}
	if y == nil {
		y = False
	}
	return f(x, y)
}

// sliceElem returns the lifted element value of a slice, materialising it from Conc if needed.
func sliceElem(v *Value) *Value {
	if v.Conc == nil {
		return v.Elem
	}
	if v.Conc != nil {
		if len(v.Conc) == 0 {
			if sl, ok := v.Typ.Underlying().(*types.Slice); ok {
				z := buildValue(sl.Elem(), "", []*Sort{SInt}, func(p string, s *Sort, t types.Type) *Term { return zeroOfSort(s) }, 0)
				return z
			}
			return nil
		}
		// build arrays by storing each concrete element into a zero array
		var base *Value
		if sl, ok := v.Typ.Underlying().(*types.Slice); ok {
			base = buildValue(sl.Elem(), "", []*Sort{SInt}, func(p string, s *Sort, t types.Type) *Term { return zeroOfSort(s) }, 0)
		} else if ar, ok := v.Typ.Underlying().(*types.Array); ok {
			base = buildValue(ar.Elem(), "", []*Sort{SInt}, func(p string, s *Sort, t types.Type) *Term { return zeroOfSort(s) }, 0)
		} else {
			return v.Elem
		}
		cur := base
		for i, e := range v.Conc {
			n, ok := storeV(cur, IntC(int64(i)), e)
			if !ok {
				return v.Elem
			}
			cur = n
		}
		return cur
	}
	return v.Elem
}

// selectV reads index i of a lifted value.
func selectV(lifted *Value, i *Term) *Value {
	return mapLeaves(lifted, func(t *Term) *Term { return Select(t, i) })
}

// storeV writes v at index i of a lifted value.
func storeV(lifted *Value, i *Term, v *Value) (*Value, bool) {
	v = inlineForStore(v)
	return zipLeaves(lifted, v, func(arr, x *Term) *Term {
		if arr.S.Kind != "Array" || arr.S.Elem != x.S {
			panic(fmt.Sprintf("storeV sort mismatch %s <- %s", arr.S, x.S))
		}
		return Store(arr, i, x)
	})
}

// inlineForStore normalises a value for a lifted position: slices with Conc are materialised.
func inlineForStore(v *Value) *Value {
	if v == nil {
		return v
	}
	switch v.K {
	case KSlice:
		e := sliceElem(v)
		if e != nil {
			e = inlineForStore(e)
		}
		return &Value{K: KSlice, Typ: v.Typ, Len: v.Len, Elem: e}
	case KStruct, KTuple:
		n := &Value{K: v.K, Typ: v.Typ}
		for _, f := range v.Fields {
			n.Fields = append(n.Fields, inlineForStore(f))
		}
		return n
	case KOpt:
		return &Value{K: KOpt, Typ: v.Typ, NilT: v.NilT, Inl: inlineForStore(v.Inl)}
	case KBytes:
		if v.B != nil && v.B.Kind != "opaque" {
			return &Value{K: KBytes, Typ: v.Typ, B: &Bytes{Kind: "opaque", T: bytesIdent(v.B)}}
		}
	}
	return v
}

func bytesIdent(b *Bytes) *Term {
	if b.T != nil {
		return b.T
	}
	return Fresh("bytes", SInt)
}

// iteV merges two values under condition c.
func iteV(c *Term, a, b *Value) (*Value, bool) {
	if a == b {
		return a, true
	}
	bad := false
	v, ok := zipLeaves(a, b, func(x, y *Term) *Term {
		if x.S != y.S {
			bad = true
			return x
		}
		return Ite(c, x, y)
	})
	return v, ok && !bad
}

// eqV is structural equality of two values (conjunction over leaves).
func eqV(a, b *Value) (*Term, bool) {
	acc := True
	bad := false
	_, ok := zipLeaves(inlineForStore(a), inlineForStore(b), func(x, y *Term) *Term {
		if x.S != y.S {
			bad = true
			return x
		}
		acc = And(acc, Eq(x, y))
		return x
	})
	return acc, ok && !bad
}

func (v *Value) String() string {
	if v == nil {
		return "<nil>"
	}
	switch v.K {
	case KPrim:
		return TermString(v.T, 200)
	case KStruct, KTuple:
		var ps []string
		for _, f := range v.Fields {
			ps = append(ps, f.String())
		}
		return "{" + strings.Join(ps, ", ") + "}"
	}
	return "<" + v.K.String() + ">"
}

// field returns the struct field by name (searching embedded structs).
func (v *Value) field(name string) *Value {
	st, ok := v.Typ.Underlying().(*types.Struct)
	if !ok {
		return nil
	}
	for i := 0; i < st.NumFields(); i++ {
		if st.Field(i).Name() == name {
			return v.Fields[i]
		}
	}
	for i := 0; i < st.NumFields(); i++ {
		if st.Field(i).Embedded() && v.Fields[i].K == KStruct {
			if r := v.Fields[i].field(name); r != nil {
				return r
			}
		}
	}
	return nil
}

func prim(t *Term, typ types.Type) *Value { return &Value{K: KPrim, T: t, Typ: typ} }

// shapeDiff explains where two values differ in shape (for diagnostics).
func shapeDiff(a, b *Value, path string) string {
	if a == nil || b == nil {
		if a != b {
			return path + ": nil vs non-nil"
		}
		return ""
	}
	if a.K != b.K {
		return fmt.Sprintf("%s: %s vs %s", path, a.K, b.K)
	}
	switch a.K {
	case KStruct, KTuple:
		if len(a.Fields) != len(b.Fields) {
			return path + ": field count"
		}
		for i := range a.Fields {
			if d := shapeDiff(a.Fields[i], b.Fields[i], fmt.Sprintf("%s.%d", path, i)); d != "" {
				return d
			}
		}
	case KSlice:
		if a.Conc != nil && b.Conc != nil && len(a.Conc) == len(b.Conc) {
			for i := range a.Conc {
				if d := shapeDiff(a.Conc[i], b.Conc[i], fmt.Sprintf("%s[%d]", path, i)); d != "" {
					return d
				}
			}
			return ""
		}
		return shapeDiff(sliceElem(a), sliceElem(b), path+"[]")
	case KOpt:
		return shapeDiff(a.Inl, b.Inl, path+"*")
	case KPtr:
		if a.Cell != b.Cell {
			return path + ": pointers to different cells"
		}
	case KBytes:
		if a.B != nil && b.B != nil && a.B.Kind != b.B.Kind {
			return path + ": bytes " + a.B.Kind + " vs " + b.B.Kind
		}
	case KPrim:
		if a.T.S != b.T.S {
			return path + ": sorts " + a.T.S.String() + " vs " + b.T.S.String()
		}
	}
	return ""
}

// freshLike builds an unconstrained value of type t (no typing facts).
func freshLike(t types.Type, name string) *Value {
	return buildValue(t, name, nil, func(path string, srt *Sort, lt types.Type) *Term { return Fresh(path, srt) }, 0)
}
