package eng

import (
	"os"
	"fmt"
	"go/ast"
	"go/types"
	"sort"
	"strings"
)

type FuncReport struct {
	Func     string
	Pkg      string
	Prop     string
	Obls     []*Obligation
	Error    string
	Inlined  []string
	Havocs   []string
	Unmod    []string
	Trusted  []string
	Notes    []string
	AssumedNoPanic []string
	Exits    int
	PanicExits int
}

// fnTagOf builds the stable obligation prefix: <pkg-rel>.<Func>
func (pr *Program) fnTagOf(fi *FuncInfo) string {
	p := fi.Pkg.Path
	if i := strings.Index(p, "/comdex/"); i >= 0 {
		p = p[i+len("/comdex/"):]
	}
	return p + "." + fi.Name
}

// VerifyFunc symbolically executes fi against its contract and returns the obligations.
func (pr *Program) VerifyFunc(fi *FuncInfo) (rep *FuncReport) {
	x := NewExec(pr)
	c := fi.Contr
	rep = &FuncReport{Func: fi.Name, Pkg: fi.Pkg.Path, Prop: c.Prop()}
	x.propTag = c.Prop()
	x.fnTag = pr.fnTagOf(fi)
	x.nopanicMode = c.NoPanic
	x.pruneMode = c.Prune
	x.selfFn = fi
	defer func() {
		if r := recover(); r != nil {
			if ep, ok := r.(execPanic); ok {
				rep.Error = ep.msg
			} else {
				panic(r)
			}
		}
		rep.Obls = x.Obls
		rep.Inlined = keysOf(x.Inlined)
		rep.Havocs = keysOf(x.Havocs)
		rep.Unmod = keysOf(x.Unmod)
		rep.Trusted = keysOf(x.Trusted)
		rep.AssumedNoPanic = keysOf(x.AssumedNoPanic)
		rep.Notes = x.Notes
	}()
	s := NewState()
	w := NewWorld("w0")
	wid := s.NewWorldID(w)
	x.specWorldID = wid
	s.Assume(And(Ge(w.Height, Zero), rangeFact(tInt64, w.Height)))
	cc := &callCtx{fi: fi, info: fi.Pkg.P.TypesInfo, pkg: fi.Pkg, env: NewEnv(nil), top: true}
	x.cur = cc
	// symbolic parameters
	var args []*Value
	sig := fi.Obj.Type().(*types.Signature)
	for i := 0; i < sig.Params().Len(); i++ {
		p := sig.Params().At(i)
		name := p.Name()
		if name == "" || name == "_" {
			name = fmt.Sprintf("arg%d", i)
		}
		var v *Value
		if isCtxType(p.Type()) {
			v = &Value{K: KCtx, Typ: p.Type(), W: wid}
		} else if uv := x.uniformIfaceValue(s, p.Type(), "in."+name); uv != nil {
			v = uv
		} else {
			v = x.namedValue(p.Type(), "in."+name, s)
			if v.K == KPtr {
				s.Assume(Not(v.NilT)) // pointer parameters are assumed non-nil (stated in the evidence)
			}
			x.collectInputs(s, "in."+name, v)
		}
		args = append(args, v)
	}
	var recv *Value
	if r := sig.Recv(); r != nil {
		rt := r.Type()
		if st, ok := derefStruct(rt); ok && !isKeeperLike(rt) && st.NumFields() > 0 {
			recv = x.namedValue(rt, "in.recv", s)
			if recv.K == KPtr {
				s.Assume(Not(recv.NilT))
			}
			x.collectInputs(s, "in.recv", recv)
		} else {
			recv = &Value{K: KOpaque, Typ: rt}
		}
	}
	x.bindParams(s, cc, fi.Decl.Type, fi.Decl.Recv, recv, args, fi.Decl.Pos())
	if c.Invokes != "" {
		x.entrySnap = s.Clone()
		x.entryWorld = wid
	}
	if fi.Lit != nil {
		ownCtx := false
		for i := 0; i < sig.Params().Len(); i++ {
			if isCtxType(sig.Params().At(i).Type()) {
				ownCtx = true
			}
		}
		x.bindCaptured(s, cc, fi, wid, ownCtx)
	}
	sc := &specCtx{fi: fi, bound: map[string]*Value{}}
	for i, t := range cc.resTypes {
		sc.resType = append(sc.resType, t)
		n := ""
		if i < len(cc.resCells) {
			// named results
		}
		sc.resName = append(sc.resName, n)
	}
	if fi.Decl.Type.Results != nil {
		k := 0
		for _, fl := range fi.Decl.Type.Results.List {
			if len(fl.Names) == 0 {
				k++
				continue
			}
			for _, n := range fl.Names {
				if k < len(sc.resName) {
					sc.resName[k] = n.Name
				}
				k++
			}
		}
	}
	x.defaultSpec = sc
	// lets and requires are evaluated in the entry state
	for _, l := range c.Lets {
		sc.bound[l.Tag] = x.evalSpec(s, l.Expr, sc)
	}
	for _, cl := range c.Clauses {
		if cl.Kind == "requires" {
			s.Assume(x.evalClause(s, cl, sc))
		}
	}
	entry := s.Clone()
	sc.entry = entry
	x.entryPC = entry.PC
	// cover: the precondition itself must be satisfiable
	x.Obls = append(x.Obls, &Obligation{Name: x.fnTag + "/cover#pre", Prop: c.Prop(), Kind: "cover", Cover: true, Hyp: entry.PC, Goal: True, Pos: pr.Pos(fi.Decl.Pos()), Inputs: x.entryInputs})
	if fi.Decl.Body == nil {
		rep.Error = "function has no body"
		return
	}
	x.loopOrds = numberLoops(fi.Decl.Body)
	// the body's top-level scope stays open so that contracts can name top-level locals in postconditions
	cc.env = NewEnv(cc.env)
	end := s
	for _, st := range fi.Decl.Body.List {
		if end == nil {
			break
		}
		end = x.execStmt(end, st)
	}
	if end != nil {
		var vals []*Value
		for _, cell := range cc.resCells {
			vals = append(vals, end.Heap[cell])
		}
		cc.exits = append(cc.exits, &Exit{Kind: "return", S: end, Vals: vals})
	}
	var rets []*Exit
	for _, e := range cc.exits {
		if e.Kind == "panic" {
			rep.PanicExits++
		}
		if e.Kind == "return" && len(cc.resCells) > 0 && len(cc.defers) > 0 {
			for i, cell := range cc.resCells {
				if i < len(e.Vals) {
					e.S.Heap[cell] = e.Vals[i]
				}
			}
		}
		x.runDefers(cc, e)
		if e.S.PC.Op == "false" {
			continue
		}
		if e.Kind == "return" {
			if e.Vals == nil {
				for _, cell := range cc.resCells {
					e.Vals = append(e.Vals, e.S.Heap[cell])
				}
			}
			rets = append(rets, e)
		}
	}
	rep.Exits = len(rets)
	if c.NoPanic {
		// callee panics that are not recovered, and panics raised inside the recover handler: must be unreachable
		var pcs []*Term
		for _, e := range cc.exits {
			if e.Kind == "panic" && e.S.PC.Op != "false" {
				pcs = append(pcs, e.S.PC)
			}
		}
		for _, e := range cc.escaped {
			pcs = append(pcs, e.S.PC)
		}
		if len(pcs) > 0 {
			x.Obls = append(x.Obls, &Obligation{Name: x.fnTag + "/nopanic:unrecovered", Prop: c.Prop(), Kind: "nopanic", Hyp: True, Goal: Not(Or(pcs...)), Pos: pr.Pos(fi.Decl.Pos()), Inputs: x.entryInputs})
		}
	}
	// postconditions
	proved := map[string][]*Term{} // tag -> goal per exit (earlier ensures usable as hypotheses via "by")
	for _, cl := range c.Clauses {
		switch cl.Kind {
		case "ensures", "failsif":
			goal := True
			var perExit []*Term
			for ei, e := range rets {
				sc2 := *sc
				sc2.results = e.Vals
				es := e.S.Clone()
				x.bindPostLets(es, c, &sc2)
				var g *Term
				if cl.Kind == "failsif" {
					// old(E) ==> err != nil
					cond := x.evalSpec(es, &CExpr{Op: "call", Args: []*CExpr{{Op: "ident", Name: "old"}, cl.Expr}}, &sc2)
					okv := x.specIdent(es, "ok", &sc2)
					g = Implies(cond.T, Not(okv.T))
				} else {
					g = x.evalClause(es, cl, &sc2)
				}
				perExit = append(perExit, g)
				hyp := es.PC
				for _, u := range cl.Using {
					if gs, ok := proved[u]; ok && ei < len(gs) {
						hyp = And(hyp, gs[ei])
					} else {
						panic(execPanic{"ensures #" + cl.Tag + ": 'by #" + u + "' refers to no earlier ensures clause"})
					}
				}
				goal = And(goal, Implies(hyp, g))
			}
			proved[cl.Tag] = perExit
			kind := "ensures"
			if cl.Kind == "failsif" {
				kind = "fails_if"
			}
			x.Obls = append(x.Obls, &Obligation{Name: fmt.Sprintf("%s/%s#%s", x.fnTag, kind, cl.Tag), Prop: cl.propOr(c.Prop()), Kind: kind, Hyp: True, Goal: goal, Pos: pr.Pos(fi.Decl.Pos()), Src: cl.Src, Inputs: x.entryInputs, Slow: cl.Slow})
		case "cover":
			reach := False
			for _, e := range rets {
				sc2 := *sc
				sc2.results = e.Vals
				es := e.S.Clone()
				x.bindPostLets(es, c, &sc2)
				g := x.evalClause(es, cl, &sc2)
				reach = Or(reach, And(es.PC, g))
			}
			x.Obls = append(x.Obls, &Obligation{Name: fmt.Sprintf("%s/cover#%s", x.fnTag, cl.Tag), Prop: cl.propOr(c.Prop()), Kind: "cover", Cover: true, Hyp: True, Goal: reach, Pos: pr.Pos(fi.Decl.Pos()), Src: cl.Src, Inputs: x.entryInputs})
		}
	}
	// frame: the inferred write set (outside wrapped all-or-nothing steps) must be within the declared modifies clause
	if c.HasMod {
		fx := NewExec(pr)
		fx.skipWrapped = true
		ws := WriteSet{}
		fx.collectWrites(fi.Decl.Body, fi.Pkg.P.TypesInfo, fi.Pkg, ws, map[*FuncInfo]bool{fi: true})
		allowed := map[string]bool{}
		for _, m := range c.Modifies {
			allowed[m] = true
		}
		var extra []string
		for m := range ws {
			if !allowed[m] && !allowed["*"] {
				extra = append(extra, m)
			}
		}
		sort.Strings(extra)
		src := "modifies " + strings.Join(c.Modifies, ", ")
		if len(extra) > 0 {
			src += " — but the body may also write: " + strings.Join(extra, ", ")
		}
		x.Obls = append(x.Obls, staticObl(x.fnTag+"/frame#modifies", c.Prop(), "frame", len(extra) == 0, pr.Pos(fi.Decl.Pos()), src))
	}
	// automatic cover: some successful return is reachable
	okReach := False
	for _, e := range rets {
		sc2 := *sc
		sc2.results = e.Vals
		okv := x.specIdent(e.S, "ok", &sc2)
		okReach = Or(okReach, And(e.S.PC, okv.T))
	}
	x.Obls = append(x.Obls, &Obligation{Name: x.fnTag + "/cover#ok", Prop: c.Prop(), Kind: "cover", Cover: true, Hyp: True, Goal: okReach, Pos: pr.Pos(fi.Decl.Pos()), Inputs: x.entryInputs})
	x.attachAxioms()
	return
}

func isKeeperLike(t types.Type) bool {
	p := namedPath(t)
	return strings.HasSuffix(p, ".Keeper") || strings.HasSuffix(p, ".msgServer") || strings.HasSuffix(p, ".QueryServer") || strings.HasSuffix(p, ".queryServer") || strings.HasSuffix(p, ".AppModule")
}

func keysOf(m map[string]int) []string {
	var out []string
	for k := range m {
		out = append(out, k)
	}
	sort.Strings(out)
	return out
}

// collectInputs records the primitive leaves of the parameters (for counterexample display / replay).
func (x *Exec) collectInputs(s *State, name string, v *Value) {
	if v == nil {
		return
	}
	switch v.K {
	case KPrim:
		x.entryInputs = append(x.entryInputs, NamedTerm{name, v.T})
	case KStruct:
		if st, ok := v.Typ.Underlying().(*types.Struct); ok {
			for i, f := range v.Fields {
				x.collectInputs(s, name+"."+st.Field(i).Name(), f)
			}
		}
	case KPtr:
		if v.Cell != 0 {
			x.collectInputs(s, name, s.Heap[v.Cell])
		}
	case KSlice:
		x.entryInputs = append(x.entryInputs, NamedTerm{name + ".len", v.Len})
		if e := sliceElem(v); e != nil && e.K == KPrim {
			x.entryInputs = append(x.entryInputs, NamedTerm{name + "[]", e.T})
		} else if e != nil && e.K == KStruct {
			if st, ok := e.Typ.Underlying().(*types.Struct); ok {
				for i, f := range e.Fields {
					if f.K == KPrim {
						x.entryInputs = append(x.entryInputs, NamedTerm{name + "[]." + st.Field(i).Name(), f.T})
					}
				}
			}
		}
	}
}

// attachAxioms adds the axioms of the spec functions used to every obligation's hypothesis.
func (x *Exec) attachAxioms() {
	var ax []*Term
	if x.needSumAxioms {
		a := Fresh("ax.a", SArr(SInt, SInt))
		lo := Fresh("ax.lo", SInt)
		hi := Fresh("ax.hi", SInt)
		sum := func(a, l, h *Term) *Term { return App("seq.sum", SInt, a, l, h) }
		ax = append(ax, Forall([]*Term{a, lo}, Eq(sum(a, lo, lo), Zero)))
		ax = append(ax, Forall([]*Term{a, lo, hi}, Implies(Le(lo, hi), Eq(sum(a, lo, Add(hi, One)), Add(sum(a, lo, hi), Select(a, hi))))))
	}
	if x.needShiftAxioms || x.needConcatAxioms {
		seen := map[string]bool{}
		for name, u := range TS.ufs {
			if seen[name] {
				continue
			}
			seen[name] = true
			if strings.HasPrefix(name, "arr.shift.") {
				a := Fresh("ax.a", u.Args[0])
				k := Fresh("ax.k", SInt)
				i := Fresh("ax.i", SInt)
				ax = append(ax, Forall([]*Term{a, k, i}, Eq(Select(App(name, u.Res, a, k), i), Select(a, Add(i, k)))))
			}
			if strings.HasPrefix(name, "arr.concat.") {
				a := Fresh("ax.a", u.Args[0])
				b := Fresh("ax.b", u.Args[2])
				n := Fresh("ax.n", SInt)
				i := Fresh("ax.i", SInt)
				ax = append(ax, Forall([]*Term{a, n, b, i}, Eq(Select(App(name, u.Res, a, n, b), i), Ite(Lt(i, n), Select(a, i), Select(b, Sub(i, n))))))
			}
		}
	}
	ax = append(ax, x.typeAxioms...)
	if x.needSumAxioms {
		for _, o := range x.Obls {
			o.Hyp = And(o.Hyp, sumInstances(o.Hyp, o.Goal))
		}
	}
	if len(ax) == 0 {
		return
	}
	for _, o := range x.Obls {
		if o.Cover {
			continue // cover queries are satisfiability checks: quantified axioms are left out (weaker hypothesis)
		}
		o.Axioms = ax
	}
}

// applyContract uses a callee's contract modularly at a call site.
func (x *Exec) applyContract(s *State, fi *FuncInfo, recv *Value, args []*Value, call *ast.CallExpr) []*Value {
	c := fi.Contr
	sig := fi.Obj.Type().(*types.Signature)
	// bind parameters in a temporary frame so that contract expressions can name them
	cc := &callCtx{fi: fi, info: fi.Pkg.P.TypesInfo, pkg: fi.Pkg, env: NewEnv(nil), depth: x.cur.depth + 1, parent: x.cur}
	saved := x.cur
	savedSpec := x.defaultSpec
	savedWorld := x.specWorldID
	x.cur = cc
	defer func() { x.cur = saved; x.defaultSpec = savedSpec; x.specWorldID = savedWorld }()
	x.bindParams(s, cc, fi.Decl.Type, fi.Decl.Recv, recv, args, call.Pos())
	for _, a := range args {
		if a != nil && a.K == KCtx {
			x.specWorldID = a.W
			break
		}
	}
	sc := &specCtx{fi: fi, bound: map[string]*Value{}}
	for _, t := range cc.resTypes {
		sc.resType = append(sc.resType, t)
		sc.resName = append(sc.resName, "")
	}
	if fi.Decl.Type.Results != nil {
		k := 0
		for _, fl := range fi.Decl.Type.Results.List {
			if len(fl.Names) == 0 {
				k++
				continue
			}
			for _, n := range fl.Names {
				sc.resName[k] = n.Name
				k++
			}
		}
	}
	x.defaultSpec = sc
	for _, l := range c.Lets {
		sc.bound[l.Tag] = x.evalSpec(s, l.Expr, sc)
	}
	callee := x.Pr.fnTagOf(fi)
	for _, cl := range c.Clauses {
		if cl.Kind != "requires" {
			continue
		}
		t := x.evalClause(s, cl, sc)
		if cl.Assumed {
			x.Trusted["state invariant #"+cl.Tag+" required by "+callee+" is assumed at its call sites (not checked)"]++
			s.Assume(t)
			continue
		}
		if saved.top || true {
			x.reqSeq[callee+"#"+cl.Tag]++
			name := fmt.Sprintf("%s/requires@%s#%s@%d", x.fnTag, callee, cl.Tag, x.reqSeq[callee+"#"+cl.Tag])
			x.Obls = append(x.Obls, &Obligation{Name: name, Prop: x.propTag, Kind: "requires", Hyp: s.PC, Goal: t, Pos: x.Pr.Pos(call.Pos()), Src: cl.Src, Inputs: x.entryInputs})
		}
		s.Assume(t)
	}
	pre := s.Clone()
	sc.entry = pre
	var litWrites WriteSet
	if c.Invokes != "" && x.selfFn != nil && x.selfFn.Contr != nil && x.selfFn.Contr.Explore {
		litWrites = x.exploreStep(s, fi, args, saved, call)
	}
	// frame: havoc what the callee may write
	ws := x.funcWrites(fi)
	if litWrites != nil {
		// the callee's only unknown callee is the literal: its frame is its own writes plus the literal's (instead of the
		// declared `modifies *`, which stands for an arbitrary function argument)
		ws2 := WriteSet{}
		for k := range ws {
			ws2[k] = true
		}
		for k := range litWrites {
			ws2[k] = true
		}
		ws = ws2
		x.note("FRAME-REFINED: %s at %s writes what its own body and the literal handed to it write: %s", fi.Obj.Name(), x.Pr.Pos(call.Pos()), strings.Join(keysOfWS(ws), ", "))
	} else if c.HasMod {
		ws = WriteSet{}
		for _, m := range c.Modifies {
			ws[m] = true
		}
	}
	x.havocWorlds(s, ws, "post."+fi.Obj.Name())
	if x.nopanicMode && !c.NoPanic {
		x.AssumedNoPanic[callee]++
	}
	// results
	var res []*Value
	for i := 0; i < sig.Results().Len(); i++ {
		res = append(res, x.freshValue(sig.Results().At(i).Type(), "ret."+fi.Obj.Name(), s))
	}
	sc.results = res
	// pointer arguments may be modified by the callee: havoc their pointees unless the contract says `modifies nothing`
	if !(c.HasMod && len(c.Modifies) == 0) {
		for _, a := range args {
			if a != nil && a.K == KPtr && a.Cell != 0 {
				if old := s.Heap[a.Cell]; old != nil && old.Typ != nil && old.K != KOpaque {
					s.Heap[a.Cell] = x.freshValue(old.Typ, "post.ptr", s)
				}
			}
		}
	}
	x.bindPostLets(s, c, sc)
	for _, cl := range c.Clauses {
		if cl.Internal {
			continue
		}
		switch cl.Kind {
		case "ensures":
			s.Assume(x.evalClause(s, cl, sc))
		case "failsif":
			cond := x.evalSpec(s, &CExpr{Op: "call", Args: []*CExpr{{Op: "ident", Name: "old"}, cl.Expr}}, sc)
			okv := x.specIdent(s, "ok", sc)
			s.Assume(Implies(cond.T, Not(okv.T)))
		}
	}
	if c.Trusted {
		x.Trusted["contract of "+callee+" is trusted (not checked)"]++
	}
	x.Modular[callee]++
	return res
}

// LemmaObligation turns a lemma block into a single validity obligation.
func (pr *Program) LemmaObligations(c *Contract, pi *PkgInfo) (obls []*Obligation, err error) {
	x := NewExec(pr)
	x.cur = &callCtx{info: pi.P.TypesInfo, pkg: pi, env: NewEnv(nil)}
	defer func() {
		if r := recover(); r != nil {
			if ep, ok := r.(execPanic); ok {
				err = fmt.Errorf("%s", ep.msg)
				return
			}
			panic(r)
		}
	}()
	s := NewState()
	s.NewWorldID(NewWorld("w0"))
	sc := &specCtx{bound: map[string]*Value{}}
	x.defaultSpec = sc
	for _, p := range c.Params {
		nt := strings.SplitN(p, ":", 2)
		if nt[1] == "bool" {
			sc.bound[nt[0]] = boolV(Var("lemma."+nt[0], SBool))
		} else {
			sc.bound[nt[0]] = intV(Var("lemma."+nt[0], SInt))
		}
	}
	for _, cl := range c.Clauses {
		if cl.Kind == "requires" {
			s.Assume(x.evalClause(s, cl, sc))
		}
	}
	p := pi.Path
	if i := strings.Index(p, "/comdex/"); i >= 0 {
		p = p[i+len("/comdex/"):]
	}
	tag := p + "." + c.FuncName
	x.fnTag = tag
	obls = append(obls, &Obligation{Name: tag + "/cover#pre", Prop: c.Prop(), Kind: "cover", Cover: true, Hyp: s.PC, Goal: True, Pos: fmt.Sprintf("%s:%d", c.File, c.Line)})
	proved := map[string]*Term{}
	for _, cl := range c.Clauses {
		if cl.Kind == "apply" {
			// apply Name(args): an EARLIER lemma of the same file, instantiated at the given terms, becomes a hypothesis of the
			// clauses that follow (its own obligations are discharged separately; the order requirement excludes circular use)
			if cl.Expr == nil || cl.Expr.Op != "call" || len(cl.Expr.Args) == 0 || cl.Expr.Args[0].Op != "ident" {
				return nil, fmt.Errorf("lemma %s: expected 'apply Name(args)'", c.FuncName)
			}
			name := cl.Expr.Args[0].Name
			lc, ok := pr.Contracts[pi.Path+"|lemma:"+name]
			if !ok || !lc.IsLemma {
				return nil, fmt.Errorf("lemma %s: apply of unknown lemma %s", c.FuncName, name)
			}
			if lc.File != c.File || lc.Line >= c.Line {
				return nil, fmt.Errorf("lemma %s: applied lemma %s must be stated earlier in the same file", c.FuncName, name)
			}
			if len(cl.Expr.Args)-1 != len(lc.Params) {
				return nil, fmt.Errorf("lemma %s: apply %s: wrong number of arguments", c.FuncName, name)
			}
			sc2 := &specCtx{bound: map[string]*Value{}}
			for i, p := range lc.Params {
				nt := strings.SplitN(p, ":", 2)
				sc2.bound[nt[0]] = x.evalSpec(s, cl.Expr.Args[i+1], sc)
			}
			req, ens := True, True
			for _, lcl := range lc.Clauses {
				switch lcl.Kind {
				case "requires":
					req = And(req, x.evalClause(s, lcl, sc2))
				case "ensures":
					ens = And(ens, x.evalClause(s, lcl, sc2))
				case "apply":
					// hypotheses of the applied lemma's own proof are not exported
				}
			}
			s.Assume(Implies(req, ens))
			continue
		}
		if cl.Kind == "ensures" {
			g := x.evalClause(s, cl, sc)
			hyp := s.PC
			for _, u := range cl.Using {
				if pg, ok := proved[u]; ok {
					hyp = And(hyp, pg)
				} else {
					return nil, fmt.Errorf("lemma %s: 'by #%s' refers to no earlier ensures clause", c.FuncName, u)
				}
			}
			proved[cl.Tag] = g
			obls = append(obls, &Obligation{Name: fmt.Sprintf("%s/ensures#%s", tag, cl.Tag), Prop: cl.propOr(c.Prop()), Kind: "lemma", Hyp: hyp, Goal: g, Pos: fmt.Sprintf("%s:%d", c.File, c.Line), Src: cl.Src, Slow: cl.Slow})
		}
	}
	x.Obls = obls
	x.attachAxioms()
	return obls, nil
}

// sumInstances returns ground instances of the seq.sum axioms for every sum term occurring in the terms
// (manual E-matching, so that most obligations are decided without quantifiers).
func sumInstances(ts ...*Term) *Term {
	seen := map[*Term]bool{}
	var sums []*Term
	var walk func(t *Term)
	walk = func(t *Term) {
		if seen[t] {
			return
		}
		seen[t] = true
		if t.Op == "uf" && t.Name == "seq.sum" {
			sums = append(sums, t)
		}
		for _, a := range t.Args {
			walk(a)
		}
	}
	for _, t := range ts {
		walk(t)
	}
	var out []*Term
	sum := func(a, l, h *Term) *Term { return App("seq.sum", SInt, a, l, h) }
	for _, st := range sums {
		a, lo, hi := st.Args[0], st.Args[1], st.Args[2]
		out = append(out, Eq(sum(a, lo, lo), Zero))
		out = append(out, Implies(Lt(lo, hi), Eq(st, Add(sum(a, lo, Sub(hi, One)), Select(a, Sub(hi, One))))))
		out = append(out, Implies(Le(lo, hi), Eq(sum(a, lo, Add(hi, One)), Add(st, Select(a, hi)))))
		// frame lemma (by induction on hi; trusted): a store at or beyond hi does not change the sum
		for b := a; b.Op == "store"; b = b.Args[0] {
			k := b.Args[1]
			inner := b.Args[0]
			out = append(out, Implies(Le(hi, k), Eq(sum(b, lo, hi), sum(inner, lo, hi))))
			if b != a {
				break
			}
		}
		if a.Op == "store" {
			k := a.Args[1]
			out = append(out, Implies(Le(Sub(hi, One), k), Eq(sum(a, lo, Sub(hi, One)), sum(a.Args[0], lo, Sub(hi, One)))))
		}
	}
	return And(out...)
}

// bindPostLets evaluates the contract's letpost bindings in an exit state.
func (x *Exec) bindPostLets(es *State, c *Contract, sc *specCtx) {
	if len(c.PostLets) == 0 {
		return
	}
	nb := map[string]*Value{}
	for k, v := range sc.bound {
		nb[k] = v
	}
	sc.bound = nb
	for _, l := range c.PostLets {
		nb[l.Tag] = x.evalSpec(es, l.Expr, sc)
	}
}


// bindCaptured gives every variable a function literal captures from its enclosing function an unconstrained symbolic value
// (any value the enclosing function could have left there); relations between captured variables go into requires.
func (x *Exec) bindCaptured(s *State, cc *callCtx, fi *FuncInfo, mainWorld int, ownCtx bool) {
	info := fi.Pkg.P.TypesInfo
	seen := map[types.Object]bool{}
	var order []*types.Var
	ast.Inspect(fi.Lit.Body, func(n ast.Node) bool {
		id, ok := n.(*ast.Ident)
		if !ok {
			return true
		}
		v, ok := info.Uses[id].(*types.Var)
		if !ok || v.IsField() || seen[v] {
			return true
		}
		if v.Parent() == nil || v.Parent() == v.Pkg().Scope() || v.Parent() == types.Universe {
			return true
		}
		if v.Pos() >= fi.Lit.Pos() && v.Pos() <= fi.Lit.End() {
			return true
		}
		seen[v] = true
		order = append(order, v)
		return true
	})
	for _, v := range order {
		var val *Value
		switch {
		case isCtxType(v.Type()) && !ownCtx:
			// a literal without its own context parameter works on the captured context: that is "the" chain state
			val = &Value{K: KCtx, Typ: v.Type(), W: mainWorld}
		case isCtxType(v.Type()):
			w := NewWorld("wcap." + v.Name())
			val = &Value{K: KCtx, Typ: v.Type(), W: s.NewWorldID(w)}
		case isKeeperLike(v.Type()):
			val = &Value{K: KOpaque, Typ: v.Type()}
		default:
			val = x.namedValue(v.Type(), "cap."+v.Name(), s)
			if val.K == KPtr {
				s.Assume(Not(val.NilT))
			}
			x.collectInputs(s, "cap."+v.Name(), val)
		}
		cc.env.Bind(v, s.Alloc(val))
	}
}


// uniformIfaceValue models a parameter of an interface type declared in the repository by a symbolic value of the one
// concrete type whose methods every implementer of the interface inherits (e.g. amm.Order -> *amm.BaseOrder: UserOrder
// and PoolOrder embed *BaseOrder and do not override its accessors). Methods that some implementer overrides are left
// unmodelled (havoc). The check over implementers is mechanical and repeated on every load.
func (x *Exec) uniformIfaceValue(s *State, t types.Type, name string) *Value {
	named, ok := t.(*types.Named)
	if !ok || named.Obj().Pkg() == nil || !strings.Contains(named.Obj().Pkg().Path(), "/comdex/") {
		return nil
	}
	it, ok := named.Underlying().(*types.Interface)
	if !ok || it.NumMethods() == 0 {
		return nil
	}
	var impls []*types.Named
	for _, pi := range x.Pr.Pkgs {
		if pi.P == nil || pi.P.Types == nil {
			continue
		}
		sc := pi.P.Types.Scope()
		for _, n := range sc.Names() {
			tn, ok := sc.Lookup(n).(*types.TypeName)
			if !ok || tn.IsAlias() {
				continue
			}
			nt, ok := tn.Type().(*types.Named)
			if !ok {
				continue
			}
			if _, isI := nt.Underlying().(*types.Interface); isI {
				continue
			}
			if strings.HasSuffix(pi.P.PkgPath, "_test") || strings.Contains(n, "Mock") {
				continue
			}
			if types.Implements(types.NewPointer(nt), it) || types.Implements(nt, it) {
				impls = append(impls, nt)
			}
		}
	}
	if len(impls) == 0 {
		return nil
	}
	// concrete function per (method, implementer)
	owner := map[*types.Named]int{}
	uniform := map[string]*types.Func{}
	over := map[string]bool{}
	for i := 0; i < it.NumMethods(); i++ {
		m := it.Method(i)
		var f0 *types.Func
		for _, nt := range impls {
			obj, _, _ := types.LookupFieldOrMethod(types.NewPointer(nt), true, m.Pkg(), m.Name())
			f, _ := obj.(*types.Func)
			if f == nil {
				over[m.Name()] = true
				continue
			}
			if f0 == nil {
				f0 = f
			} else if f0 != f {
				over[m.Name()] = true
			}
		}
		if f0 != nil && !over[m.Name()] {
			uniform[m.Name()] = f0
			rt := f0.Type().(*types.Signature).Recv().Type()
			if pt, ok := rt.(*types.Pointer); ok {
				rt = pt.Elem()
			}
			if rn, ok := rt.(*types.Named); ok {
				owner[rn]++
			}
		}
	}
	var core *types.Named
	for rn, c := range owner {
		if core == nil || c > owner[core] || (c == owner[core] && rn.Obj().Name() < core.Obj().Name()) {
			core = rn
		}
	}
	if core == nil || !(types.Implements(types.NewPointer(core), it) || types.Implements(core, it)) {
		return nil
	}
	for mname, f := range uniform {
		rt := f.Type().(*types.Signature).Recv().Type()
		if pt, ok := rt.(*types.Pointer); ok {
			rt = pt.Elem()
		}
		if rt != types.Type(core) {
			over[mname] = true
		}
	}
	pt := types.NewPointer(core)
	dyn := x.namedValue(pt, name, s)
	if dyn.K == KPtr {
		s.Assume(Not(dyn.NilT))
	}
	x.collectInputs(s, name, dyn)
	if os.Getenv("GOVC_DEBUG_IFACE") != "" {
		fmt.Fprintf(os.Stderr, "DEBUG iface dyn=%s cell=%d heap=%s\n", dyn.String(), dyn.Cell, s.Heap[dyn.Cell].String())
	}
	var ov []string
	for m := range over {
		ov = append(ov, m)
	}
	sort.Strings(ov)
	var in []string
	for _, nt := range impls {
		in = append(in, nt.Obj().Name())
	}
	sort.Strings(in)
	x.note("IFACE-UNIFORM: %s modelled by %s (implementers %v inherit its methods; overridden and left unmodelled: %v)", named.Obj().Name(), pt.String(), in, ov)
	if x.ifaceOver == nil {
		x.ifaceOver = map[*Value]map[string]bool{}
	}
	x.ifaceOver[dyn] = over
	return &Value{K: KOpaque, Typ: t, Dyn: dyn}
}

// exploreStep: the callee's contract says `invokes p on entry` (checked on the callee's own body: p is only ever called with
// a context whose state equals the callee's entry state). When the argument for p is a function literal of the function
// under verification, its body is executed here once, in a copy of the current state and on a cache layer of the current
// world, so that the obligations inside it (call-site preconditions of modular callees, loop invariants) are generated with
// the captured variables bound to their real values. The resulting states are discarded: the caller continues with the
// callee's contract alone.
func (x *Exec) exploreStep(s *State, fi *FuncInfo, args []*Value, caller *callCtx, call *ast.CallExpr) WriteSet {
	c := fi.Contr
	sig := fi.Obj.Type().(*types.Signature)
	idx, ctxIdx, nfunc := -1, -1, 0
	for i := 0; i < sig.Params().Len(); i++ {
		if _, isFn := sig.Params().At(i).Type().Underlying().(*types.Signature); isFn {
			nfunc++
		}
		if sig.Params().At(i).Name() == c.Invokes {
			idx = i
		}
		if ctxIdx < 0 && isCtxType(sig.Params().At(i).Type()) {
			ctxIdx = i
		}
	}
	if idx < 0 || ctxIdx < 0 || idx >= len(args) || args[idx] == nil || args[idx].K != KFunc || args[idx].Fn == nil || args[idx].Fn.Lit == nil {
		x.note("EXPLORE: argument for %s at %s is not a function literal: its body is not explored", c.Invokes, x.Pr.Pos(call.Pos()))
		return nil
	}
	cl := args[idx].Fn
	if nfunc != 1 || x.selfFn.Decl == nil || cl.Lit.Pos() < x.selfFn.Decl.Pos() || cl.Lit.End() > x.selfFn.Decl.End() {
		return nil // only literals written in the function under verification itself
	}
	es := s.Clone()
	w, ok := es.Worlds[args[ctxIdx].W]
	if !ok {
		return nil
	}
	child := es.NewWorldID(w)
	var cargs []*Value
	lsig, _ := cl.Info.TypeOf(cl.Lit).Underlying().(*types.Signature)
	if lsig == nil {
		return nil
	}
	for i := 0; i < lsig.Params().Len(); i++ {
		pt := lsig.Params().At(i).Type()
		if isCtxType(pt) {
			cargs = append(cargs, &Value{K: KCtx, Typ: pt, W: child})
		} else {
			cargs = append(cargs, x.freshValue(pt, "explore.arg", es))
		}
	}
	dummy := &callCtx{fi: caller.fi, info: caller.info, pkg: caller.pkg, env: caller.env, depth: caller.depth, parent: caller}
	savedCur, savedSpec, savedWorld := x.cur, x.defaultSpec, x.specWorldID
	x.cur = dummy
	x.exploring++
	defer func() { x.cur, x.defaultSpec, x.specWorldID = savedCur, savedSpec, savedWorld; x.exploring-- }()
	x.callClosure(es, cl, cargs, call.Pos())
	x.note("EXPLORE: body of the function literal passed to %s at %s executed at the call site for its obligations", fi.Obj.Name(), x.Pr.Pos(call.Pos()))
	lw := WriteSet{}
	x.collectWrites(cl.Lit.Body, cl.Info, cl.Pkg, lw, map[*FuncInfo]bool{})
	return lw
}

func keysOfWS(ws WriteSet) []string {
	var out []string
	for k := range ws {
		out = append(out, k)
	}
	sort.Strings(out)
	return out
}
